"""C06 — symbolic equality, hashing and ordering obey their algebraic laws."""
import collections
import contextlib
import copy
import functools
import typing

import pyglove as pg

T = pg.typing
MISSING = pg.MISSING_VALUE

TIERS = {
    'quick': dict(shards=8, cases=160, pool_min=20, pool_max=30, hist_values=2, hist_steps=6,
                  hist_row=10),
    'thorough': dict(shards=16, cases=1200, pool_min=20, pool_max=30, hist_values=4,
                     hist_steps=10, hist_row=30),
}
RULE = ('case = one pool of 20-30 values built to collide: a small palette of atoms '
        '(numbers equal across bool/int/float, strings, None, MISSING_VALUE), tuples of '
        'one comparable family, plain and symbolic lists/dicts (str and int keys), objects '
        'of classes A, B(A), C(A)+field, D, a class without symbolic comparison, two '
        'classes with the same qualified name and two of four classes that declare a '
        'variable-key field next to fixed ones (StrKey() / StrKey(regex), a subclass with an '
        'extra fixed field, one without symbolic comparison; variable keys given in any order '
        'among the keyword arguments), nested to depth 3; then mutants of pool '
        'members (equal value of another type, neighbour atom, permuted/dropped/retyped '
        'dict keys, permuted/added variable keys of an object, plain<->symbolic container, '
        'other class, longer/shorter list) and '
        'equal-but-not-identical twins (half of the twins of a container are a shallow or '
        'deep clone of the earlier value). In a part of the pools: tuples of the classes '
        'collections.namedtuple / typing.NamedTuple / a user subclass of tuple next to plain '
        'tuples of the same items; values of user subclasses of pg.List / pg.Dict next to '
        'pg.List / pg.Dict of the same items; leaf OBJECTS that are not == to themselves (up '
        'to three float NaN objects, an object whose __eq__ is always False) shared by '
        'reference between the values of the pool (top level, in containers, objects, numeric '
        'tuples). pg.eq/ne/lt/gt are called on ALL ordered pairs '
        '(self pairs included), pg.hash on every value, ==/!=/hash() on every object whose '
        'class uses symbolic comparison, all triples are checked on the recorded results, '
        'and the pool is sorted with cmp_to_key(pg.lt). Non-trivial = at least 20 values, '
        'at least 5 top-level kinds, a nested value, and a pair of non-identical values of '
        'different kinds that are pg.eq; distinct by the pool description. HISTORIES: after '
        'the laws were evaluated on the freshly built pool (every memo a value may keep is '
        'populated by then), a few pool members that contain a symbolic node are mutated in '
        'place through the public write paths at any depth (accessor writes, list/dict '
        'mutators, rebind issued on the node or on a symbolic ancestor; with notification, '
        'inside pg.notify_on_change(False), with skip_notification=True, with '
        'notify_parents=False); the same edit is applied to the plain description, and after '
        'every step the live value and each of its symbolic sub-nodes is compared with a twin '
        'freshly built from the description, half of the twins with the dict keys / keyword '
        'arguments given in a permuted order at every level; object writes include variable '
        'keys (add, replace, remove, remove and give again) (eq both ways, ne, lt both ways, gt, pg.hash, '
        '==/!=/hash() for opt-in classes); the queries of one step populate the memos for the '
        'next (all nodes or a random subset). At the end the rows eq/lt(live, other) and '
        'eq/lt(twin, other) against a sample of the other pool members must coincide.')
REQUIRED_COUNTERS = ['pools', 'eq_calls', 'lt_calls', 'hash_calls', 'pairs_eq_true_nonidentical',
                     'trichotomy_checks', 'hash_agreement_checks', 'operator_checks',
                     'triples_eq_premise', 'triples_lt_premise', 'sort_runs', 'sorted_order_checks',
                     'type_rank_checks', 'first_difference_checks', 'history_steps',
                     'history_silent_steps', 'history_twin_checks',
                     'history_hash_agreement_checks', 'history_row_checks',
                     'pairs_eq_object_key_order', 'pairs_eq_object_key_order_nested',
                     'history_twins_permuted', 'history_op:Object.rebind[remove+readd]',
                     'pairs_eq_shared-nan-leaf', 'pairs_eq_tuple-subclass',
                     'pairs_eq_container-subclass', 'values_reached_by_clone']
ASSUMPTIONS = [
    'tuples hold primitives of one mutually comparable family per pool (numbers or strings), '
    'as the quantifier says; their concrete class (tuple, named tuples, a user subclass) is '
    'free, like the concrete class of a symbolic list / dict (pg.List / pg.Dict or a user '
    'subclass): pg.eq and pg.lt document item-wise comparison for every list/tuple/dict',
    'NaN (and an object of a non-symbolic class whose __eq__ is always False) is not a member '
    'of the strict total ORDER the property speaks of (pg.lt documents `<` for floats, IEEE: '
    'unordered; pg.eq documents comparison by reference for plain objects): a pair whose '
    'comparison has to compare such a leaf with any OTHER object (walking aligned list/tuple '
    'positions, common dict keys, common object fields) is a don\'t-care for twin equality, '
    'trichotomy, type rank, first difference, transitivity and the sorted order. Reflexivity '
    'is stated for every value: where such a leaf only ever meets ITSELF (x vs x, two '
    'containers / a value and its clone sharing the leaf object) every law is judged; and '
    'on EVERY pair: ne == not eq, eq symmetric, gt == swapped lt, eq => equal hash, no raise',
    'pg.hash of a plain (non-symbolic) list/dict falls back to hash() and raises by '
    'documentation; such values are hashed through pg.List/pg.Dict built from a deep copy',
    'MISSING_VALUE appears at top level and inside plain containers only (symbolic '
    'containers document that it deletes the entry)',
    'documented behaviour of pg.lt used as oracle besides the laws: the order of types '
    '(MISSING_VALUE, None, numbers, str, list, tuple, dict, objects) and the '
    'first-different-sub-node rule for lists, same-key-sequence dicts and same-class objects',
    'the order in which the keys of a dict / the variable keys of an object are stored is not '
    'part of the value (pg.eq ignores it by documentation), so a value built or rebound in '
    'another key order is a twin; the first-difference rule is applied to objects only when '
    'both store the same key sequence and that sequence is also the canonical (sorted) one',
    'a triple is reported only when none of its pairs already violates a pair law '
    '(attribution to the smallest witness)',
    'unequal values may hash equally; different-class/same-field collisions are only counted',
    'histories: the laws quantify over values, not over how a value was reached; a value '
    'mutated in place is the value its current content describes, so it must relate to a '
    'freshly built value of that content like a twin. Only documented write semantics are '
    'modelled (Python list/dict semantics of the mutators, rebind with MISSING_VALUE = delete '
    'the key / reset the field to its default, pg.Insertion); nothing is written into sealed '
    'or typed values (the pool has none)',
]
LEVEL = 'exploration'


# ---------------------------------------------------------------------------
# Classes of the pool.

class A(pg.Object):
  x: T.Any() = None
  y: T.Any() = None


class B(A):
  """Subclass without extra fields."""


class C(A):
  """Subclass with an extra field."""
  z: T.Any() = None


class D(pg.Object):
  """Unrelated class with the same fields as A."""
  x: T.Any() = None
  y: T.Any() = None


class N(pg.Object):
  """Does not opt into symbolic comparison for ==, != and hash()."""
  use_symbolic_comparison = False
  x: T.Any() = None
  y: T.Any() = None


def _make_same_qualname():
  class S(pg.Object):
    x: T.Any() = None
    y: T.Any() = None
  return S


S1, S2 = _make_same_qualname(), _make_same_qualname()


# Classes with variable-key fields next to fixed ones: the variable keys are
# stored in the order in which they were given / rebound, which is not part of
# the value (symbolic equality of the attributes ignores it).

@pg.members([('x', T.Any(default=None)), ('y', T.Any(default=None)),
             (T.StrKey('p.*'), T.Any())])
class KR(pg.Object):
  """Fixed fields x, y plus keys matching a regular expression."""


@pg.members([('x', T.Any(default=None)), (T.StrKey(), T.Any())])
class K(pg.Object):
  """Fixed field x plus any other str key."""


class KS(K):
  """Subclass with an extra fixed field (the variable-key field is inherited)."""
  z: T.Any() = None


class KN(KR):
  """Variable keys, no symbolic comparison for ==, != and hash()."""
  use_symbolic_comparison = False


CLASSES = {'A': A, 'B': B, 'C': C, 'D': D, 'N': N, 'S1': S1, 'S2': S2,
           'KR': KR, 'K': K, 'KS': KS, 'KN': KN}
FIELDS = {'A': 'xy', 'B': 'xy', 'C': 'xyz', 'D': 'xy', 'N': 'xy', 'S1': 'xy', 'S2': 'xy',
          'KR': 'xy', 'K': 'x', 'KS': 'xz', 'KN': 'xy'}
# Variable keys used per class. Those of K/KS sort after the fixed fields, those
# of KR/KN before them (the two readings of "first different sub-node" differ
# for the latter only).
DYN = {'KR': ['p1', 'p2', 'p3'], 'KN': ['p1', 'p2', 'p3'],
       'K': ['z1', 'z2', 'z3'], 'KS': ['z1', 'z2', 'z3']}
DYN_CLASSES = sorted(DYN)


def accepts(cls, f):
  return f in list(FIELDS[cls]) or f in DYN.get(cls, ())


def all_fields(cls):
  return list(FIELDS[cls]) + DYN.get(cls, [])


# Values of subclasses of the container types: pg.eq / pg.lt treat every list,
# every tuple and every dict alike, whatever its concrete class.

class ML(pg.List):
  """A user subclass of pg.List."""


class MD(pg.Dict):
  """A user subclass of pg.Dict."""


SUBCONT = {'ML': ML, 'MD': MD}
SUBCONT_TYPES = (ML, MD)

P1 = collections.namedtuple('P1', 'x')
P2 = collections.namedtuple('P2', 'x y')
P3 = collections.namedtuple('P3', 'x y z')


class Q2(typing.NamedTuple):
  x: typing.Any
  y: typing.Any


class TT(tuple):
  """A user subclass of tuple (any length)."""


# name -> (class, length it requires or None)
TUPLE_CLASSES = {'P1': (P1, 1), 'P2': (P2, 2), 'Q2': (Q2, 2), 'P3': (P3, 3), 'TT': (TT, None)}


def tuple_tags(n):
  return sorted(t for t, (_, k) in TUPLE_CLASSES.items() if k is None or k == n)


class Unequal:
  """A leaf object of a non-symbolic class that is not == to anything, itself
  included (pg.eq documents comparison by reference for such objects). Copies
  are the object itself, like for other immutable leaves."""

  def __eq__(self, other):
    return False

  def __ne__(self, other):
    return True

  def __lt__(self, other):
    return False

  def __gt__(self, other):
    return False

  def __hash__(self):
    return id(self)

  def __copy__(self):
    return self

  def __deepcopy__(self, memo):
    return self

  def __repr__(self):
    return 'Unequal()'


# Leaf objects that are not == to themselves, shared by reference between the
# values of one pool: description ['h', i] is LEAVES[i] itself wherever it
# occurs. New objects for every case.
LEAVES = []
LEAF_KINDS = ['nan', 'nan', 'nan', 'opaque', 'opaque']
# What a leaf is replaced with to ask "does the law also fail without it".
LEAF_SUBST = [7001.5, 7002.5, 7003.5, 'opaque#3', 'opaque#4']


def reset_leaves():
  LEAVES[:] = [float('nan') if k == 'nan' else Unequal() for k in LEAF_KINDS]


def is_hostile(v):
  return isinstance(v, Unequal) or (isinstance(v, float) and v != v)


def item_desc(x):
  """Description of a tuple item (a primitive or a shared leaf ['h', i])."""
  return x if isinstance(x, list) else ['v', x]


NUM_GROUPS = [
    [1, 1.0, True], [0, 0.0, False, -0.0], [2, 2.0], [-1, -1.0], [0.5], [-2],
    [2 ** 53, float(2 ** 53)], [2 ** 53 + 1], [10 ** 20, 1e20], [float('inf')],
    [float('-inf')], [3],
]
STRS = ['', 'a', 'b', 'ab', 'B', '0', '1', 'é', 'None']
STR_KEYS = ['a', 'b', 'c']
INT_KEYS = [0, 1, 2]


# ---------------------------------------------------------------------------
# Descriptions: ['M'] | ['v', prim-or-None] | ['h', i] | ['t', [prim or ['h', i]...] (, tuple class)]
#               | ['l'|'L', [desc...] (, 'ML')] | ['d'|'D', [[key, desc]...] (, 'MD')]
#               | ['O', clsname, [[field, desc]...]]

def build(d, perm=None):
  """The value of a description. With `perm` (a Random) the keys of dicts and
  the keyword arguments of objects are given in a permuted order at every
  level: the same content, stored through a different construction history."""
  k = d[0]
  if k == 'M':
    return MISSING
  if k == 'v':
    return d[1]
  if k == 'h':
    return LEAVES[d[1]]
  if k == 't':
    items = [LEAVES[x[1]] if isinstance(x, list) else x for x in d[1]]
    if len(d) > 2:
      cls, arity = TUPLE_CLASSES[d[2]]
      return cls(items) if arity is None else cls(*items)
    return tuple(items)
  if k in 'lL':
    items = [build(x, perm) for x in d[1]]
    if k == 'L':
      return SUBCONT[d[2]](items) if len(d) > 2 else pg.List(items)
    return items
  entries = list(d[1] if k in 'dD' else d[2])
  if perm is not None and len(entries) > 1 and perm.random() < 0.7:
    perm.shuffle(entries)
  if k in 'dD':
    items = {kk: build(x, perm) for kk, x in entries}
    if k == 'D':
      return SUBCONT[d[2]](items) if len(d) > 2 else pg.Dict(items)
    return items
  if k == 'O':
    return CLASSES[d[1]](**{f: build(x, perm) for f, x in entries})
  raise ValueError(d)


def show(d):
  k = d[0]
  if k == 'M':
    return 'MISSING'
  if k == 'v':
    return repr(d[1])
  if k == 'h':
    return f'{LEAF_KINDS[d[1]]}#{d[1]}'
  if k == 't':
    s = ', '.join(show(item_desc(x)) for x in d[1])
    if len(d) > 2:
      return f'{d[2]}({s})' if TUPLE_CLASSES[d[2]][1] else f'{d[2]}(({s}{"," if d[1] else ""}))'
    return f'({s}{"," if len(d[1]) == 1 else ""})'
  if k in 'lL':
    s = '[' + ', '.join(show(x) for x in d[1]) + ']'
    return f'{d[2] if len(d) > 2 else "pg.List"}({s})' if k == 'L' else s
  if k in 'dD':
    s = '{' + ', '.join(f'{kk!r}: {show(x)}' for kk, x in d[1]) + '}'
    return f'{d[2] if len(d) > 2 else "pg.Dict"}({s})' if k == 'D' else s
  return f'{d[1]}(' + ', '.join(f'{f}={show(x)}' for f, x in d[2]) + ')'


def depth_of(d):
  k = d[0]
  if k in 'lL':
    return 1 + max([depth_of(x) for x in d[1]] or [0])
  if k in 'dD':
    return 1 + max([depth_of(x) for _, x in d[1]] or [0])
  if k == 'O':
    return 1 + max([depth_of(x) for _, x in d[2]] or [0])
  return 0


def normalize(d, aspects):
  """The description without the given aspects (names of SPECIAL): containers /
  tuples of the base class, the shared leaves of a kind replaced by ordinary
  atoms (one per leaf object)."""
  k = d[0]

  def leaf(x):
    if f'shared-{LEAF_KINDS[x[1]]}-leaf' in aspects:
      return ['v', LEAF_SUBST[x[1]]]
    return x
  if k == 'h':
    return leaf(d)
  if k == 't':
    items = [(leaf(x) if isinstance(x, list) else x) for x in d[1]]
    items = [x[1] if isinstance(x, list) and x[0] == 'v' else x for x in items]
    return ['t', items] + ([] if 'tuple-subclass' in aspects else d[2:])
  if k in 'lL':
    return [k, [normalize(x, aspects) for x in d[1]]] + (
        [] if 'container-subclass' in aspects else d[2:])
  if k in 'dD':
    return [k, [[kk, normalize(x, aspects)] for kk, x in d[1]]] + (
        [] if 'container-subclass' in aspects else d[2:])
  if k == 'O':
    return ['O', d[1], [[f, normalize(x, aspects)] for f, x in d[2]]]
  return d


def has_subclass(d, kinds):
  """Does the description hold a value of a user subclass of pg.List / pg.Dict
  (kinds='lLdD') or of tuple (kinds='t')?"""
  k = d[0]
  if k in kinds and len(d) > 2:
    return True
  if k in 'lL':
    return any(has_subclass(x, kinds) for x in d[1])
  if k in 'dD':
    return any(has_subclass(x, kinds) for _, x in d[1])
  if k == 'O':
    return any(has_subclass(x, kinds) for _, x in d[2])
  return False


class Palette:
  """Per-pool choice of atoms, so that values collide often."""

  def __init__(self, rng):
    groups = rng.sample(NUM_GROUPS[:4], 2) + rng.sample(NUM_GROUPS, 2)
    self.nums = [v for g in groups for v in g]
    self.strs = rng.sample(STRS, 3)
    self.tuple_family = rng.choice(['num', 'str'])
    self.same_qualname = rng.random() < 0.15
    self.int_keys = rng.random() < 0.5
    self.classes = (['A', 'B', 'C', 'D', 'N'] + rng.sample(DYN_CLASSES, 2)
                    + (['S1', 'S2'] if self.same_qualname else []))
    # Leaves that are not == to themselves (indices into LEAVES), subclasses of
    # tuple, subclasses of pg.List / pg.Dict: each in a part of the pools.
    self.hostile = []
    if rng.random() < 0.35:
      self.hostile = rng.sample([0, 1, 2], rng.choice([1, 2, 2]))
      if rng.random() < 0.3:
        self.hostile.append(rng.choice([3, 4]))
    self.tuple_classes = rng.random() < 0.4
    self.subcont = rng.random() < 0.2

  def atom(self, rng, allow_m):
    if self.hostile and rng.random() < 0.15:
      return ['h', rng.choice(self.hostile)]
    r = rng.random()
    if r < 0.5:
      return ['v', rng.choice(self.nums)]
    if r < 0.75:
      return ['v', rng.choice(self.strs)]
    if r < 0.9 or not allow_m:
      return ['v', None]
    return ['M']

  def tup(self, rng):
    src = self.nums if self.tuple_family == 'num' else self.strs
    items = [rng.choice(src) for _ in range(rng.randint(0, 3))]
    nans = [i for i in self.hostile if LEAF_KINDS[i] == 'nan']
    if nans and items and self.tuple_family == 'num' and rng.random() < 0.3:
      items[rng.randrange(len(items))] = ['h', rng.choice(nans)]
    d = ['t', items]
    if self.tuple_classes and rng.random() < 0.35:
      d.append(rng.choice(tuple_tags(len(items))))
    return d

  def retag(self, rng, d):
    """The tuple description `d` with a tuple class that suits its length
    (another one than it has, when `d` has one that suits)."""
    tags = [None] + tuple_tags(len(d[1]))
    cur = d[2] if len(d) > 2 else None
    if not self.tuple_classes and cur in tags:
      return d[:3]
    tag = rng.choice([t for t in tags if t != cur])
    return ['t', d[1]] + ([tag] if tag else [])

  def key(self, rng):
    if self.int_keys and rng.random() < 0.35:
      return rng.choice(INT_KEYS)
    return rng.choice(STR_KEYS)


def gen(rng, pal, depth, allow_m):
  r = rng.random()
  if depth <= 0 or r < 0.35:
    return pal.tup(rng) if rng.random() < 0.15 else pal.atom(rng, allow_m)
  if r < 0.55:
    sym = rng.random() < 0.5
    return (['L' if sym else 'l', [gen(rng, pal, depth - 1, allow_m and not sym)
                                   for _ in range(rng.randint(0, 3))]]
            + (['ML'] if sym and pal.subcont and rng.random() < 0.4 else []))
  if r < 0.77:
    sym = rng.random() < 0.5
    keys = []
    for _ in range(rng.randint(0, 3)):
      kk = pal.key(rng)
      if kk not in keys:
        keys.append(kk)
    return (['D' if sym else 'd', [[kk, gen(rng, pal, depth - 1, allow_m and not sym)]
                                   for kk in keys]]
            + (['MD'] if sym and pal.subcont and rng.random() < 0.4 else []))
  cls = rng.choice(pal.classes)
  fields = [f for f in FIELDS[cls] if rng.random() < 0.7]
  if cls in DYN:
    # Variable keys in any order, interleaved with the fixed fields (the order
    # of the keyword arguments is the order in which they are stored).
    fields += rng.sample(DYN[cls], rng.choice([0, 1, 2, 2, 3, 3]))
    rng.shuffle(fields)
  return ['O', cls, [[f, gen(rng, pal, depth - 1, False)] for f in fields]]


def mutate(rng, pal, d, allow_m=True):
  """A description that differs from `d` in one small respect."""
  d = copy.deepcopy(d)
  k = d[0]
  kids = None
  if k in 'lL' and d[1]:
    kids = [(d[1], i, allow_m and k == 'l') for i in range(len(d[1]))]
  elif k in 'dD' and d[1]:
    kids = [(e, 1, allow_m and k == 'd') for e in d[1]]
  elif k == 'O' and d[2]:
    kids = [(e, 1, False) for e in d[2]]
  if kids and rng.random() < 0.5:
    holder, idx, am = rng.choice(kids)
    holder[idx] = mutate(rng, pal, holder[idx], am)
    return d
  r = rng.random()
  if k == 'h':
    if r < 0.5:
      return pal.atom(rng, allow_m)
    others = [i for i in pal.hostile if i != d[1] and LEAF_KINDS[i] == LEAF_KINDS[d[1]]]
    if others and r < 0.7:
      return ['h', rng.choice(others)]       # another object of the same kind
    return rng.choice([['l', [d]], ['L', [d]], ['d', [['a', d]]], ['O', 'A', [['x', d]]]])
  if k in ('M', 'v'):
    if k == 'v' and isinstance(d[1], (bool, int, float)) and r < 0.5:
      for g in NUM_GROUPS:
        if any(type(v) is type(d[1]) and v == d[1] for v in g) and len(g) > 1:
          return ['v', rng.choice([v for v in g if type(v) is not type(d[1])
                                   or repr(v) != repr(d[1])])]
    if r < 0.8:
      return pal.atom(rng, allow_m)
    return rng.choice([['l', [d]], ['L', [d]] if d[0] != 'M' else ['l', [d]],
                       ['d', [['a', d]]]])
  if k == 't':
    if pal.tuple_classes and r < 0.4:
      return pal.retag(rng, d)               # the same items in a tuple of another class
    r = rng.random()
    if r < 0.5 and d[1]:
      return pal.retag(rng, ['t', d[1][:-1]] + d[2:]) if len(d) > 2 else ['t', d[1][:-1]]
    if r < 0.8:
      longer = ['t', d[1] + pal.tup(rng)[1][:1]] + d[2:]
      return pal.retag(rng, longer) if len(d) > 2 else longer
    return rng.choice([['l', [item_desc(v) for v in d[1]]], ['L', [item_desc(v) for v in d[1]]]])
  if k in 'lL':
    if k == 'L' and pal.subcont and r < 0.15:
      return ['L', d[1]] + ([] if len(d) > 2 else ['ML'])    # the same items, other list class
    if r < 0.25:
      return [{'l': 'L', 'L': 'l'}[k], d[1]] if not has_missing(d) else ['l', d[1][:-1]]
    if r < 0.45:
      return [k, d[1][:-1]]
    if r < 0.7:
      return [k, d[1] + [pal.atom(rng, allow_m and k == 'l')]]
    if r < 0.85 and len(d[1]) > 1:
      items = d[1][:]
      i, j = rng.sample(range(len(items)), 2)
      items[i], items[j] = items[j], items[i]
      return [k, items]
    return [k, [pal.atom(rng, allow_m and k == 'l')] + d[1]]
  if k in 'dD':
    items = d[1]
    if k == 'D' and pal.subcont and r < 0.15:
      return ['D', items] + ([] if len(d) > 2 else ['MD'])    # the same items, other dict class
    if r < 0.35 and len(items) > 1:
      items = items[:]
      if rng.random() < 0.5:
        items.reverse()
      else:
        items = items[1:] + items[:1]
      return [k, items]
    if r < 0.5:
      return [{'d': 'D', 'D': 'd'}[k], items] if not has_missing(d) else ['d', items[:-1]]
    if r < 0.62:
      return [k, items[:-1]]
    if r < 0.8:
      used = [kk for kk, _ in items]
      free = [kk for kk in STR_KEYS + (INT_KEYS if pal.int_keys else []) if kk not in used]
      if free:
        return [k, items + [[rng.choice(free), pal.atom(rng, allow_m and k == 'd')]]]
    if r < 0.9 and items and pal.int_keys:
      used = [kk for kk, _ in items]
      i = rng.randrange(len(items))
      cands = [kk for kk in (INT_KEYS if isinstance(items[i][0], str) else STR_KEYS)
               if kk not in used]
      if cands:
        items = items[:]
        items[i] = [rng.choice(cands), items[i][1]]
        return [k, items]
    if items:
      i = rng.randrange(len(items))
      items = items[:]
      items[i] = [items[i][0], pal.atom(rng, allow_m and k == 'd')]
    return [k, items]
  # object
  dyn = DYN.get(d[1], [])
  if dyn and r < 0.5:
    present = [e[0] for e in d[2] if e[0] in dyn]
    if len(present) >= 2 and rng.random() < 0.8:
      # the same content, the variable keys given in another order
      items = d[2][:]
      if rng.random() < 0.5:
        items.reverse()
      else:
        items = items[1:] + items[:1]
      return ['O', d[1], items]
    free = [f for f in dyn if f not in present]
    if free:
      items = d[2][:]
      items.insert(rng.randint(0, len(items)), [rng.choice(free), pal.atom(rng, False)])
      return ['O', d[1], items]
  r = rng.random()
  if r < 0.5:
    other = rng.choice([c for c in pal.classes if c != d[1]])
    if dyn and rng.random() < 0.5:
      others = [c for c in pal.classes if c != d[1] and DYN.get(c) == dyn]
      other = rng.choice(others) if others else other
    return ['O', other, [[f, x] for f, x in d[2] if accepts(other, f)]]
  if r < 0.7 and d[2]:
    return ['O', d[1], d[2][:-1]]
  if r < 0.85:
    return ['d', [[f, x] for f, x in d[2]]]
  f = rng.choice(all_fields(d[1]))
  return ['O', d[1], [e for e in d[2] if e[0] != f] + [[f, pal.atom(rng, False)]]]


def has_missing(d):
  k = d[0]
  if k == 'M':
    return True
  if k in 'lL':
    return any(has_missing(x) for x in d[1])
  if k in 'dD':
    return any(has_missing(x) for _, x in d[1])
  return False


def make_pool(rng, params):
  pal = Palette(rng)
  size = rng.randint(params['pool_min'], params['pool_max'])
  n_twins = rng.randint(4, 6)
  n_base = rng.randint(9, 11)
  descs = [['v', None], rng.choice([['M'], ['v', rng.choice(pal.nums)]]),
           ['v', rng.choice(pal.nums)], ['v', rng.choice(pal.strs)], pal.tup(rng)]
  if pal.tuple_classes:
    descs.append(pal.retag(rng, descs[-1]))
  if pal.hostile and rng.random() < 0.5:
    descs.append(['h', rng.choice(pal.hostile)])
  while len(descs) < n_base:
    d = gen(rng, pal, rng.choice([1, 2, 2, 3]), True)
    if depth_of(d) == 0 and rng.random() < 0.7:
      continue
    descs.append(d)

  def pick():
    return rng.choices(descs, weights=[min(1 + depth_of(d), 3) for d in descs])[0]

  while len(descs) < size - n_twins:
    descs.append(mutate(rng, pal, pick()))
  for _ in range(n_twins):
    descs.append(copy.deepcopy(pick()))
  rng.shuffle(descs)
  return pal, descs


# ---------------------------------------------------------------------------
# Harness-side classification of operands (never of results).

KINDS = ['MISSING', 'None', 'bool', 'int', 'float', 'str', 'list', 'List', 'tuple',
         'dict', 'Dict', 'object', 'opaque']
RANK = {'MISSING': 0, 'None': 1, 'bool': 2, 'int': 2, 'float': 2, 'str': 3, 'list': 4,
        'List': 4, 'tuple': 5, 'dict': 7, 'Dict': 7, 'object': 8, 'opaque': 8}


def kind(v):
  if v is MISSING:
    return 'MISSING'
  if v is None:
    return 'None'
  for t, name in ((bool, 'bool'), (int, 'int'), (float, 'float'), (str, 'str'),
                  (pg.List, 'List'), (list, 'list'), (tuple, 'tuple'), (pg.Dict, 'Dict'),
                  (dict, 'dict')):
    if isinstance(v, t):
      return name
  if isinstance(v, pg.Object):
    return 'object'
  if isinstance(v, Unequal):
    return 'opaque'
  raise ValueError(f'unexpected value in pool: {type(v)}')


def flags(a, b, out):
  """Structural relations between two operands that the laws may be sensitive to."""
  if a is b:
    if is_hostile(a):
      out.add('shared-nan-leaf' if isinstance(a, float) else 'shared-opaque-leaf')
  elif isinstance(a, tuple) and isinstance(b, tuple):
    if type(a) is not type(b):
      out.add('tuple-subclass')
    for x, y in zip(a, b):
      flags(x, y, out)
  if ((isinstance(a, list) and isinstance(b, list) or isinstance(a, dict) and isinstance(b, dict))
      and type(a) is not type(b) and (type(a) in SUBCONT_TYPES or type(b) in SUBCONT_TYPES)):
    out.add('container-subclass')       # one is of a user subclass of pg.List / pg.Dict
  if isinstance(a, dict) and isinstance(b, dict):
    ka, kb = list(a.keys()), list(b.keys())
    if ka != kb:
      if len(ka) == len(kb) and set(ka) == set(kb):
        out.add('dict-key-order')
      for x, y in zip(ka, kb):
        if x != y:
          if type(x) is not type(y):
            out.add('dict-mixed-key-types')
          break
    for kk in ka:
      if kk in b:
        flags(a[kk], b[kk], out)
  elif isinstance(a, list) and isinstance(b, list):
    for x, y in zip(a, b):
      flags(x, y, out)
  elif isinstance(a, pg.Object) and isinstance(b, pg.Object):
    if type(a) is type(b):
      ka, kb = list(a.sym_keys()), list(b.sym_keys())
      if ka != kb and len(ka) == len(kb) and set(ka) == set(kb):
        out.add('object-key-order')       # variable keys stored in another order
      for kk in ka:
        if kk in kb:
          flags(a.sym_getattr(kk), b.sym_getattr(kk), out)
    elif type(a).__qualname__ == type(b).__qualname__:
      out.add('same-qualname-classes')


def undetermined(x, y):
  """True when comparing x with y has to compare a leaf that is not == to itself
  (NaN, Unequal) with any OTHER object: IEEE semantics / comparison by reference
  then decide, and the order sentences do not apply. Where such a leaf only ever
  meets itself, reflexivity decides and every law applies."""
  if is_hostile(x) or is_hostile(y):
    return x is not y
  if (isinstance(x, list) and isinstance(y, list)
      or isinstance(x, tuple) and isinstance(y, tuple)):
    return any(undetermined(p, q) for p, q in zip(x, y))
  if isinstance(x, dict) and isinstance(y, dict):
    gx = x.sym_getattr if isinstance(x, pg.Symbolic) else x.__getitem__
    gy = y.sym_getattr if isinstance(y, pg.Symbolic) else y.__getitem__
    return any(undetermined(gx(k), gy(k)) for k in x.keys() if k in y)
  if isinstance(x, pg.Object) and isinstance(y, pg.Object):
    ky = set(y.sym_keys())
    return any(undetermined(v, y.sym_getattr(k)) for k, v in x.sym_items() if k in ky)
  return False


def same(x, y):
  """The harness's own structural equality (used only to name mechanisms)."""
  kx, ky = MECH_KIND[kind(x)], MECH_KIND[kind(y)]
  if kx != ky:
    return False
  if kx in ('MISSING', 'None'):
    return True
  if kx == 'opaque':
    return x is y
  if kx in ('number', 'str', 'tuple'):
    return x is y or x == y
  if kx == 'list':
    return len(x) == len(y) and all(same(p, q) for p, q in zip(x, y))
  if kx == 'dict':
    return set(x.keys()) == set(y.keys()) and all(same(x[k], y[k]) for k in x.keys())
  return (type(x) is type(y) and set(x.sym_keys()) == set(y.sym_keys()) and all(
      same(p, y.sym_getattr(kk)) for kk, p in x.sym_items()))


def locus(a, b):
  """The pair of sub-nodes at which a first-difference comparison of a and b ends."""
  while True:
    if isinstance(a, list) and isinstance(b, list):
      pairs = list(zip(a, b))
    elif isinstance(a, dict) and isinstance(b, dict):
      pairs = []
      for ka, kb in zip(list(a.keys()), list(b.keys())):
        if ka != kb:
          break
        pairs.append((a[ka], b[kb]))
    elif isinstance(a, pg.Object) and type(a) is type(b):
      pairs = []
      for (ka, x), (kb, y) in zip(a.sym_items(), b.sym_items()):
        if ka != kb:
          break
        pairs.append((x, y))
    else:
      return a, b
    for x, y in pairs:
      if not same(x, y):
        a, b = x, y
        break
    else:
      return a, b


MECH_KIND = {'MISSING': 'MISSING', 'None': 'None', 'bool': 'number', 'int': 'number',
             'float': 'number', 'str': 'str', 'list': 'list', 'List': 'list',
             'tuple': 'tuple', 'dict': 'dict', 'Dict': 'dict', 'object': 'object',
             'opaque': 'opaque'}
MECH_ORDER = ['MISSING', 'None', 'number', 'str', 'list', 'tuple', 'dict', 'object', 'opaque']
# Classes of input whose share in a violation is established by asking the same
# question with base-class containers / ordinary leaves (see Pool.mech).
SPECIAL = ['container-subclass', 'tuple-subclass', 'shared-nan-leaf', 'shared-opaque-leaf']
RAISE_PREF = ['same-qualname-classes', 'dict-mixed-key-types', 'dict-key-order',
              'object-key-order']
LAW_PREF = ['dict-key-order', 'object-key-order']


class Pool:

  def __init__(self, descs, rng=None):
    self.descs = descs
    self.vals = []
    self.cloned = 0
    for i, d in enumerate(descs):
      # A value whose description occurred before is, half of the time, reached
      # through another route: a shallow or deep clone of the earlier value
      # (non-symbolic leaves are shared with it by reference).
      j = descs.index(d)
      if rng is not None and j < i and d[0] in 'lLdDO' and rng.random() < 0.5:
        src = self.vals[j]
        if isinstance(src, pg.Symbolic):
          self.vals.append(src.clone(deep=rng.random() < 0.5))
          self.cloned += 1
          continue
        if not has_missing(d):
          self.vals.append(copy.deepcopy(src))
          self.cloned += 1
          continue
      self.vals.append(build(d))
    self.kinds = [kind(v) for v in self.vals]
    self.n = len(descs)
    self.shown = [show(d) for d in descs]
    self._flags = {}

  def flags(self, i, j):
    key = (min(i, j), max(i, j))
    if key not in self._flags:
      out = set()
      flags(self.vals[i], self.vals[j], out)
      # somewhere in the pair (a copy of such a value is a pg.List / pg.Dict / tuple)
      for name, kinds in (('container-subclass', 'lLdD'), ('tuple-subclass', 't')):
        if has_subclass(self.descs[i], kinds) or has_subclass(self.descs[j], kinds):
          out.add(name)
      self._flags[key] = out
    return self._flags[key]

  def mech(self, idx, raising=False, clause=None):
    """Mechanism class of one value, a pair or a triple of pool members."""
    fl = set()
    for a in range(len(idx)):
      for b in range(a + 1, len(idx)):
        fl |= self.flags(idx[a], idx[b])
    special = [x for x in SPECIAL if x in fl]
    if special and len(idx) == 2 and clause is not None:
      # Does the pair break the same law with containers / tuples of the base
      # classes and ordinary atoms in place of the shared leaves? If not, these
      # decide.
      da, db = self.descs[idx[0]], self.descs[idx[1]]
      for asp in [[x] for x in special] + ([special] if len(special) > 1 else []):
        x, y = build(normalize(da, asp)), build(normalize(db, asp))
        if clause not in pair_clauses(x, y, twin=da == db):
          return '+'.join(asp)
    if raising:
      for name in RAISE_PREF:
        if name in fl:
          return name
    elif fl & set(LAW_PREF):
      # stored key orders differ (of dicts, of the variable keys of objects, or both)
      return '+'.join(name for name in LAW_PREF if name in fl)
    if len(idx) == 2:
      ks = [MECH_KIND[kind(v)] for v in locus(self.vals[idx[0]], self.vals[idx[1]])]
    else:
      ks = [MECH_KIND[self.kinds[i]] for i in idx]
      if len(idx) > 2:
        ks = set(ks)
    return '-'.join(sorted(ks, key=MECH_ORDER.index))

  def witness(self, idx):
    return {'values': [self.shown[i] for i in idx], 'pool': self.shown}


class Raised:
  """Result of a library call that raised."""

  def __init__(self, e):
    self.name = type(e).__name__
    self.text = f'{type(e).__name__}: {e!s:.200}'

  def __repr__(self):
    return f'<raised {self.text}>'


def call(fn, *args):
  try:
    return fn(*args)
  except Exception as e:  # pylint: disable=broad-except
    return Raised(e)


def pair_clauses(x, y, twin=False):
  """The pair laws that (x, y) breaks (names of clauses)."""
  out = set()
  res = {}
  for name, fn, p, q in (('eq', pg.eq, x, y), ('eq2', pg.eq, y, x), ('ne', pg.ne, x, y),
                         ('lt', pg.lt, x, y), ('lt2', pg.lt, y, x), ('gt', pg.gt, x, y)):
    r = call(fn, p, q)
    if isinstance(r, Raised):
      out.add(f'{name.rstrip("2")}-raises')
    elif not isinstance(r, bool):
      out.add(f'{name.rstrip("2")}-not-bool')
    res[name] = r if isinstance(r, bool) else None
  e1, e2, ne, l1, l2, g = (res[k] for k in ('eq', 'eq2', 'ne', 'lt', 'lt2', 'gt'))
  if e1 is not None and ne is not None and ne != (not e1):
    out.add('ne-not-negation-of-eq')
  if e1 is not None and e2 is not None and e1 != e2:
    out.add('eq-asymmetric')
  elif twin and e1 is False:
    out.add('eq-twin-unequal')
  if g is not None and l2 is not None and g != l2:
    out.add('gt-not-swapped-lt')
  if None not in (e1, l1, l2) and int(l1) + int(e1) + int(l2) != 1:
    out.add('lt-and-eq-both-true' if e1 and (l1 or l2) else
            'lt-both-directions' if l1 and l2 else 'lt-eq-gt-none-holds')
  if e1:
    hx, hy = call(pg.hash, as_symbolic(x)), call(pg.hash, as_symbolic(y))
    if isinstance(hx, Raised) or isinstance(hy, Raised):
      out.add('hash-raises')
    elif hx != hy:
      out.add('eq-hash-differ')
  return out


def value_class_mech(desc, path, clause):
  """If two values freshly built from `desc` already break `clause` at the node
  at `path` (so no history is needed): the aspect(s) of SPECIAL without which
  they do not, else None."""
  def fresh(d):
    return navigate(build(d), path), navigate(build(d), path)
  a, b = fresh(desc)
  if clause not in pair_clauses(a, b, twin=True):
    return None
  fl = set()
  flags(a, b, fl)
  special = [x for x in SPECIAL if x in fl]
  for asp in [[x] for x in special] + ([special] if len(special) > 1 else []):
    a, b = fresh(normalize(desc, asp))
    if clause not in pair_clauses(a, b, twin=True):
      return '+'.join(asp)
  return None


def as_symbolic(v):
  """pg.hash documents the fall-back to hash() for non-symbolic values."""
  if isinstance(v, pg.Symbolic) or not isinstance(v, (list, dict)):
    return v
  return pg.List(copy.deepcopy(v)) if isinstance(v, list) else pg.Dict(copy.deepcopy(v))


# ---------------------------------------------------------------------------
# Histories: pool members mutated in place through the public write paths.

def sites(d, path=(), sym_from=None):
  """[(path, node description, depth of the first symbolic node on the path)] of
  every container node of a description. Plain containers below a symbolic node
  are converted to symbolic ones on construction / insertion, so everything
  below the first 'L'/'D'/'O' is a symbolic node."""
  k = d[0]
  if k not in 'lLdDO':
    return []
  if sym_from is None and k in 'LDO':
    sym_from = len(path)
  out = [(list(path), d, sym_from)]
  if k in 'lL':
    kids = list(enumerate(d[1]))
  elif k in 'dD':
    kids = [(kk, x) for kk, x in d[1]]
  else:
    kids = [(f, x) for f, x in d[2]]
  for kk, x in kids:
    out.extend(sites(x, tuple(path) + (kk,), sym_from))
  return out


def navigate(v, path):
  for k in path:
    v = v.sym_getattr(k) if isinstance(v, pg.Symbolic) else v[k]
  return v


def size_of(d):
  k = d[0]
  if k in 'lL':
    return 1 + sum(size_of(x) for x in d[1])
  if k in 'dD':
    return 1 + sum(size_of(x) for _, x in d[1])
  if k == 'O':
    return 1 + sum(size_of(x) for _, x in d[2])
  return 1


HIST_MODES = ['notify', 'notify_off', 'skip_notification', 'notify_parents=False']


def _dset(items, key, vd):
  for e in items:
    if e[0] == key and type(e[0]) is type(key):
      e[1] = vd
      return
  items.append([key, vd])


def _ddel(items, key):
  items[:] = [e for e in items if not (e[0] == key and type(e[0]) is type(key))]


def gen_hist_step(rng, pal, root_desc):
  """One write applicable to the value described by `root_desc`.

  Returns None or a dict: name, family, mode, shown, model() (edits the
  description in place), live(root value) (issues the call)."""
  cands = [s for s in sites(root_desc) if s[2] is not None]
  if not cands:
    return None
  path, nd, sym_from = rng.choice(cands)
  kind_ = {'l': 'List', 'L': 'List', 'd': 'Dict', 'D': 'Dict', 'O': 'Object'}[nd[0]]
  big = size_of(root_desc) > 40

  def val():
    return gen(rng, pal, 0 if big else rng.choice([0, 0, 1, 1, 2]), False)

  ops = []          # (name, family, shown args, model fn, live fn(node, **rebind opts))

  def add(name, family, shown, model, live):
    ops.append((name, family, shown, model, live))

  def add_rebind(name, key, value_desc, model):
    """A rebind of `key` of the chosen node, issued on the node itself or on one
    of its symbolic ancestors with the relative path as key."""
    j = rng.randint(sym_from, len(path))
    rel = list(path[j:]) + [key]
    api = rng.choice(['rebind', 'rebind', 'sym_rebind'])
    if value_desc == 'MISSING':
      mk = lambda: MISSING
      sv = 'MISSING_VALUE'
    elif value_desc[0] == 'ins':
      mk = lambda: pg.Insertion(build(value_desc[1]))
      sv = f'Insertion({show(value_desc[1])})'
    else:
      mk = lambda: build(value_desc)
      sv = show(value_desc)
    raw = len(rel) == 1 and rng.random() < 0.6

    def live(root, **opts):
      anchor = navigate(root, path[:j])
      key_ = rel[0] if raw else pg.KeyPath(list(rel))
      getattr(anchor, api)({key_: mk()}, raise_on_no_change=False, **opts)

    add(name, 'rebind', f'{api} at {list(path[:j])} of {rel} := {sv}', model,
        lambda root, **opts: live(root, **opts))

  def on_node(fn):
    return lambda root, **opts: fn(navigate(root, path))

  if kind_ == 'Object':
    items = nd[2]
    dyn = DYN.get(nd[1], [])
    f = rng.choice(all_fields(nd[1]) + dyn)       # variable keys twice as often
    vd = val()
    # A variable key that is new is stored after the present ones (_dset appends);
    # MISSING_VALUE resets a fixed field to its default and removes a variable key.
    add_rebind('Object.rebind', f, vd, lambda: _dset(items, f, vd))
    if any(e[0] == f for e in items):
      add_rebind('Object.rebind[reset]', f, 'MISSING', lambda: _ddel(items, f))
    present = [e for e in items if e[0] in dyn]
    if len(present) >= 2:
      # The same content through another history: a variable key is removed and
      # given again with the value it had (two rebinds).
      e0 = rng.choice(present[:-1])
      old = copy.deepcopy(e0[1])

      def model_readd():
        _ddel(items, e0[0])
        items.append([e0[0], old])
      j2 = rng.randint(sym_from, len(path))
      rel2 = list(path[j2:]) + [e0[0]]
      api2 = rng.choice(['rebind', 'sym_rebind'])

      def live_readd(root, **opts):
        anchor = navigate(root, path[:j2])
        getattr(anchor, api2)({pg.KeyPath(list(rel2)): MISSING},
                              raise_on_no_change=False, **opts)
        getattr(anchor, api2)({pg.KeyPath(list(rel2)): build(old)},
                              raise_on_no_change=False, **opts)
      add('Object.rebind[remove+readd]', 'rebind',
          f'{api2} at {list(path[:j2])} of {rel2} := MISSING_VALUE, then := {show(old)}',
          model_readd, live_readd)

    def setattr_(n):
      with pg.allow_writable_accessors(True):
        setattr(n, f, build(vd))
    add('Object.__setattr__', 'accessor', f'{f} := {show(vd)}',
        lambda: _dset(items, f, vd), on_node(setattr_))
  elif kind_ == 'List':
    items = nd[1]
    n_ = len(items)
    vd = val()
    vds = [val() for _ in range(rng.randint(0, 2))]
    i_ins = rng.randint(0, n_)
    add('List.append', 'mutator', show(vd), lambda: items.append(vd),
        on_node(lambda n: n.append(build(vd))))
    add('List.insert', 'mutator', f'{i_ins}, {show(vd)}', lambda: items.insert(i_ins, vd),
        on_node(lambda n: n.insert(i_ins, build(vd))))
    add('List.extend', 'mutator', '[' + ', '.join(show(x) for x in vds) + ']',
        lambda: items.extend(vds), on_node(lambda n: n.extend([build(x) for x in vds])))

    def iadd(n):
      n += [build(x) for x in vds]
    add('List.__iadd__', 'mutator', '[' + ', '.join(show(x) for x in vds) + ']',
        lambda: items.extend(vds), on_node(iadd))
    if n_:
      i = rng.randrange(n_)
      neg = i - n_ if rng.random() < 0.3 else i

      def setitem(n):
        n[neg] = build(vd)

      def delitem(n):
        del n[neg]
      add('List.__setitem__', 'accessor', f'[{neg}] := {show(vd)}',
          lambda: items.__setitem__(i, vd), on_node(setitem))
      add('List.__delitem__', 'accessor', f'[{neg}]', lambda: items.__delitem__(i),
          on_node(delitem))
      add('List.pop', 'mutator', f'{neg}', lambda: items.pop(i), on_node(lambda n: n.pop(neg)))
      add('List.reverse', 'mutator', '', items.reverse, on_node(lambda n: n.reverse()))
      add('List.clear', 'mutator', '', items.clear, on_node(lambda n: n.clear()))
      add_rebind('List.rebind', i, vd, lambda: items.__setitem__(i, vd))
      add_rebind('List.rebind[delete]', i, 'MISSING', lambda: items.__delitem__(i))
      add_rebind('List.rebind[insert]', i, ['ins', vd], lambda: items.insert(i, vd))
  else:
    items = nd[1]
    used = [e[0] for e in items]
    free = [kk for kk in STR_KEYS + (INT_KEYS if pal.int_keys else []) if kk not in used]
    vd = val()
    key = rng.choice(used + free) if not used or not free else (
        rng.choice(used) if rng.random() < 0.5 else rng.choice(free))

    def setitem(n):
      n[key] = build(vd)
    add('Dict.__setitem__', 'accessor', f'[{key!r}] := {show(vd)}',
        lambda: _dset(items, key, vd), on_node(setitem))
    if isinstance(key, str):
      add('Dict.__setattr__', 'accessor', f'{key} := {show(vd)}',
          lambda: _dset(items, key, vd), on_node(lambda n: setattr(n, key, build(vd))))
    add_rebind('Dict.rebind', key, vd, lambda: _dset(items, key, vd))
    upd = [[key, vd]]
    if free and rng.random() < 0.5:
      k2 = rng.choice(free)
      if k2 != key:
        upd.append([k2, val()])

    def model_update():
      for kk, x in upd:
        _dset(items, kk, x)
    su = '{' + ', '.join(f'{kk!r}: {show(x)}' for kk, x in upd) + '}'
    add('Dict.update', 'mutator', su, model_update,
        on_node(lambda n: n.update({kk: build(x) for kk, x in upd})))

    def ior(n):
      n |= {kk: build(x) for kk, x in upd}
    add('Dict.__ior__', 'mutator', su, model_update, on_node(ior))
    if free:
      kf = rng.choice(free)
      add('Dict.setdefault', 'mutator', f'{kf!r}, {show(vd)}', lambda: _dset(items, kf, vd),
          on_node(lambda n: n.setdefault(kf, build(vd))))
    if used:
      ku = rng.choice(used)

      def delitem(n):
        del n[ku]
      add('Dict.__delitem__', 'accessor', f'[{ku!r}]', lambda: _ddel(items, ku),
          on_node(delitem))
      add('Dict.pop', 'mutator', f'{ku!r}', lambda: _ddel(items, ku),
          on_node(lambda n: n.pop(ku)))
      add('Dict.clear', 'mutator', '', items.clear, on_node(lambda n: n.clear()))
      add_rebind('Dict.rebind[delete]', ku, 'MISSING', lambda: _ddel(items, ku))

  # Growth is kept in check: large values get removals more often.
  if big:
    shrink = [o for o in ops if o[0].split('.')[1] in (
        '__delitem__', 'pop', 'clear', 'rebind[delete]', 'rebind[reset]')]
    if shrink and rng.random() < 0.7:
      ops = shrink
  fams = sorted({o[1] for o in ops})
  fam = rng.choice(fams)                     # families first: rebind is not crowded out
  name, family, shown, model, live = rng.choice([o for o in ops if o[1] == fam])
  if rng.random() < 0.45:
    mode = 'notify'
  elif family == 'rebind':
    mode = rng.choice(HIST_MODES[1:])
  else:
    mode = 'notify_off'
  return {'name': name, 'family': family, 'mode': mode, 'model': model, 'live': live,
          'shown': f'{name}({shown}) at {list(path)} [{mode}]'}


def run_hist_step(step, root):
  opts = {}
  if step['mode'] == 'skip_notification':
    opts['skip_notification'] = True
  elif step['mode'] == 'notify_parents=False':
    opts['notify_parents'] = False
  with contextlib.ExitStack() as st:
    if step['mode'] == 'notify_off':
      st.enter_context(pg.notify_on_change(False))
    step['live'](root, **opts)


def uses_operators(v):
  return isinstance(v, pg.Object) and type(v).use_symbolic_comparison


def twin_laws(n, t, c, full=True):
  """Law violations between a live value `n` and a freshly built value `t` of the
  same content: [(clause, detail)]. full=False (sub-nodes, whose content the
  queries on the root walk anyway): eq, lt in one direction each and the hashes."""
  out = []
  if full:
    e1, e2 = call(pg.eq, n, t), call(pg.eq, t, n)
    ne = call(pg.ne, n, t)
    l1, l2 = call(pg.lt, n, t), call(pg.lt, t, n)
    g = call(pg.gt, n, t)
    c['eq_calls'] += 2
    c['ne_calls'] += 1
    c['lt_calls'] += 2
    c['gt_calls'] += 1
  else:
    e1 = e2 = call(pg.eq, n, t)
    l1 = call(pg.lt, n, t)
    l2 = g = False
    ne = (not e1) if isinstance(e1, bool) else False
    c['eq_calls'] += 1
    c['lt_calls'] += 1
  c['history_twin_checks'] += 1
  for name, r in (('eq', e1), ('eq', e2), ('ne', ne), ('lt', l1), ('lt', l2), ('gt', g)):
    if isinstance(r, Raised):
      out.append((f'{name}-raises', f'pg.{name} raised {r.text}'))
      return out
  if e1 != e2:
    out.append(('eq-asymmetric', f'pg.eq(live, fresh)={e1} pg.eq(fresh, live)={e2}'))
  elif e1 is not True:
    out.append(('eq-twin-unequal', 'the value mutated in place is not pg.eq to a value '
                'freshly built with the same content'))
  if ne != (not e1):
    out.append(('ne-not-negation-of-eq', f'pg.eq={e1} pg.ne={ne}'))
  if e1 is True and (l1 or l2):
    out.append(('lt-and-eq-both-true', f'lt(live, fresh)={l1} lt(fresh, live)={l2} eq=True'))
  if g != l2:
    out.append(('gt-not-swapped-lt', f'pg.gt(live, fresh)={g} pg.lt(fresh, live)={l2}'))
  hn, ht = call(pg.hash, as_symbolic(n)), call(pg.hash, as_symbolic(t))
  c['hash_calls'] += 2
  if isinstance(hn, Raised) or isinstance(ht, Raised):
    out.append(('hash-raises', f'pg.hash raised: live {hn!r} fresh {ht!r}'))
  elif e1 is True:
    c['history_hash_agreement_checks'] += 1
    if hn != ht:
      out.append(('eq-hash-differ', 'pg.eq(live, fresh) is True but pg.hash differs'))
  if uses_operators(n):
    oe = call(lambda x, y: x == y, n, t)
    on = call(lambda x, y: x != y, n, t)
    oh = call(hash, n)
    c['operator_checks'] += 3
    if isinstance(oe, Raised) or bool(oe) != e1:
      out.append(('op-eq-disagrees', f'(live == fresh) gave {oe!r}, pg.eq={e1}'))
    if isinstance(on, Raised) or bool(on) != (not e1):
      out.append(('op-ne-disagrees', f'(live != fresh) gave {on!r}, pg.ne={not e1}'))
    # (pg.hash(live) != pg.hash(fresh) is reported above as eq-hash-differ)
    hx = ht if isinstance(hn, Raised) else hn
    if e1 is True and not isinstance(hx, Raised) and (isinstance(oh, Raised) or oh != hx):
      out.append(('op-hash-disagrees', f'hash(live)={oh!r}, pg.hash(live)={hn!r}, '
                  f'pg.hash(fresh)={ht!r}'))
  return out


def run_histories(ctx, P, pal):
  rng, c = ctx.rng, ctx.counters
  members = [a for a in range(P.n) if any(s[2] is not None for s in sites(P.descs[a]))]
  rng.shuffle(members)
  for idx in members[:ctx.params.get('hist_values', 3)]:
    desc = copy.deepcopy(P.descs[idx])
    live = P.vals[idx]
    trace = []
    c['history_values'] += 1

    def check(mech, subset):
      """Compares the live value and its symbolic sub-nodes with a fresh twin;
      returns (twin, found a violation)."""
      ctx.label = 'build-twin'
      # A twin has the same content; half of the twins were given their dict keys /
      # keyword arguments in another order than the live value stores them.
      permuted = rng.random() < 0.5
      twin = build(desc, rng if permuted else None)
      ctx.label = None
      if permuted:
        c['history_twins_permuted'] += 1
      where = [([], None)] + [(p, sf) for p, _, sf in sites(desc) if sf is not None and p]
      if subset:
        where = [w for w in where if rng.random() < 0.5] or where[:1]
      seen_clauses = set()
      same_order = [None]
      for p, _ in where:
        ctx.label = 'navigate'
        n, t = navigate(live, p), navigate(twin, p)
        ctx.label = None
        for clause, detail in twin_laws(n, t, c, full=not p):
          if clause in seen_clauses:
            continue
          seen_clauses.add(clause)
          m = mech
          if clause == 'eq-hash-differ':
            fl = set()
            flags(n, t, fl)
            # (a clone of a value of a user subclass of pg.List / pg.Dict / tuple is
            # a pg.List / pg.Dict / tuple: the live value may be one)
            if 'container-subclass' in fl:
              m = 'container-subclass'
            elif 'tuple-subclass' in fl:
              m = 'tuple-subclass'
          if m is mech:
            ctx.label = 'build-twin'
            m = value_class_mech(desc, p, clause) or mech
            ctx.label = None
          if permuted and m is mech:
            # Does the same law fail against a twin that stores its keys in the
            # order of the live value? If not, the stored order decides.
            if same_order[0] is None:
              ctx.label = 'build-twin'
              same_order[0] = build(desc)
              ctx.label = None
            t2 = navigate(same_order[0], p)
            if clause not in [cl for cl, _ in twin_laws(n, t2, c, full=not p)]:
              fl = set()
              flags(n, t, fl)
              m = 'history/' + ('+'.join(x for x in LAW_PREF if x in fl) or 'key-order')
          ctx.violation(clause, m, f'{detail}; node at {list(p)} of the value now '
                        f'described by {show(desc)[:300]}',
                        {'initial': P.shown[idx], 'history': trace[-8:],
                         'content': show(desc), 'node': list(p)})
      if seen_clauses and permuted:
        # the value to continue from stores its keys in the order of the description
        ctx.label = 'build-twin'
        twin = same_order[0] if same_order[0] is not None else build(desc)
        ctx.label = None
      return twin, bool(seen_clauses)

    check('history/initial', False)
    n_steps = rng.randint(max(1, ctx.params.get('hist_steps', 6) // 2),
                          ctx.params.get('hist_steps', 6))
    mech = 'history/initial'
    pending = []        # writes since the last round in which every node was compared
    for s_i in range(n_steps):
      step = gen_hist_step(rng, pal, desc)
      if step is None:
        break
      step['model']()
      trace.append(step['shown'])
      # A round that compares a subset of the nodes can leave the effect of a write
      # unobserved: a later finding is attributed to the first write without
      # notification among the writes not yet fully checked, else to the last write.
      pending.append(f'history/{step["family"]}@{step["mode"]}')
      mech = ([m for m in pending if not m.endswith('@notify')] or pending[-1:])[0]
      ctx.label = f'history/{step["name"]}'
      run_hist_step(step, live)
      ctx.label = None
      c['history_steps'] += 1
      c['history_mode:' + step['mode']] += 1
      c['history_op:' + step['name']] += 1
      if step['mode'] != 'notify':
        c['history_silent_steps'] += 1
      ctx.seen('history_ops', (step['name'], step['mode']))
      subset = s_i < n_steps - 1 and rng.random() < 0.4
      twin, violated = check(mech, subset)
      if violated:
        live = twin                       # heal: continue from a fresh value
      if violated or not subset:
        pending = []
    # the row of the mutated value against the rest of the pool
    ctx.label = 'build-twin'
    row_permuted = rng.random() < 0.5
    twin = build(desc, rng if row_permuted else None)
    same_order = build(desc) if row_permuted else twin
    ctx.label = None
    done = set()
    others = [o for o in range(P.n) if o != idx]
    rng.shuffle(others)
    for o in others[:ctx.params.get('hist_row', 10)]:
      other = P.vals[o]
      for name, fn, x, y, clause in (
          ('eq', pg.eq, live, other, 'eq-intransitive'),
          ('eq', pg.eq, other, live, 'eq-intransitive'),
          ('lt', pg.lt, live, other, 'lt-eq-incongruent'),
          ('lt', pg.lt, other, live, 'lt-eq-incongruent')):
        r1 = call(fn, x, y)
        r2 = call(fn, twin if x is live else x, twin if y is live else y)
        c[name + '_calls'] += 2
        if isinstance(r1, bool) and isinstance(r2, bool):
          c['history_row_checks'] += 1
          if r1 != r2 and clause not in done:
            done.add(clause)
            m = mech
            if row_permuted and call(fn, same_order if x is live else x,
                                     same_order if y is live else y) == r1:
              fl = set()
              flags(live, twin, fl)
              m = 'history/' + ('+'.join(z for z in LAW_PREF if z in fl) or 'key-order')
            ctx.violation(clause, m, f'live and fresh are pg.eq but pg.{name} against '
                          f'{P.shown[o][:200]} gives {r1} for the live value and {r2} for the '
                          f'fresh one (live first: {x is live})',
                          {'initial': P.shown[idx], 'history': trace[-8:],
                           'content': show(desc), 'other': P.shown[o]})
    P.vals[idx] = twin
    if i_sample(ctx):
      ctx.notes.setdefault('history_sample', trace[:6])


def i_sample(ctx):
  return ctx.index < 2


# ---------------------------------------------------------------------------

def cases(ctx):
  return ctx.params['cases']


def run_case(ctx, i):
  rng = ctx.rng
  c = ctx.counters
  reset_leaves()
  pal, descs = make_pool(rng, ctx.params)
  ctx.label = 'build-pool'
  P = Pool(descs, rng)
  ctx.label = None
  n, V, K = P.n, P.vals, P.kinds
  c['pools'] += 1
  c['values'] += n
  c['values_reached_by_clone'] += P.cloned
  c['pools_with_nan_or_unequal_leaf'] += bool(pal.hostile)
  strict_hash = bool(ctx.params.get('strict_hash'))
  c['hash_equal_across_classes'] += 0

  SH = P.shown

  def report(clause, idx, detail, raising=False, mech=None):
    ctx.violation(clause, mech or P.mech(idx, raising, clause), detail, P.witness(idx))

  bad = set()         # unordered pairs that already violate a pair law
  # Pairs on which the order sentences are silent (a NaN / Unequal leaf has to be
  # compared with another object): ne/eq consistency, symmetry, gt and eq => equal
  # hash are still judged; they take no part in triples and in the sorted order.
  silent = set()
  for a in range(n):
    for b in range(a + 1, n):
      if pal.hostile and undetermined(V[a], V[b]):
        silent.add((a, b))
  c['pairs_order_silent'] += len(silent)

  def bad_pair(a, b):
    bad.add((min(a, b), max(a, b)))

  # -- all ordered pairs: eq / ne / lt / gt ---------------------------------
  EQ = [[None] * n for _ in range(n)]
  LT = [[None] * n for _ in range(n)]
  for a in range(n):
    for b in range(n):
      e = call(pg.eq, V[a], V[b])
      ne = call(pg.ne, V[a], V[b])
      l = call(pg.lt, V[a], V[b])
      c['eq_calls'] += 1
      c['ne_calls'] += 1
      c['lt_calls'] += 1
      for name, r in (('eq', e), ('ne', ne), ('lt', l)):
        if isinstance(r, Raised):
          if name == 'ne' and isinstance(e, Raised):
            continue             # same call path as eq: one report
          bad_pair(a, b)
          report(f'{name}-raises', (a, b),
                 f'pg.{name}({SH[a]}, {SH[b]}) raised {r.text}', True)
        elif not isinstance(r, bool):
          bad_pair(a, b)
          report(f'{name}-not-bool', (a, b), f'pg.{name} returned {r!r:.100}')
      EQ[a][b] = e if isinstance(e, bool) else None
      LT[a][b] = l if isinstance(l, bool) else None
      if isinstance(e, bool) and isinstance(ne, bool):
        c['ne_negation_checks'] += 1
        if ne != (not e):
          report('ne-not-negation-of-eq', (a, b),
                 f'pg.eq={e} pg.ne={ne} for ({SH[a]}, {SH[b]})', mech='pg.ne')
  for a in range(n):
    for b in range(n):
      g = call(pg.gt, V[a], V[b])
      c['gt_calls'] += 1
      if isinstance(g, Raised):
        if LT[b][a] is not None:
          report('gt-raises', (a, b), f'pg.gt({SH[a]}, {SH[b]}) raised '
                 f'{g.text} while pg.lt with swapped arguments returned', mech='pg.gt')
      elif LT[b][a] is not None:
        c['gt_swap_checks'] += 1
        if g != LT[b][a]:
          report('gt-not-swapped-lt', (a, b),
                 f'pg.gt(a,b)={g} pg.lt(b,a)={LT[b][a]} a={SH[a]} b={SH[b]}',
                 mech='pg.gt')

  # -- hashes ------------------------------------------------------------------
  HS = []
  for a in range(n):
    ctx.label = 'as-symbolic'
    sv = as_symbolic(V[a])
    ctx.label = None
    h = call(pg.hash, sv)
    c['hash_calls'] += 1
    if isinstance(h, Raised):
      report('hash-raises', (a,), f'pg.hash({SH[a]}) raised {h.text}', True)
      h = None
    HS.append(h)

  # -- pair laws ---------------------------------------------------------------
  collide = False
  for a in range(n):
    c['reflexivity_checks'] += 1
    if EQ[a][a] is False:
      bad_pair(a, a)
      report('eq-not-reflexive', (a, a), f'pg.eq(v, v) is False for v={SH[a]}')
    for b in range(a, n):
      ea, eb = EQ[a][b], EQ[b][a]
      if ea is not None and eb is not None:
        c['symmetry_checks'] += 1
        if ea != eb:
          bad_pair(a, b)
          report('eq-asymmetric', (a, b), f'pg.eq(a,b)={ea} pg.eq(b,a)={eb} '
                 f'a={SH[a]} b={SH[b]}')
          continue
      if (a, b) in silent:
        if ea and HS[a] is not None and HS[b] is not None:
          c['hash_agreement_checks'] += 1
          if HS[a] != HS[b]:
            report('eq-hash-differ', (a, b), f'pg.eq is True but pg.hash differs: '
                   f'a={SH[a]} b={SH[b]}')
        continue
      if a != b and descs[a] == descs[b] and ea is not None:
        c['twin_checks'] += 1
        if not ea:
          bad_pair(a, b)
          report('eq-twin-unequal', (a, b), 'two values built from the same description '
                 f'are not pg.eq: {SH[a]}')
      if ea and V[a] is not V[b]:
        c['pairs_eq_true_nonidentical'] += 1
        fl = P.flags(a, b)
        if 'object-key-order' in fl:
          c['pairs_eq_object_key_order'] += 1
          if K[a] != 'object':
            c['pairs_eq_object_key_order_nested'] += 1
        for x in SPECIAL:
          if x in fl:
            c['pairs_eq_' + x] += 1
        if K[a] != K[b]:
          collide = True
      if ea and HS[a] is not None and HS[b] is not None:
        c['hash_agreement_checks'] += 1
        if HS[a] != HS[b]:
          bad_pair(a, b)
          report('eq-hash-differ', (a, b), f'pg.eq is True but pg.hash differs: '
                 f'a={SH[a]} b={SH[b]}')
      if (ea is False and HS[a] is not None and HS[a] == HS[b] and K[a] == K[b] == 'object'
          and type(V[a]) is not type(V[b])):
        c['hash_equal_across_classes'] += 1        # allowed by the property; counted only
        if strict_hash:
          report('hash-conflates-classes', (a, b), f'a={SH[a]} b={SH[b]}')
      # trichotomy
      la, lb = LT[a][b], LT[b][a]
      if ea is not None and la is not None and lb is not None:
        c['trichotomy_checks'] += 1
        if la:
          c['pairs_lt_true'] += 1
        holds = int(la) + int(ea) + int(lb)
        if holds != 1:
          bad_pair(a, b)
          if ea and (la or lb):
            clause = 'lt-and-eq-both-true'
          elif la and lb:
            clause = 'lt-both-directions'
          else:
            clause = 'lt-eq-gt-none-holds'
          report(clause, (a, b), f'lt(a,b)={la} eq(a,b)={ea} lt(b,a)={lb} '
                 f'a={SH[a]} b={SH[b]}')
        # documented order of types
        ra, rb = RANK[K[a]], RANK[K[b]]
        if ra != rb:
          c['type_rank_checks'] += 1
          if la != (ra < rb) or lb != (rb < ra):
            bad_pair(a, b)
            report('lt-type-rank', (a, b), f'documented type order gives lt(a,b)={ra < rb}, '
                   f'observed lt(a,b)={la} lt(b,a)={lb} a={SH[a]} b={SH[b]}')
        elif (min(a, b), max(a, b)) not in bad and a != b:
          exp = first_difference(V[a], V[b])
          if exp is not None:
            c['first_difference_checks'] += 1
            if exp[0] != la:
              bad_pair(a, b)
              report('lt-first-difference', (a, b),
                     f'{exp[1]}; first-difference rule gives lt(a,b)={exp[0]}, observed {la} '
                     f'a={SH[a]} b={SH[b]}', mech=MECH_KIND[K[a]])

  # -- operators of classes with symbolic comparison -------------------------
  for a in range(n):
    va = V[a]
    if not (isinstance(va, pg.Object) and type(va).use_symbolic_comparison):
      continue
    h = call(hash, va)
    c['operator_checks'] += 1
    if isinstance(h, Raised) or (HS[a] is not None and h != HS[a]):
      report('op-hash-disagrees', (a,), f'hash(v)={h!r} pg.hash(v)={HS[a]!r} v={SH[a]}',
             mech='object')
    for b in range(n):
      if EQ[a][b] is None:
        continue
      oe = call(lambda x, y: x == y, va, V[b])
      on = call(lambda x, y: x != y, va, V[b])
      c['operator_checks'] += 2
      if isinstance(oe, Raised) or bool(oe) != EQ[a][b]:
        report('op-eq-disagrees', (a, b), f'(a == b) gave {oe!r}, pg.eq(a,b)={EQ[a][b]} '
               f'a={SH[a]} b={SH[b]}', mech='object')
      if isinstance(on, Raised) or bool(on) != (not EQ[a][b]):
        report('op-ne-disagrees', (a, b), f'(a != b) gave {on!r}, pg.ne(a,b)={not EQ[a][b]} '
               f'a={SH[a]} b={SH[b]}', mech='object')

  # -- triples on the recorded results -------------------------------------------
  excluded = bad | silent

  def clean(a, b, k):
    return not ({(min(a, b), max(a, b)), (min(b, k), max(b, k)), (min(a, k), max(a, k))}
                & excluded)

  reported = set()
  for a in range(n):
    for b in range(n):
      if a == b:
        continue
      eab, lab = EQ[a][b], LT[a][b]
      if not (eab or lab):
        continue
      for k in range(n):
        if k == a or k == b:
          continue
        if eab:
          if EQ[b][k]:
            c['triples_eq_premise'] += 1
            if EQ[a][k] is False and 'eq' not in reported and clean(a, b, k):
              reported.add('eq')
              report('eq-intransitive', (a, b, k), 'eq(a,b) and eq(b,c) but not eq(a,c): '
                     + ' | '.join(SH[x] for x in (a, b, k)))
          if LT[b][k]:
            c['triples_congruence_premise'] += 1
            if LT[a][k] is False and 'cg' not in reported and clean(a, b, k):
              reported.add('cg')
              report('lt-eq-incongruent', (a, b, k), 'eq(a,b) and lt(b,c) but not lt(a,c): '
                     + ' | '.join(SH[x] for x in (a, b, k)))
          if LT[k][b]:
            c['triples_congruence_premise'] += 1
            if LT[k][a] is False and 'cg' not in reported and clean(a, b, k):
              reported.add('cg')
              report('lt-eq-incongruent', (a, b, k), 'eq(a,b) and lt(c,b) but not lt(c,a): '
                     + ' | '.join(SH[x] for x in (a, b, k)))
        if lab and LT[b][k]:
          c['triples_lt_premise'] += 1
          if LT[a][k] is False and 'lt' not in reported and clean(a, b, k):
            reported.add('lt')
            report('lt-intransitive', (a, b, k), 'lt(a,b) and lt(b,c) but not lt(a,c): '
                   + ' | '.join(SH[x] for x in (a, b, k)))
  c['triples_total'] += n * (n - 1) * (n - 2)

  # -- sorting ---------------------------------------------------------------------
  order = list(range(n))
  rng.shuffle(order)
  explained = [0]

  def cmp(a, b):
    c['sort_comparisons'] += 1
    r1 = call(pg.lt, V[a], V[b])
    r2 = call(pg.lt, V[b], V[a]) if r1 is not True else False
    for (x, y), r in (((a, b), r1), ((b, a), r2)):
      if isinstance(r, Raised):
        if LT[x][y] is None:
          explained[0] += 1        # the same call already reported as lt-raises
        else:
          report('sort-raises', (x, y), f'pg.lt raised {r.text} inside sorted() although '
                 f'it returned before: {SH[x]}, {SH[y]}', True)
    if r1 is True:
      return -1
    return 1 if r2 is True else 0

  res = call(lambda: sorted(order, key=functools.cmp_to_key(cmp)))
  c['sort_runs'] += 1
  c['sort_raises_explained_by_lt_raises'] += explained[0]
  if isinstance(res, Raised):
    report('sort-raises', (), f'sorted() raised {res.text}', mech='sorted')

  # The sub-pool whose pairs all satisfy the pair laws must come out ordered.
  # (a NaN / Unequal that is itself a pool member is silent against every other
  # member: it leaves the sub-pool alone)
  dirty = {a for a in range(n) if is_hostile(V[a])}
  dirty |= {x for pr in excluded if not set(pr) & dirty for x in pr}
  cleanidx = [x for x in order if x not in dirty]
  res2 = call(lambda: sorted(cleanidx, key=functools.cmp_to_key(cmp)))
  if isinstance(res2, Raised):
    report('sort-raises', (), f'sorted() raised {res2.text}', mech='sorted')
  elif len(res2) >= 2:
    c['sorted_order_checks'] += 1
    c['sorted_order_values'] += len(res2)
    done = False
    for x in range(len(res2)):
      for y in range(x + 1, len(res2)):
        if LT[res2[y]][res2[x]] and not done:
          done = True
          if reported:
            # implied by the law violation of a triple already reported for this pool
            c['sort_misorder_explained_by_triple'] += 1
            continue
          report('sort-misordered', (res2[x], res2[y]), 'later element is pg.lt an earlier '
                 f'one after sorting: {SH[res2[x]]} ... {SH[res2[y]]}')

  # -- evidence -----------------------------------------------------------------------
  for kk in set(K):
    c['kind:' + kk] += K.count(kk)
  for a in range(n):
    for b in range(a + 1, n):
      ctx.seen('kind_pairs', (K[a], K[b]) if KINDS.index(K[a]) <= KINDS.index(K[b])
               else (K[b], K[a]))
  if bad:
    c['pools_with_pair_violation'] += 1
  if (n >= 20 and len(set(K)) >= 5 and collide and max(depth_of(d) for d in descs) >= 2):
    ctx.mark_nontrivial(SH)
  # -- histories -------------------------------------------------------------------------
  run_histories(ctx, P, pal)

  if i < 2:
    ctx.sample({'pool': SH,
                'eq_pairs': sum(1 for a in range(n) for b in range(a + 1, n) if EQ[a][b]),
                'sorted': None if isinstance(res, Raised) else
                          [SH[x][:60] for x in res][:12]})


def first_difference(a, b):
  """(expected lt(a,b), reason) by the documented first-different-sub-node rule,
  or None when the rule does not determine the pair."""
  if isinstance(a, list) and isinstance(b, list):
    xs, ys = list(a), list(b)
    what = 'lists'
  elif isinstance(a, dict) and isinstance(b, dict):
    ka, kb = list(a.keys()), list(b.keys())
    m = min(len(ka), len(kb))
    if ka[:m] != kb[:m]:
      return None
    # The documentation does not say in which order the keys of a dict are
    # walked (insertion order or a canonical order): the rule is applied only
    # where both readings coincide, i.e. both key sequences are already sorted
    # (ints before strs).
    canon = lambda ks: sorted(ks, key=lambda k: (isinstance(k, str), k))
    if ka != canon(ka) or kb != canon(kb):
      return None
    xs, ys = [a[k] for k in ka], [b[k] for k in kb]
    what = 'dicts with the same key sequence'
  elif isinstance(a, pg.Object) and type(a) is type(b):
    ka, kb = list(a.sym_keys()), list(b.sym_keys())
    # Fixed fields come in field order; for variable keys the documentation does
    # not say whether they are walked in stored or in a canonical order: as for
    # dicts the rule is applied only where both readings coincide.
    if ka != kb or ka != sorted(ka):
      return None
    xs, ys = [v for _, v in a.sym_items()], [v for _, v in b.sym_items()]
    what = 'objects of one class'
  else:
    return None
  for i, (x, y) in enumerate(zip(xs, ys)):
    e = call(pg.eq, x, y)
    if e is True:
      continue
    if e is not False:
      return None
    l = call(pg.lt, x, y)
    if not isinstance(l, bool):
      return None
    return l, f'{what}: first different sub-node at position {i}'
  return len(xs) < len(ys), f'{what}: common prefix is equal'
