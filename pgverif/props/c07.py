"""C07 — clone fidelity and independence."""
import copy

import pyglove as pg
from pgverif import models as M
from pgverif.gen import desc as D
from pgverif.gen import history as H
from pgverif.gen import ops as O
from pgverif.gen import values as V
from pgverif.monitors import derived as DV
from pgverif.monitors import schema as SM
from pgverif.monitors import tree as TM

TIERS = {
    'quick': dict(shards=8, cases=125, steps=15),
    'thorough': dict(shards=16, cases=1500, steps=30),
}
RULE = ('case = one symbolic value (typed/untyped x sealed x partial x accessor flag x '
        'with pg.Ref x with non-symbolic leaves; sometimes a DNA, DNASpec or hyper '
        'value), cloned deep and shallow through clone / sym_clone / pg.clone / '
        'copy.copy / copy.deepcopy; laws checked at clone time (equality, class, '
        'per-node flags and value specs, tree_ok, schema_ok, node-identity '
        'disjointness, original unchanged), then a mutation history on one side with '
        'the JSON of the other side compared after every step. Non-trivial = the value '
        'has at least 3 symbolic nodes and at least 3 post-clone steps changed the '
        'mutated side; distinct by (shape, flags, clone kind, operation sequence). '
        'In most cases the derived-state getters (is_partial, sym_missing, sym_nondefault, '
        'non_default_values, sym_puresymbolic, ...) are called on the source BEFORE it is '
        'cloned (all nodes or a random subset), so that whatever the source memoises '
        'exists at clone time; the objects the clone\'s getters hand out must not be nodes '
        '(deep: nor leaves) of the original; the observation of the untouched side is its '
        'JSON, its format() and the getters of every node (compared with the snapshot after '
        'every step and with a fresh computation at the end); deep and shallow clones both '
        'get a history. Values with public state outside the symbolic fields: a DNA gets '
        'metadata/userdata (cloneable or not) before cloning and a history of '
        'set_metadata/set_userdata on one copy, a functor a history of rebind/setattr/del '
        'of its arguments; observed on the other copy: JSON, metadata, userdata, what ITS '
        'next clone carries; argument sets, is_fully_bound and the call result; a DNASpec a '
        'history of set_userdata on its decision points (observed: JSON, userdata). Such a '
        'case is non-trivial when at least 3 state operations were applied. '
        'Values also comprise pg.List / pg.Dict bound to a value spec of their OWN '
        '(allow_partial either way, content partial or not) as the root of the clone, '
        'inside an untyped container or an untyped object field; clones are taken inside '
        '0-2 scoped overrides (as_sealed / allow_partial / allow_writable_accessors / '
        'notify_on_change) and the per-node flags are read after leaving them (key of a '
        'difference: which scope overrides that flag with another value, and below what '
        'kind of node the container gets its schema binding). Tuple-valued members '
        '(in untyped dicts / lists / object fields and in T.Tuple fields) hold symbolic '
        'values, plain lists / dicts (holding symbolic values again), leaf objects, '
        'frozensets of leaf objects and nested tuples: for a deep clone every mutable object '
        'reachable through them must be a copy, the symbolic values in there are compared '
        'node by node like the tree itself (class, flags, spec, tree_ok) and take part in '
        'the post-clone history (pg operations on them, append / item assignment on the '
        'plain containers, attribute writes on leaf objects, also on leaf objects stored '
        'directly in the tree). A shallow clone shares leaf values, so nothing inside a '
        'tuple is mutated after a shallow clone. '
        'Behavioural flags are set through a short flag history before cloning (one node '
        'gets the accessor flag, one is sealed, then sometimes 1-3 further seal(True) / '
        'seal(False) / set_accessor_writable calls on any nodes, so that a node may differ '
        'from its parent: a part re-opened inside a sealed value); DNA / DNASpec / hyper '
        'values / functors get such flags as well (on the value and on the nodes of those '
        'classes below it). 8% of the values are put below / beside instances of user '
        'subclasses of pg.Dict and pg.List (root, nested, in an object field). 6% are values '
        'whose value specs carry user transforms (an object class with transform fields, a '
        'typed list with an element / own transform, a typed dict with transform fields; '
        'normalisers with a fixed point and converters without; root, inside an untyped '
        'container or an Any field): the clone must be equal to the original (the fresh-copy '
        'and fixed-point monitors are off for them, since constructors run the transforms). '
        '10% of the values get members under legal but unusual keys of their untyped dicts '
        '(empty string, blanks, dots, brackets, digits, quotes, non-ASCII; the root first of '
        'all) or are put under such a key of a new root dict. '
        '30% of the functor clones are taken inside pg.auto_call_functors(True) (the result '
        'must be a functor like the source).')
REQUIRED_COUNTERS = ['clones_checked', 'flag_nodes_compared', 'interference_checks',
                     'identity_nodes_compared', 'primed_clones', 'getter_identity_checks',
                     'derived_interference_checks', 'state_interference_checks',
                     'scope_flag_nodes_compared', 'clones_of_own_spec_containers',
                     'in_tuple_identity_checks', 'in_tuple_trees_compared',
                     'in_tuple_node_mutations', 'plain_member_mutations',
                     'subclass_nodes_compared', 'clones_of_special_values_with_flag_history',
                     'unsealed_below_sealed_nodes_compared',
                     'clones_of_values_with_user_transforms', 'clones_inside_auto_call_scope',
                     'clones_of_values_with_unusual_dict_keys']
ASSUMPTIONS = [
    'values held through pg.Ref are deliberately shared and excluded from the disjointness rule',
    'the observation of the untouched side for non-interference: to_json_str, format(), the '
    'derived-state getters of every node and, for DNA / functors, the public state outside '
    'the symbolic fields (metadata, userdata, what the next clone carries; argument sets, '
    'call result)',
    'documented DNA behaviour: only metadata / userdata set with cloneable=True is carried '
    'by a clone; equality of a DNA clone is therefore judged on value and children when the '
    'source holds non-cloneable metadata. A key is never set with cloneable=False on a copy '
    'on which it is cloneable (left open by the documentation)',
    'a tuple (frozenset) stored in a symbolic value is one non-symbolic leaf value: a deep '
    'clone copies it with everything mutable it holds (as it copies any leaf object), a '
    'shallow clone may share it; the symbolic values inside are roots of trees of their own',
    'pg.auto_call_functors says what a call of the functor class written by the user means; '
    'a clone of an existing functor is a functor whatever scope is active',
    'a user transform is a function of the input of apply (documented); nothing says it has '
    'to be idempotent: a clone has the values of the original, not transformed ones',
    'a typed container is stored in an object field under the partial policy of the object '
    '(Any2.partial(x=<allow_partial=True list>)): storing it under another policy re-applies '
    'the container, which is C03 matter',
]

DEEP_VIAS = [('clone', lambda v: v.clone(deep=True)),
             ('sym_clone', lambda v: v.sym_clone(deep=True)),
             ('pg.clone', lambda v: pg.clone(v, deep=True)),
             ('copy.deepcopy', copy.deepcopy)]
SHALLOW_VIAS = [('clone', lambda v: v.clone()),
                ('sym_clone', lambda v: v.sym_clone(deep=False)),
                ('pg.clone', lambda v: pg.clone(v, deep=False)),
                ('copy.copy', copy.copy)]


def js(v):
  try:
    return pg.to_json_str(v)
  except Exception as e:  # pylint: disable=broad-except
    return f'<unserializable {type(e).__name__}: {e!s:.80}>'


def kind(v):
  for cls in (pg.List, pg.Dict, pg.DNA, pg.DNASpec, pg.hyper.HyperValue, pg.Functor,
              pg.Object):
    if isinstance(v, cls):
      return cls.__name__
  return type(v).__name__


def special_value(rng):
  """DNA / DNASpec / hyper values (classes with their own _sym_clone)."""
  r = rng.random()
  space = pg.Dict(a=pg.oneof([1, 2, pg.Dict(z=pg.oneof(['x', 'y']))]),
                  b=pg.manyof(2, [1, 2, 3]), c=pg.floatv(0.0, 1.0))
  spec = pg.dna_spec(space)
  if r < 0.3:
    return 'DNASpec', spec
  if r < 0.6:
    dna = spec.first_dna() if rng.random() < 0.5 else pg.random_dna(spec, rng)
    return 'DNA', dna
  if r < 0.8:
    return 'hyper', space
  q = rng.random()
  if q < 0.4:
    return 'functor', M.add_fn(rng.randint(0, 5))
  if q < 0.6:
    return 'functor[a,b]', M.add_fn(rng.randint(0, 5), rng.randint(0, 5))
  if q < 0.8:
    return 'functor[b]', M.add_fn(b=rng.randint(0, 5))
  return 'functor[]', M.add_fn()


T = pg.typing


class TupleHolder(pg.Object):
  """Object with tuple-typed fields (pyglove keeps a tuple as one leaf value:
  what is inside it is not converted and gets no parent)."""
  t: T.Tuple(T.Any()).noneable() = None
  ft: T.Tuple([T.Any(), T.Object(M.Inner)]).noneable() = None
  a: T.Any() = None


TUPLE_ITEM_CLASSES = ('Any2', 'Writable', 'Notifier')


class SubDict(pg.Dict):
  """A user subclass of pg.Dict without behaviour of its own."""


class SubList(pg.List):
  """A user subclass of pg.List without behaviour of its own."""


def wrap_subclass(rng, label, v):
  """Puts v below / beside user subclasses of pg.Dict / pg.List (as the root of
  the clone, inside an untyped container, in an object field)."""
  w = rng.random()
  if w < 0.3:
    return f'SubDict(n={label}, k=1)', SubDict(n=v, k=1)
  if w < 0.5:
    return f'SubList([{label}, 2])', SubList([v, 2])
  if w < 0.65:
    return f'pg.Dict(s=SubDict(a={label}), k=1)', pg.Dict(s=SubDict(a=v), k=1)
  if w < 0.8:
    return f'pg.List([SubList([{label}]), SubDict(b=1)])', pg.List([SubList([v]), SubDict(b=1)])
  if w < 0.9:
    return f'Any2(x=SubDict(a={label}))', M.Any2(x=SubDict(a=v))
  return f'SubDict(l=SubList([{label}]))', SubDict(l=SubList([v]))


# User transforms of value specs (documented: "user-defined function to be
# called on the input of `apply`; could be used as a type converter or a custom
# validator"): normalisers whose output is a fixed point and converters whose
# output is not.  Guarded by type: other values pass unchanged.

def _is_int(v):
  return isinstance(v, int) and not isinstance(v, bool)


def tr_inc(v):
  return v + 1 if _is_int(v) else v


def tr_double(v):
  return v * 2 if _is_int(v) else v


def tr_bang(v):
  return v + '!' if isinstance(v, str) else v


def tr_abs(v):
  return abs(v) if _is_int(v) else v


def tr_strip(v):
  return v.strip() if isinstance(v, str) else v


def tr_append0(v):
  return list(v) + [0] if isinstance(v, list) else v


def tr_count(v):
  return dict(v, n=v.get('n', 0) + 1) if isinstance(v, dict) else v


def tr_same(v):
  return v


ELEMENT_TRANSFORMS = [('inc', tr_inc), ('double', tr_double), ('bang', tr_bang),
                      ('abs', tr_abs), ('strip', tr_strip)]


class Transformed(pg.Object):
  """Object whose fields carry user transforms."""
  inc: T.Any(transform=tr_inc) = 0
  dbl: T.Any(transform=tr_double) = 1
  bang: T.Any(transform=tr_bang) = ''
  absv: T.Any(transform=tr_abs) = 0
  strip: T.Any(transform=tr_strip) = ''
  lst: T.List(T.Int(), transform=tr_append0, max_size=40) = []
  dct: T.Dict([('n', T.Int(default=0))], transform=tr_count) = {}
  sub: T.Object(M.Inner, transform=tr_same).noneable() = None
  x: T.Any() = None


def transformed_kwargs(rng):
  kw = {}
  pool = {'inc': lambda: rng.randint(-3, 9), 'dbl': lambda: rng.randint(-3, 9),
          'bang': lambda: rng.choice(['a', 'b!', '']), 'absv': lambda: rng.randint(-9, 9),
          'strip': lambda: rng.choice([' a ', 'b', '  ']),
          'lst': lambda: [rng.randint(0, 5) for _ in range(rng.randint(0, 2))],
          'dct': lambda: rng.choice([{}, {'n': 2}]),
          'sub': lambda: V.object_of(M.Inner, rng),
          'x': lambda: D.build(D.gen(rng, 1, classes=TUPLE_ITEM_CLASSES))}
  for k in rng.sample(sorted(pool), rng.randint(1, 5)):
    kw[k] = pool[k]()
  return kw


def transform_value(rng):
  """(label, value, kind of the node whose value spec carries the transforms):
  an object with transform fields, a typed list whose element spec (or own
  spec) has a transform, a typed dict with transform fields; as the root of the
  clone or inside an untyped container / an Any field."""
  w = rng.random()
  if w < 0.5:
    holder = 'Object'
    kw = transformed_kwargs(rng)
    v = Transformed(**kw)
    label = 'Transformed(%s)' % ', '.join(f'{k}={x!r:.60}' for k, x in kw.items())
    if rng.random() < 0.25:
      label, v = f'Transformed(x={label})', Transformed(x=v)
  elif w < 0.8:
    holder = 'List'
    if rng.random() < 0.75:
      name, fn = rng.choice(ELEMENT_TRANSFORMS)
      spec, sname = T.List(T.Any(transform=fn), max_size=12), f'List(Any(transform={name}))'
      items = [rng.choice([rng.randint(-3, 9), rng.choice(['a', ' b', 'c!'])])
               for _ in range(rng.randint(1, 4))]
    else:
      spec, sname = T.List(T.Int(), transform=tr_append0, max_size=40), 'List(Int, transform=append0)'
      items = [rng.randint(0, 5) for _ in range(rng.randint(0, 3))]
    v = pg.List(items, value_spec=spec)
    label = f'pg.List({items!r}, value_spec={sname})'
  else:
    holder = 'Dict'
    spec = T.Dict([('a', T.Any(transform=tr_inc)), ('s', T.Any(transform=tr_bang, default='')),
                   ('m', T.Any(transform=tr_abs, default=0)),
                   ('l', T.List(T.Int(), transform=tr_append0, max_size=40, default=[]))])
    content = {'a': rng.randint(0, 9)}
    if rng.random() < 0.5:
      content['s'] = rng.choice(['a', 'b!'])
    if rng.random() < 0.5:
      content['l'] = [rng.randint(0, 3)]
    v = pg.Dict(content, value_spec=spec)
    label = f'pg.Dict({content!r}, value_spec=Dict(a=Any(transform=inc), s=Any(transform=bang), ...))'
  w = rng.random()
  if w < 0.45:
    return label, v, holder
  if w < 0.65:
    return f'pg.Dict(n={label}, k=1)', pg.Dict(n=v, k=1), holder
  if w < 0.8:
    return f'pg.List([{label}, 2])', pg.List([v, 2]), holder
  return f'Any2(x={label})', M.Any2(x=v), holder


def flag_history(rng, nodes, p_acc=0.3, p_seal=0.3, p_more=0.3):
  """Flags set through the public API before cloning: one node gets the
  accessor flag, one is sealed (seal is recursive), and sometimes 1-3 further
  calls of seal(True) / seal(False) / set_accessor_writable on nodes of the
  value in any order - so that a node's own flags may differ from those of its
  parent (a sealed value with one part re-opened, ...).  Returns a label."""
  out = ''
  where = lambda n: str(n.sym_path) or '<root>'
  if rng.random() < p_acc:
    n = rng.choice(nodes)
    n.set_accessor_writable(rng.random() < 0.5)
    out += '+accflag'
  if rng.random() < p_seal:
    rng.choice(nodes).seal()
    out += '+sealed'
  if rng.random() < p_more:
    for _ in range(rng.randint(1, 3)):
      n = rng.choice(nodes)
      q = rng.random()
      if q < 0.45:
        below = [m for m in nodes if below_sealed(m)]
        if below and rng.random() < 0.7:
          n = rng.choice(below)
        n.seal(False)
        out += f'+seal(False)@{where(n)}'
      elif q < 0.7:
        n.seal()
        out += f'+seal()@{where(n)}'
      else:
        b = rng.random() < 0.5
        n.set_accessor_writable(b)
        out += f'+set_accessor_writable({b})@{where(n)}'
  return out


def tuple_value(rng, depth=2):
  """(printable, tuple) holding symbolic nodes, plain lists / dicts (which may
  hold symbolic nodes again), Leaf objects, frozensets of Leaf objects, nested
  tuples and primitives; at least one member is mutable."""
  shown, items = [], []
  for _ in range(rng.randint(1, 4)):
    q = rng.random()
    if q < 0.3:
      d = D.gen(rng, 2, classes=TUPLE_ITEM_CLASSES, symbolic=True)
    elif q < 0.5:
      d = D.gen(rng, 2, classes=TUPLE_ITEM_CLASSES, symbolic=None)
      if d[0] not in ('d', 'l'):
        d = ['l', [d]]
    elif q < 0.62:
      d = ['leaf', rng.randint(0, 3)]
    elif q < 0.68:
      items.append(frozenset(M.Leaf(n) for n in rng.sample(range(4), rng.randint(1, 2))))
      shown.append(repr(items[-1]))
      continue
    elif q < 0.85 and depth > 0:
      sh, v = tuple_value(rng, depth - 1)
      shown.append(sh)
      items.append(v)
      continue
    else:
      d = ['v', V.small_prim(rng)]
    shown.append(D.show(d))
    items.append(D.build(d))
  if not any(is_mutable(o) for o, _, _, _, _, _ in walk_all(tuple(items))[1:]):
    d = rng.choice([['D', [['a', ['v', 1]]]], ['L', [['v', 1]]], ['l', [['leaf', 1]]],
                    ['O', 'Any2', [['x', ['L', [['v', 0]]]]]]])
    shown.append(D.show(d))
    items.append(D.build(d))
  return '(%s,)' % ', '.join(shown), tuple(items)


def tuple_holder(rng):
  kw, shown = {}, []
  if rng.random() < 0.7:
    sh, kw['t'] = tuple_value(rng)
    shown.append(f't={sh}')
  if rng.random() < 0.5:
    d = D.gen(rng, 2, classes=TUPLE_ITEM_CLASSES, symbolic=None)
    kw['ft'] = (D.build(d), V.object_of(M.Inner, rng))
    shown.append(f'ft=({D.show(d)}, Inner(...))')
  if rng.random() < 0.4 or not kw:
    sh, kw['a'] = tuple_value(rng, 1)
    shown.append(f'a={sh}')
  return 'TupleHolder(%s)' % ', '.join(shown), TupleHolder(**kw)


def inject_tuples(rng, nodes):
  """Stores tuple-valued members in untyped nodes of the value. Returns a label."""
  targets = [n for n in nodes if (isinstance(n, (pg.Dict, pg.List)) and n.value_spec is None)
             or type(n) in (M.Any2, M.Writable, M.Notifier, M.Bound, M.NoSymCmp)]
  out = []
  for tgt in rng.sample(targets, min(len(targets), rng.randint(1, 3))):
    if rng.random() < 0.2:
      sh, tv = tuple_holder(rng)
    else:
      sh, tv = tuple_value(rng)
    with pg.allow_writable_accessors(True):
      if isinstance(tgt, pg.Dict):
        tgt[rng.choice(['tup', 't2', 'a'])] = tv
      elif isinstance(tgt, pg.List):
        tgt.insert(rng.randint(0, len(tgt)), tv)
      else:
        tgt.rebind({rng.choice(['x', 'y']) if 'y' in tgt.sym_init_args else 'x': tv})
    out.append(f'{kind(tgt)}<-{sh}')
  return '+tuples[' + '; '.join(out)[:400] + ']' if out else ''


# Legal but unusual keys of untyped dicts (what JSON data brings along).
ODD_KEYS = ['', ' ', 'a.b', 'x.', '.', '[0]', '0', '-1', "it's", 'a b', 'a[1]', '*', 'é',
            '__class__', 'x=1']


def inject_odd_keys(rng, v, nodes):
  """Stores symbolic values (and a plain value) under unusual keys of untyped
  dicts of the value - the root first of all - or puts the whole value under
  such a key of a new root dict. Returns (label suffix, value)."""
  out = []
  targets = [n for n in nodes if isinstance(n, pg.Dict) and n.value_spec is None]
  picked = []
  if isinstance(v, pg.Dict) and v.value_spec is None:
    picked.append(v)
  if targets and rng.random() < 0.5:
    picked.append(rng.choice(targets))
  if not picked or rng.random() < 0.25:
    k = rng.choice(ODD_KEYS)
    other = rng.choice(ODD_KEYS)
    v = pg.Dict({k: v, other: D.build(D.gen(rng, 1, classes=TUPLE_ITEM_CLASSES))})
    out.append(f'pg.Dict({{{k!r}: <value>, {other!r}: ...}})')
  for tgt in picked:
    for k in rng.sample(ODD_KEYS, rng.randint(1, 3)):
      d = D.gen(rng, 2, classes=TUPLE_ITEM_CLASSES, symbolic=True if rng.random() < 0.8 else None)
      with pg.allow_writable_accessors(True):
        tgt[k] = D.build(d)
      out.append(f'{str(tgt.sym_path) or "<root>"}[{k!r}]={D.show(d)}')
  return '+oddkeys[' + '; '.join(out)[:400] + ']', v


ROOT_SPECS = [
    ('List(Int)', lambda: T.List(T.Int(min_value=0, max_value=9), max_size=6)),
    ('List(Object(Inner))', lambda: T.List(T.Object(M.Inner), max_size=5)),
    ('List(Object(Required))', lambda: T.List(T.Object(M.Required), max_size=4)),
    ('List(Dict)', lambda: T.List(T.Dict([('a', T.Int()), ('b', T.Int(default=2))]), max_size=4)),
    ('List(List(Int))', lambda: T.List(T.List(T.Int(), max_size=3), max_size=3)),
    ('List(Any)', lambda: T.List(T.Any(), max_size=6)),
    ('Dict(fixed)', lambda: T.Dict([('a', T.Int()), ('b', T.Int(default=2)),
                                    ('c', T.List(T.Int(), max_size=3, default=[0]))])),
    ('Dict(StrKey)', lambda: T.Dict([(T.StrKey(), T.Int(min_value=0))])),
    ('Dict(nested)', lambda: T.Dict([('o', T.Object(M.Required).noneable()),
                                     ('n', T.Dict([('p', T.Int()), ('q', T.Str(default='a'))])),
                                     ('l', T.List(T.Object(M.Inner), max_size=3, default=[]))])),
]


def partialize(v, rng):
  """Removes required parts of a plain value built for one of ROOT_SPECS."""
  if isinstance(v, M.Required):
    return M.Required.partial(**rng.choice([{}, {'r': 1}, {'rs': 'a'}]))
  if isinstance(v, list):
    return [partialize(x, rng) if rng.random() < 0.6 else x for x in v]
  if isinstance(v, dict):
    out = {k: partialize(x, rng) for k, x in v.items()}
    for k in ('a', 'p'):
      if k in out and rng.random() < 0.6:
        del out[k]
    return out
  return v


def typed_container(rng):
  """A pg.List / pg.Dict bound to a value spec of its own (allow_partial either
  way, content partial or not), as the root or inside an untyped container /
  an untyped object field."""
  for _ in range(10):
    name, mk = rng.choice(ROOT_SPECS)
    spec = mk()
    ap = rng.random() < 0.5
    content = V.value_for(spec, rng, valid=True)
    if ap and rng.random() < 0.5:
      content = partialize(content, rng)
    ctor = pg.List if isinstance(spec, T.List) else pg.Dict
    try:
      v = ctor(content, value_spec=spec, allow_partial=ap)
      label = f'pg.{ctor.__name__}({v.format(compact=True)[:200]}, value_spec={name}, allow_partial={ap})'
      w = rng.random()
      if w < 0.5:
        return label, v
      if w < 0.7:
        return f'pg.Dict(n={label}, k=1)', pg.Dict(n=v, k=1)
      if w < 0.85:
        return f'pg.List([{label}, 2])', pg.List([v, 2])
      # (the object gets the partial policy of the container: storing a typed
      # container under a different policy re-applies it, which is C03 matter)
      if ap:
        return f'Any2.partial(x={label})', M.Any2.partial(x=v)
      return f'Any2(x={label})', M.Any2(x=v)
    except (TypeError, ValueError, KeyError):
      continue
  return 'pg.List([1], value_spec=List(Int))', pg.List([1], value_spec=T.List(T.Int()))


def make_value(rng, tags=None):
  """Returns (label, value); tags (a dict) receives harness facts about the
  value that select mechanism keys / monitors."""
  tags = tags if tags is not None else {}
  r = rng.random()
  if r < 0.12:
    label, v = special_value(rng)
    # behavioural flags of DNA / DNASpec / hyper values / functors
    # (set on the value and on the DNA / DNASpec / hyper / functor nodes below
    # it, not on the containers those classes keep their parts in)
    nodes = [n for n, keys in TM.nodes_of(v) if not keys or isinstance(
        n, (pg.DNA, pg.DNASpec, pg.hyper.HyperValue, pg.Functor))]
    fl = flag_history(rng, nodes, p_acc=0.5, p_seal=0.1, p_more=0.1)
    tags['special_flags'] = bool(fl)
    return label + fl, v
  if r < 0.2:
    q = rng.random()
    if q < 0.35:
      # allow_partial=True on a value that happens to be complete: the flag is
      # a property of the object, not of its current content.
      if rng.random() < 0.5:
        return 'Typed.partial()', M.Typed.partial()
      kw = {'r': 1, 'rs': 'a', 'rd': {'a': 1}}
      return f'Required.partial({kw})[complete]', M.Required.partial(**kw)
    kw = {'r': 1} if q < 0.7 else {}
    return f'Required.partial({kw})', M.Required.partial(**kw)
  if r < 0.34:
    label, v = typed_container(rng)
  elif r < 0.39:
    label, v = tuple_holder(rng)
  elif r < 0.45:
    label, v, tags['transform'] = transform_value(rng)
  else:
    descs, forest = H.make_forest(rng, n_roots=1, typed=rng.random() < 0.6, depth=3,
                                  classes=('Any2', 'Writable', 'Notifier', 'Bound', 'NoSymCmp'))
    v = forest[0]
    label = D.show(descs[0])
  if rng.random() < 0.08:
    label, v = wrap_subclass(rng, label, v)
  if rng.random() < 0.1:
    sfx, v = inject_odd_keys(rng, v, [n for n, _ in TM.nodes_of(v) if not isinstance(n, pg.Ref)])
    label += sfx
    tags['odd_keys'] = True
  nodes = [n for n, _ in TM.nodes_of(v) if not isinstance(n, pg.Ref)]
  if rng.random() < 0.3:
    label += inject_tuples(rng, nodes)
  if rng.random() < 0.25:
    # a reference to an external node and to a non-symbolic leaf
    ext = pg.Dict(shared=pg.List([1, 2]))
    tgt = rng.choice([n for n in nodes if isinstance(n, (pg.Dict, pg.List)) and
                      n.value_spec is None] or [None])
    if tgt is not None:
      with pg.allow_writable_accessors(True):
        if isinstance(tgt, pg.Dict):
          tgt['ref'] = pg.Ref(ext.shared)
          tgt['leafobj'] = M.Leaf(7)
        else:
          tgt.append(pg.Ref(ext.shared))
          tgt.append(M.Leaf(7))
      label += '+ref+leaf'
  label += flag_history(rng, nodes)
  return label, v


# ---------------------------------------------------------------------------
# What a value holds beyond its own tree: a tuple (set, frozenset) is one leaf
# value for pyglove; the symbolic values, plain lists / dicts and leaf objects
# inside it are reachable from the value all the same.

PLAIN = (tuple, list, dict, set, frozenset)


def is_mutable(o):
  return isinstance(o, (pg.Symbolic, M.Leaf, list, dict, set))


def plain_items(v):
  if isinstance(v, (tuple, list)):
    return list(enumerate(v))
  if isinstance(v, dict):
    return list(v.items())
  return [('*', x) for x in sorted(v, key=repr)]


def walk_all(root):
  """[(object, where, holder, inside, top, unordered)] of everything reachable
  from root (pg.Ref not entered): the nodes of its tree, their non-symbolic
  members and, through tuples / plain containers, whatever those hold.

  holder = kind of the tree node that stores the outermost plain container,
  inside = reached through a plain container, top = symbolic value stored
  directly in a plain container (the root of a tree of its own), unordered =
  reached through a set."""
  out = []
  entered = set()

  def go(v, where, holder, inside, in_plain, unordered):
    if isinstance(v, pg.Symbolic):
      if id(v) in entered:
        return
      entered.add(id(v))
      out.append((v, where, holder, inside, in_plain, unordered))
      if isinstance(v, pg.Ref):
        return
      for k, c in TM.children(v):
        go(c, where + [k], holder if inside else kind(v), inside, False, unordered)
    elif isinstance(v, M.Leaf):
      out.append((v, where, holder, inside, False, unordered))
    elif isinstance(v, PLAIN):
      if id(v) in entered:
        return
      entered.add(id(v))
      out.append((v, where, holder, True, False, unordered))
      uo = unordered or isinstance(v, (set, frozenset))
      for k, m in plain_items(v):
        go(m, where + [k], holder, True, True, uo)

  go(root, [], None, False, False, False)
  return out


def in_tuple_tops(root):
  """Symbolic values stored directly in a tuple / plain container of root."""
  return [(o, where, holder) for o, where, holder, inside, top, _ in walk_all(root)
          if top and isinstance(o, pg.Symbolic) and not isinstance(o, pg.Ref)]


FLAGS = [('allow_partial', lambda n: n.allow_partial),
         ('is_sealed', lambda n: n.is_sealed),
         ('accessor_writable', lambda n: n.accessor_writable)]


SCOPE_OF_FLAG = {'allow_partial': 'allow_partial', 'is_sealed': 'as_sealed',
                 'accessor_writable': 'allow_writable_accessors'}


def position(x, top_pos):
  """Where a node of the original sits (harness fact used in the keys of flag
  differences of clones taken inside scopes): below which kind of node its
  schema binding comes from. Typed dicts that are themselves members of a
  typed parent are passed through (`Typed.d.sub` counts as nested in the
  object), so the answer is the nearest ancestor that is an object, a typed
  list, a typed dict owning its spec, or an untyped container."""
  p = x.sym_parent

  def typed(n):
    return isinstance(n, pg.Object) or (
        isinstance(n, (pg.Dict, pg.List)) and n.value_spec is not None)

  while (isinstance(p, pg.Dict) and p.value_spec is not None
         and p.sym_parent is not None and typed(p.sym_parent)):
    p = p.sym_parent
  if p is None:
    return top_pos
  if isinstance(p, pg.Object):
    return 'nested-in-object'
  if not typed(p):
    return 'nested-in-untyped'
  return f'nested-in-typed-{kind(p)}'


def scope_tag(ctx, fname, x, orig, top_pos):
  """'' for a clone taken outside any scope; otherwise '@<which scope>/<position>':
  the scope that overrides this very flag with a value different from the
  node's own one, or 'other-scope'."""
  scopes = getattr(ctx, 'clone_scopes', None)
  if not scopes or kind(x) not in ('List', 'Dict', 'Object'):
    # (the position is about where a container gets its schema binding from)
    return ''
  name = SCOPE_OF_FLAG[fname]
  which = f'{name}-scope' if name in scopes and scopes[name] != orig else 'other-scope'
  return f'@{which}/{position(x, top_pos)}'


def below_sealed(x):
  p, hops = x.sym_parent, 0
  while p is not None and hops < 200:
    if p.is_sealed:
      return True
    p, hops = p.sym_parent, hops + 1
  return False


def compare_nodes(ctx, a, c, deep, via, label, witness, ids_a=None, top_pos='root'):
  """Parallel walk of original and clone (one tree)."""
  cnt = ctx.counters
  an, cn = TM.nodes_of(a), TM.nodes_of(c)
  mode = 'deep' if deep else 'shallow'
  sfx = '' if top_pos == 'root' else '/' + top_pos
  if [k for _, k in an] != [k for _, k in cn]:
    ctx.violation('structure-differs', f'{mode}/{kind(a)}{sfx}',
                  f'{label} via {via}: node paths differ', witness)
    return
  if ids_a is None:
    ids_a = {id(n) for n, _ in an}
  for (x, keys), (y, _) in zip(an, cn):
    cnt['identity_nodes_compared'] += 1
    if type(x) in (SubDict, SubList):
      cnt['subclass_nodes_compared'] += 1
    if not isinstance(x, pg.Ref) and not x.is_sealed and below_sealed(x):
      cnt['unsealed_below_sealed_nodes_compared'] += 1
    if type(x) is not type(y):
      if type(x) in (SubDict, SubList):
        # (one mechanism per base class: the harness knows the node is an
        # instance of a user subclass of pg.Dict / pg.List)
        ctx.violation('class-differs', f'{kind(x)}-subclass',
                      f'{label} via {via} ({mode}) at {keys}: {type(x).__name__} vs '
                      f'{type(y).__name__}', witness)
      else:
        ctx.violation('class-differs', f'{mode}/{kind(x)}{sfx}',
                      f'{label} via {via} at {keys}: {type(x).__name__} vs {type(y).__name__}',
                      witness)
      continue
    if id(y) in ids_a:
      ctx.violation('shares-node', f'{mode}/{kind(x)}{sfx}',
                    f'{label} via {via}: the clone holds the original {type(x).__name__} at {keys}',
                    witness)
    if isinstance(x, pg.Ref):
      if x.value is not y.value:
        ctx.violation('ref-target-copied', f'{mode}/Ref',
                      f'{label} via {via}: referenced value at {keys} was copied', witness)
      continue
    for fname, get in FLAGS:
      cnt['flag_nodes_compared'] += 1
      if getattr(ctx, 'clone_scopes', None):
        cnt['scope_flag_nodes_compared'] += 1
      if get(x) != get(y):
        if fname == 'is_sealed' and not x.is_sealed and below_sealed(x):
          # a part re-opened with seal(False) inside a sealed value
          mech = 'is_sealed@unsealed-below-sealed'
        elif fname == 'is_sealed' and getattr(ctx, 'sealed_special', None):
          # a DNA / DNASpec with sealed nodes can only be cloned at all inside
          # pg.as_sealed(False)
          mech = f'{fname}/{kind(x)}@sealed-{ctx.sealed_special}'
        else:
          mech = f'{fname}/{kind(x)}{scope_tag(ctx, fname, x, get(x), top_pos)}'
        ctx.violation('flag-differs', mech,
                      f'{label} via {via} ({mode}) at {keys}: {fname} {get(x)} -> {get(y)}',
                      witness)
    if isinstance(x, (pg.Dict, pg.List)):
      sx, sy = x.value_spec, y.value_spec
      if (sx is None) != (sy is None) or (sx is not None and sx != sy):
        ctx.violation('spec-differs', f'{mode}/{kind(x)}{sfx}',
                      f'{label} via {via} at {keys}: value_spec {sx!r:.100} -> {sy!r:.100}', witness)
    # non-symbolic leaves: shared by a shallow clone, copied by a deep clone
    for k, v in TM.children(x):
      if isinstance(v, M.Leaf):
        w = y.sym_getattr(k)
        if deep and w is v:
          ctx.violation('deep-shares-leaf', f'{kind(x)}{sfx}',
                        f'{label} via {via}: non-symbolic leaf at {keys + [k]} is shared', witness)
        if not deep and w is not v and top_pos == 'root':
          ctx.violation('shallow-copies-leaf', f'{kind(x)}',
                        f'{label} via {via}: non-symbolic leaf at {keys + [k]} was copied', witness)


def compare_inside(ctx, a, b, via, label, witness, wa):
  """Deep clone: what the original holds inside tuples / plain containers
  (symbolic values, plain lists and dicts, leaf objects) must be copied as
  well; the symbolic values in there are compared like the tree itself."""
  cnt = ctx.counters
  wb = walk_all(b)
  orig = {id(o): (where, holder) for o, where, holder, _, _, _ in wa if is_mutable(o)}
  done = set()
  for o, where, holder, inside, _, _ in wb:
    if not inside or not is_mutable(o):
      continue
    cnt['in_tuple_identity_checks'] += 1
    if id(o) in orig:
      if isinstance(o, pg.Symbolic):
        key = ('shares-node', f'deep/{kind(o)}/in-tuple@{holder}')
      else:
        what = 'Leaf' if isinstance(o, M.Leaf) else type(o).__name__
        key = ('deep-shares-leaf', f'{what}/in-tuple@{holder}')
      if key in done:
        continue
      done.add(key)
      ctx.violation(key[0], key[1],
                    f'{label} via {via}: the {type(o).__name__} at {where} of the clone (inside '
                    f'a tuple-valued member of a {holder}) is the very object at '
                    f'{orig[id(o)][0]} of the original', witness)
  ta, tb = in_tuple_tops(a), in_tuple_tops(b)
  if [(w, type(o)) for o, w, _ in ta] != [(w, type(o)) for o, w, _ in tb]:
    ctx.violation('structure-differs', f'deep/{kind(a)}/in-tuple',
                  f'{label} via {via}: the symbolic values inside tuple-valued members differ: '
                  f'{[w for _, w, _ in ta]!r:.200} vs {[w for _, w, _ in tb]!r:.200}', witness)
    return
  ids_a = set(orig)
  for (p, where, _), (q, _, _) in zip(ta, tb):
    if p is q:
      continue      # reported above
    cnt['in_tuple_trees_compared'] += 1
    compare_nodes(ctx, p, q, True, via, f'{label} [value at {where}]', witness, ids_a=ids_a,
                  top_pos='in-tuple')
  for clause, detail in TM.tree_ok([q for q, _, _ in tb]):
    ctx.violation('clone-tree-' + clause, f'deep/{kind(a)}/in-tuple',
                  f'{label} via {via}: a symbolic value inside a tuple of the clone: {detail}',
                  witness)


CLONE_SCOPES = [
    ('as_sealed', pg.as_sealed, [True, False]),
    ('allow_partial', pg.allow_partial, [True, False]),
    ('allow_writable_accessors', pg.allow_writable_accessors, [True, False]),
    ('notify_on_change', pg.notify_on_change, [False]),
]


def clone_in_scopes(rng, fn, a, forced=()):
  """Clones inside 0-2 scoped overrides; the scope governs what may be done
  while it is active, it is not a property of the values created in it, so the
  clone's own flags (read after leaving the scopes) must be those of the
  original."""
  import contextlib  # pylint: disable=g-import-not-at-top
  chosen = []
  if rng.random() < 0.4:
    for name, cm, vals in rng.sample(CLONE_SCOPES, rng.randint(1, 2)):
      chosen.append((name, cm, rng.choice(vals)))
  chosen.extend(forced)
  blocking = any((n, v) in (('as_sealed', True), ('allow_writable_accessors', False))
                 for n, _, v in chosen)
  with contextlib.ExitStack() as st:
    for _, cm, val in chosen:
      st.enter_context(cm(val))
    try:
      b = fn(a)
    except pg.WritePermissionError as e:
      e.pgverif_blocking_scope = blocking
      raise
    except (ValueError, TypeError) as e:
      # (a functor with an unbound argument is refused with TypeError)
      e.pgverif_blocking_scope = ('allow_partial', False) in [(n, v) for n, _, v in chosen]
      raise
  return b, '+'.join(f'{n}({v})' for n, _, v in chosen), {n: v for n, _, v in chosen}


def cases(ctx):
  return ctx.params['cases']


# ---------------------------------------------------------------------------
# Derived state: priming of the source, identity of what the clone's getters
# hand out, snapshot of the untouched side.

def prime(ctx, rng, a):
  """Calls the derived-state getters on the source before it is cloned."""
  r = rng.random()
  if r < 0.3:
    return ''
  srng = None
  if r >= 0.65:
    srng = rng
    rng.sparse_mode = rng.choice(['half', 'one-fact@root', 'one-fact@some'])
    rng.sparse_fact = rng.choice(list(DV.FACTS))
  ctx.label = 'derived-getters'
  DV.touch([a], None, srng)
  ctx.label = None
  return 'primed' if srng is None else f'primed[{rng.sparse_mode}]'


def frz(v, depth=0):
  """Hashable, identity-free rendering of what a getter returned."""
  if isinstance(v, pg.Symbolic):
    return ('sym', type(v).__name__, js(v), safe_format(v))
  if isinstance(v, dict):
    return ('dict', tuple(sorted(((repr(k), frz(x, depth + 1)) for k, x in v.items()))))
  if isinstance(v, (list, tuple, set, frozenset)):
    items = [frz(x, depth + 1) for x in v]
    return (type(v).__name__, tuple(sorted(items, key=repr) if isinstance(v, (set, frozenset))
                                    else items))
  return (type(v).__name__, repr(v))


def safe_format(v):
  try:
    return v.format(compact=True) if isinstance(v, pg.Symbolic) else repr(v)
  except Exception as e:  # pylint: disable=broad-except
    return f'<unformattable {type(e).__name__}>'


def facts_of(x):
  """{(keys, getter name): frozen result} for every node of x."""
  out = {}
  for n, keys in TM.nodes_of(x):
    if isinstance(n, pg.Ref):
      continue
    for name, res in DV.read(n).items():
      out[(tuple(keys), name)] = res if res[0] == 'raise' else ('ok', frz(res[1]))
  return out


HANDOUT_GETTERS = [
    ('sym_nondefault', lambda n: n.sym_nondefault(flatten=False)),
    ('sym_nondefault', lambda n: n.sym_nondefault()),
    ('sym_nondefault', lambda n: n.non_default_values(flatten=False)),
    ('sym_missing', lambda n: n.sym_missing(flatten=False)),
    ('sym_missing', lambda n: n.sym_missing()),
]


def handed_out(v, out, depth=0):
  """Symbolic nodes and leaf objects reachable in a getter's result (symbolic
  nodes are not entered: what is below an own node is checked by tree_ok)."""
  if isinstance(v, (pg.Symbolic, M.Leaf)):
    out.append(v)
  elif isinstance(v, dict) and depth < 40:
    for x in v.values():
      handed_out(x, out, depth + 1)
  elif isinstance(v, (list, tuple)) and depth < 40:
    for x in v:
      handed_out(x, out, depth + 1)


def getter_identity(ctx, a, b, deep, via, label, witness):
  """No object returned by a getter of the clone may be a node of the original
  (deep clone: nor one of its non-symbolic leaves)."""
  mode = 'deep' if deep else 'shallow'
  an = TM.nodes_of(a)
  ids_nodes = {id(n): keys for n, keys in an}
  ids_leaves = {}
  for n, keys in an:
    for k, v in TM.children(n):
      if isinstance(v, M.Leaf):
        ids_leaves[id(v)] = keys + [k]
  done = set()
  for n, keys in TM.nodes_of(b):
    if isinstance(n, pg.Ref):
      continue
    for gname, get in HANDOUT_GETTERS:
      try:
        res = get(n)
      except Exception:  # pylint: disable=broad-except
        continue
      objs = []
      handed_out(res, objs)
      ctx.counters['getter_identity_checks'] += 1
      for o in objs:
        if id(o) in ids_nodes and isinstance(o, pg.Symbolic):
          key = ('getter-returns-original-node', f'{mode}/{gname}')
          where = ids_nodes[id(o)]
        elif deep and id(o) in ids_leaves and isinstance(o, M.Leaf):
          key = ('getter-returns-original-leaf', f'{mode}/{gname}')
          where = ids_leaves[id(o)]
        else:
          continue
        if key in done:
          continue
        done.add(key)
        ctx.violation(key[0], key[1],
                      f'{label} via {via}: {gname} of the clone node at {keys} returns the '
                      f'{type(o).__name__} stored at {where} of the ORIGINAL', witness)


# ---------------------------------------------------------------------------
# Public state outside the symbolic fields (DNA metadata / userdata, functor
# argument sets).

META_KEYS = ['m0', 'm1', 'm2']
USER_KEYS = ['u0', 'u1', 'u2']


class DnaModel:
  """Which keys are cloneable on one copy (only used to stay away from calls
  the documentation leaves open)."""

  def __init__(self, meta_cl=(), user_cl=()):
    self.meta_cl, self.user_cl = set(meta_cl), set(user_cl)

  def clone(self):
    return DnaModel(self.meta_cl, self.user_cl)


def dna_op(rng, model):
  which = rng.choice(['metadata', 'userdata'])
  k = rng.choice(META_KEYS if which == 'metadata' else USER_KEYS)
  cl_set = model.meta_cl if which == 'metadata' else model.user_cl
  cloneable = True if k in cl_set else rng.random() < 0.5
  if cloneable:
    cl_set.add(k)
  return {'op': f'DNA.set_{which}', 'k': k, 'v': rng.randint(0, 99), 'cloneable': cloneable}


def run_dna_op(dna, step):
  fn = dna.set_metadata if step['op'] == 'DNA.set_metadata' else dna.set_userdata
  fn(step['k'], step['v'], cloneable=step['cloneable'])


def show_state_step(step):
  return step['op'] + '(' + ', '.join(f'{k}={v!r}' for k, v in step.items() if k != 'op') + ')'


def functor_op(rng):
  arg = rng.choice(['a', 'b'])
  r = rng.random()
  if r < 0.45:
    return {'op': 'Functor.rebind', 'arg': arg, 'v': rng.randint(0, 9)}
  if r < 0.8:
    return {'op': 'Functor.__setattr__', 'arg': arg, 'v': rng.randint(0, 9)}
  return {'op': 'Functor.__delattr__', 'arg': arg}


def run_functor_op(f, step):
  if step['op'] == 'Functor.rebind':
    f.rebind({step['arg']: step['v']}, raise_on_no_change=False)
  elif step['op'] == 'Functor.__setattr__':
    setattr(f, step['arg'], step['v'])
  else:
    delattr(f, step['arg'])


def spec_op(rng, spec):
  nodes = [keys for n, keys in TM.nodes_of(spec) if isinstance(n, pg.DNASpec)]
  return {'op': 'DNASpec.set_userdata', 'at': rng.choice(nodes), 'k': rng.choice(USER_KEYS),
          'v': rng.randint(0, 99)}


def run_spec_op(spec, step):
  DV.node_at(spec, step['at']).set_userdata(step['k'], step['v'])


def state_obs(x, next_via=None):
  """[(part, observation)] of the public state of a DNA / functor, in the order
  in which a difference is attributed."""
  out = [('json', js(x))]
  if isinstance(x, pg.DNA):
    out.append(('metadata', repr(sorted(x.metadata.items()))))
    out.append(('userdata', repr(sorted(x.userdata.items()))))
    if next_via is not None:
      try:
        c = next_via(x)
        nxt = (js(c), repr(sorted(c.metadata.items())), repr(sorted(c.userdata.items())))
      except Exception as e:  # pylint: disable=broad-except
        nxt = ('raise', type(e).__name__)
      out.append(('next-clone', nxt))
  elif isinstance(x, pg.DNASpec):
    out.append(('userdata', repr([(keys, sorted(n.userdata.items()))
                                  for n, keys in TM.nodes_of(x) if isinstance(n, pg.DNASpec)])))
  elif isinstance(x, pg.Functor):
    sets = tuple(repr(sorted(getattr(x, name))) for name in (
        'specified_args', 'non_default_args', 'default_args', 'bound_args', 'unbound_args'))
    out.append(('arg-sets', sets + (x.is_fully_bound,)))
    try:
      res = ('ok', repr(x()))
    except Exception as e:  # pylint: disable=broad-except
      res = ('raise', type(e).__name__)
    out.append(('call', res))
  return out


def first_diff(before, after):
  for (part, x), (_, y) in zip(before, after):
    if x != y:
      return part, x, y
  return None


def dress_dna(rng, dna):
  """Gives a DNA metadata and userdata (cloneable or not) through its API."""
  model = DnaModel()
  if rng.random() < 0.8:
    for _ in range(rng.randint(1, 4)):
      run_dna_op(dna, dna_op(rng, model))
  return model


def state_history(ctx, rng, a, clones, label, witness, model_a):
  """History on one copy through the value's own API; the other copy is observed."""
  c = ctx.counters
  kname = kind(a)
  mode, via, b = rng.choice(clones)
  mutate_clone = rng.random() < 0.5
  y, x = (b, a) if mutate_clone else (a, b)
  next_name, next_via = rng.choice(DEEP_VIAS + SHALLOW_VIAS)
  ctx.label = 'state-observation'
  snap = state_obs(x, next_via)
  ctx.label = None
  model_y = model_a.clone() if model_a is not None else None
  trace = []
  for _ in range(rng.randint(3, 8)):
    if kname == 'DNA':
      step, run = dna_op(rng, model_y), run_dna_op
    elif kname == 'DNASpec':
      step, run = spec_op(rng, y), run_spec_op
    else:
      step, run = functor_op(rng), run_functor_op
    trace.append(show_state_step(step))
    try:
      run(y, step)
    except Exception:  # pylint: disable=broad-except
      c['state_ops_raised'] += 1
    c['state_interference_checks'] += 1
    ctx.label = 'state-observation'
    now = state_obs(x, next_via)
    ctx.label = None
    d = first_diff(snap, now)
    if d is not None:
      part, was, is_ = d
      ctx.violation('interference', f'{kname}/{part}',
                    f'{label} cloned via {via} ({mode}); {trace[-1]} on the '
                    f'{"clone" if mutate_clone else "original"} changed the {part} of the '
                    f'{"original" if mutate_clone else "clone"}'
                    f'{" (its next clone taken via " + next_name + ")" if part == "next-clone" else ""}'
                    f':\n was {was!r:.300}\n now {is_!r:.300}',
                    dict(witness, history=trace[-10:]))
      snap = now
  ctx.mark_nontrivial((kname, label[:80], via, mutate_clone, tuple(trace)))
  return {'value': label[:300], 'clone': via, 'mutated': 'clone' if mutate_clone else 'original',
          'history': trace[:8]}


def plain_step(rng, y):
  """(op name, where, thunk) mutating a non-symbolic mutable object the value
  holds: a plain list / dict inside a tuple-valued member, or a leaf object."""
  cands = [(o, where, inside) for o, where, _, inside, _, unordered in walk_all(y)
           if not unordered and ((inside and type(o) in (list, dict)) or isinstance(o, M.Leaf))]
  if not cands:
    return None
  o, where, inside = rng.choice(cands)
  pre = 'in-tuple/' if inside else ''
  if isinstance(o, M.Leaf):
    def thunk():
      o.v = (o.v + 1) if isinstance(o.v, int) else 0
    return pre + 'Leaf.v', where, thunk
  if type(o) is list:
    return pre + 'list.append', where, lambda: o.append(77)
  def setitem():
    o['zz'] = o.get('zz', 0) + 1 if isinstance(o.get('zz', 0), int) else 0
  return pre + 'dict.__setitem__', where, setitem


def run_case(ctx, i):
  rng = ctx.rng
  c = ctx.counters
  tags = {}
  label, a = make_value(rng, tags)
  witness = {'value': label[:600]}
  ka = kind(a)
  model_a = None
  if ka == 'DNA':
    ctx.label = 'DNA.set_metadata/set_userdata'
    with pg.as_sealed(False):       # (the DNA may have been sealed)
      model_a = dress_dna(rng, a)
    ctx.label = None
    label += f'+metadata{sorted(a.metadata.items())!r}+userdata{sorted(a.userdata.items())!r}'
    label += f'+cloneable{sorted(model_a.meta_cl | model_a.user_cl)!r}'
    witness = {'value': label[:600]}
  snap_a = js(a)
  primed = prime(ctx, rng, a)
  if primed:
    witness['source'] = primed + ' before cloning'
  state_a = state_obs(a) if ka in ('DNA', 'DNASpec', 'Functor') else None
  wa = walk_all(a)
  has_inside = any(inside for _, _, _, inside, _, _ in wa)
  # typed containers whose spec is their own (root / inside an untyped container)
  typed_own = any(isinstance(n, (pg.Dict, pg.List)) and n.value_spec is not None and (
      n.sym_parent is None or (isinstance(n.sym_parent, (pg.Dict, pg.List))
                               and n.sym_parent.value_spec is None))
                  for n, _ in TM.nodes_of(a))
  # a DNA / DNASpec / hyper value / functor with a sealed node
  sealed_special = (ka not in ('List', 'Dict', 'Object')
                    and any(n.is_sealed for n, _ in TM.nodes_of(a) if not isinstance(n, pg.Ref)))

  ctx.sealed_special = ka if sealed_special and ka in ('DNA', 'DNASpec') else None

  def raised_mech(deep):
    if sealed_special:
      return f'sealed/{ka}'
    return f'{"deep" if deep else "shallow"}/{ka}'

  clones = []
  for deep, vias in ((True, DEEP_VIAS), (False, SHALLOW_VIAS)):
    via, fn = rng.choice(vias)
    ctx.label = f'{"deep" if deep else "shallow"}-{via}'
    scopes, ctx.clone_scopes = '', None
    # A functor is sometimes cloned while pg.auto_call_functors is in force:
    # the scope says what `fn(...)` written by the user means (call at once),
    # a clone of an existing functor is a functor all the same.
    auto_call = ka == 'Functor' and rng.random() < 0.3
    forced = [('auto_call_functors', pg.auto_call_functors, True)] if auto_call else []
    try:
      b, scopes, ctx.clone_scopes = clone_in_scopes(rng, fn, a, forced)
    except (pg.WritePermissionError, ValueError, TypeError) as e:
      ctx.label = None
      if auto_call and not getattr(e, 'pgverif_blocking_scope', False):
        c['clones_inside_auto_call_scope'] += 1
        ctx.violation('clone-in-scope', 'auto_call_functors/Functor',
                      f'{label} via {via} inside pg.auto_call_functors(True): '
                      f'{type(e).__name__}: {e!s:.300}', witness)
        continue
      if getattr(e, 'pgverif_blocking_scope', False):
        # Whether a copy may be *constructed* while pg.as_sealed(True) /
        # pg.allow_writable_accessors(False) (write refused) or
        # pg.allow_partial(False) (partial value refused) is active is left open.
        c['clone_refused_inside_blocking_scope'] += 1
        continue
      ctx.violation('clone-raised', raised_mech(deep),
                    f'{label} via {via}: {type(e).__name__}: {e!s:.300}', witness)
      continue
    except Exception as e:  # pylint: disable=broad-except
      ctx.label = None
      if auto_call:
        c['clones_inside_auto_call_scope'] += 1
        ctx.violation('clone-in-scope', 'auto_call_functors/Functor',
                      f'{label} via {via} inside pg.auto_call_functors(True): '
                      f'{type(e).__name__}: {e!s:.300}', witness)
        continue
      ctx.violation('clone-raised', raised_mech(deep),
                    f'{label} via {via}: {type(e).__name__}: {e!s:.300}', witness)
      continue
    ctx.label = None
    if auto_call:
      c['clones_inside_auto_call_scope'] += 1
      if type(b) is not type(a):
        ctx.violation('clone-in-scope', 'auto_call_functors/Functor',
                      f'{label} via {via} inside pg.auto_call_functors(True): the clone is '
                      f'{b!r:.200}', witness)
        continue
    c['clones_checked'] += 1
    if primed:
      c['primed_clones'] += 1
    mode = 'deep' if deep else 'shallow'
    if scopes:
      c['clones_inside_scopes'] += 1
      via = f'{via}@{scopes}'
    dropped_metadata = ka == 'DNA' and any(k not in model_a.meta_cl for k in a.metadata)
    if dropped_metadata:
      # Documented: metadata that was not set with cloneable=True is not carried.
      equal = (pg.eq(a.value, b.value) and pg.eq(a.children, b.children)
               and not pg.ne(a.children, b.children))
    else:
      equal = pg.eq(a, b) and not pg.ne(a, b)
    if tags.get('transform'):
      c['clones_of_values_with_user_transforms'] += 1
    if tags.get('special_flags'):
      c['clones_of_special_values_with_flag_history'] += 1
    if tags.get('odd_keys'):
      c['clones_of_values_with_unusual_dict_keys'] += 1
    if not equal:
      # (a value whose specs carry user transforms: one mechanism per kind of
      # node that owns those specs, known by construction)
      mech = (f'user-transform/{tags["transform"]}' if tags.get('transform')
              else f'{mode}/{kind(a)}')
      ctx.violation('not-equal', mech, f'{label} via {via} ({mode}): clone differs: '
                    f'{js(b)[:300]} vs {snap_a[:300]}', witness)
      if tags.get('transform'):
        # (parts of this clone were made anew from transformed values: what
        # their flags are is a consequence)
        ctx.clone_scopes = None
        clones.append((mode, via, b))     # (independence is judged all the same)
        continue
    if js(a) != snap_a or (state_a is not None and state_obs(a) != state_a):
      ctx.violation('original-changed', f'{mode}/{kind(a)}', f'{label} via {via}', witness)
    if ka == 'DNA':
      c['state_fidelity_checks'] += 1
      for part, got, want in (
          ('metadata', dict(b.metadata.items()),
           {k: v for k, v in a.metadata.items() if k in model_a.meta_cl}),
          ('userdata', dict(b.userdata.items()),
           {k: v for k, v in a.userdata.items() if k in model_a.user_cl})):
        if got != want:
          ctx.violation('state-differs', f'DNA/{part}', f'{label} via {via} ({mode}): the '
                        f'clone has {part} {got!r}, the cloneable {part} of the source is '
                        f'{want!r}', witness)
    elif ka == 'Functor':
      c['state_fidelity_checks'] += 1
      d = first_diff(state_a, state_obs(b))
      if d is not None:
        ctx.violation('state-differs', f'Functor/{d[0]}', f'{label} via {via} ({mode}): '
                      f'source {d[1]!r:.200} clone {d[2]!r:.200}', witness)
    compare_nodes(ctx, a, b, deep, via, label, witness,
                  ids_a={id(o) for o, _, _, _, _, _ in wa if is_mutable(o)})
    if deep and has_inside:
      c['clones_with_tuple_members'] += 1
      compare_inside(ctx, a, b, via, label, witness, wa)
    if typed_own:
      c['clones_of_own_spec_containers'] += 1
    ctx.clone_scopes = None
    getter_identity(ctx, a, b, deep, via, label, witness)
    for clause, detail in TM.tree_ok([b]):
      ctx.violation('clone-tree-' + clause, f'{mode}/{kind(a)}', f'{label} via {via}: {detail}', witness)
    if deep and not tags.get('transform') and not sealed_special:
      # (schema_ok re-applies the specs to detached copies and expects a fixed
      # point, which a user transform need not have)
      for clause, detail in SM.schema_ok([b], tolerate_partial=False):
        ctx.violation('clone-schema-' + clause, f'{mode}/{kind(a)}', f'{label} via {via}: {detail}', witness)
    clones.append((mode, via, b))
    ctx.seen('value_kinds', (kind(a), mode, via))
  if clones and ka in ('DNA', 'DNASpec', 'Functor'):
    smp = state_history(ctx, rng, a, clones, label, witness, model_a)
    if i < 2:
      ctx.sample(smp)
    return
  if not clones:
    if i < 2:
      ctx.sample({'value': label[:300], 'clones': [(m, v) for m, v, _ in clones]})
    return
  # --- non-interference over a post-clone history (deep or shallow clone) -----
  mode, via, b = rng.choice(clones)
  mutate_clone = rng.random() < 0.5
  y, x = (b, a) if mutate_clone else (a, b)
  who = 'original' if mutate_clone else 'clone'

  def observe():
    ctx.label = 'observe-untouched-side'
    try:
      return js(x), safe_format(x), facts_of(x)
    finally:
      ctx.label = None

  snap_x, fmt_x, facts_x = observe()
  # A deep clone owns what is inside its tuple-valued members as well: the
  # symbolic values in there (roots of trees of their own) take part in the
  # history, and plain lists / dicts / leaf objects are mutated directly. (A
  # shallow clone shares those leaf values; nothing is claimed about them.)
  deep_hist = mode == 'deep'
  forest = [y] + ([o for o, _, _ in in_tuple_tops(y)] if deep_hist else [])
  trace, changed = [], 0
  scope_p = {'notify_off': 0.08, 'writable': 0.5, 'unsealed': 1.0}
  n_steps = rng.randint(ctx.params['steps'] // 2, ctx.params['steps'])
  before = [(js(r), safe_format(r)) for r in forest]
  for _ in range(n_steps):
    plain = None
    if deep_hist and rng.random() < 0.2:
      plain = plain_step(rng, y)
    if plain is not None:
      step = {'op': plain[0]}
      plain[2]()
      trace.append(f'{plain[0]} at {plain[1]}')
      c['plain_member_mutations'] += 1
    else:
      only_inside = len(forest) > 1 and rng.random() < 0.35
      step = H.gen_step(rng, forest, effects=('mutate',), p_scope=scope_p,
                        value_source_kwargs=dict(p_alias=0.15, typed=True,
                                                 allow_root_alias=False),
                        node_filter=(lambda t: t[0] > 0) if only_inside else None)
      if step is None:
        break
      ctx.label = step['op']
      status, _ = O.execute(forest, step)
      ctx.label = None
      trace.append(O.show_step(step))
      if step['at'][0] > 0:
        step = dict(step, op=step['op'] + '@in-tuple')
        c['in_tuple_node_mutations'] += 1
    c['interference_checks'] += 1
    after = [(js(r), safe_format(r)) for r in forest]
    if after != before:
      changed += 1
    before = after
    now, fmt_now, facts_now = observe()
    head = (f'{label} cloned via {via} ({mode}{", source " + primed if primed else ""}); '
            f'mutating the {"clone" if mutate_clone else "original"} with {trace[-1]} changed ')
    if now != snap_x or fmt_now != fmt_x:
      was, is_ = (snap_x, now) if now != snap_x else (fmt_x, fmt_now)
      ctx.violation('interference', step['op'],
                    f'{head}the {who}:\n was {was[:300]}\n now {is_[:300]}',
                    dict(witness, history=trace[-10:]))
      snap_x, fmt_x = now, fmt_now
    c['derived_interference_checks'] += 1
    if facts_now != facts_x:
      if (now, fmt_now) == (snap_x, fmt_x):
        names = sorted({k[1] for k in set(facts_now) | set(facts_x)
                        if facts_now.get(k) != facts_x.get(k)})
        k0 = sorted((k for k in set(facts_now) | set(facts_x)
                     if k[1] == names[0] and facts_now.get(k) != facts_x.get(k)), key=repr)[0]
        ctx.violation('interference-derived', names[0],
                      f'{head}what {names[0]} of the {who} node at {list(k0[0])} reports '
                      f'(content of the {who} unchanged):\n was {facts_x.get(k0)!r:.300}\n now '
                      f'{facts_now.get(k0)!r:.300}', dict(witness, history=trace[-10:]))
      facts_x = facts_now
    if H.total_size(forest) > 250:
      break
  # the getters of the untouched side against a fresh computation on a copy of it
  if ka in ('List', 'Dict', 'Object') and not tags.get('transform'):
    # (the fresh computation rebuilds the value through its constructors,
    # which runs user transforms again)
    ctx.label = 'derived-fresh-check'
    stale = DV.check([x], c)
    ctx.label = None
    for _, keys, tname, fact, live, fresh in stale[:1]:
      ctx.violation('stale-derived', f'{who}/{fact}',
                    f'{label} cloned via {via} ({mode}{", source " + primed if primed else ""}); '
                    f'after the history on the other copy {fact} of the {who} node at {keys} '
                    f'({tname}) reports {live!r:.200}, a fresh copy of it {fresh!r:.200}',
                    dict(witness, history=trace[-10:]))
  if len(TM.nodes_of(a)) >= 3 and changed >= 3:
    ctx.mark_nontrivial((TM.shape([a]), label.split('+', 1)[-1] if '+' in label else '',
                         via, tuple(t.split('(')[0].split('.', 1)[-1] for t in trace)))
  if i < 2:
    ctx.sample({'value': label[:300], 'clone': via,
                'mutated': 'clone' if mutate_clone else 'original', 'history': trace[:8]})
