"""C07 — clone fidelity and independence."""
import copy

import pyglove as pg
from pgverif import models as M
from pgverif.gen import desc as D
from pgverif.gen import history as H
from pgverif.gen import ops as O
from pgverif.monitors import schema as SM
from pgverif.monitors import tree as TM

TIERS = {
    'quick': dict(shards=4, cases=250, steps=15),
    'thorough': dict(shards=16, cases=1500, steps=30),
}
RULE = ('case = one symbolic value (typed/untyped x sealed x partial x accessor flag x '
        'with pg.Ref x with non-symbolic leaves; sometimes a DNA, DNASpec or hyper '
        'value), cloned deep and shallow through clone / sym_clone / pg.clone / '
        'copy.copy / copy.deepcopy; laws checked at clone time (equality, class, '
        'per-node flags and value specs, tree_ok, schema_ok, node-identity '
        'disjointness, original unchanged), then a mutation history on one side with '
        'the JSON of the other side compared after every step. Non-trivial = the value '
        'has at least 3 symbolic nodes and at least 3 post-clone steps changed the '
        'mutated side; distinct by (shape, flags, clone kind, operation sequence).')
REQUIRED_COUNTERS = ['clones_checked', 'flag_nodes_compared', 'interference_checks',
                     'identity_nodes_compared']
ASSUMPTIONS = [
    'values held through pg.Ref are deliberately shared and excluded from the disjointness rule',
    'to_json_str of the untouched side is the observation for non-interference',
]

DEEP_VIAS = [('clone', lambda v: v.clone(deep=True)),
             ('sym_clone', lambda v: v.sym_clone(deep=True)),
             ('pg.clone', lambda v: pg.clone(v, deep=True)),
             ('copy.deepcopy', copy.deepcopy)]
SHALLOW_VIAS = [('clone', lambda v: v.clone()),
                ('sym_clone', lambda v: v.sym_clone(deep=False)),
                ('pg.clone', lambda v: pg.clone(v, deep=False)),
                ('copy.copy', copy.copy)]


def js(v):
  try:
    return pg.to_json_str(v)
  except Exception as e:  # pylint: disable=broad-except
    return f'<unserializable {type(e).__name__}: {e!s:.80}>'


def kind(v):
  for cls in (pg.List, pg.Dict, pg.DNA, pg.DNASpec, pg.hyper.HyperValue, pg.Functor,
              pg.Object):
    if isinstance(v, cls):
      return cls.__name__
  return type(v).__name__


def special_value(rng):
  """DNA / DNASpec / hyper values (classes with their own _sym_clone)."""
  r = rng.random()
  space = pg.Dict(a=pg.oneof([1, 2, pg.Dict(z=pg.oneof(['x', 'y']))]),
                  b=pg.manyof(2, [1, 2, 3]), c=pg.floatv(0.0, 1.0))
  spec = pg.dna_spec(space)
  if r < 0.3:
    return 'DNASpec', spec
  if r < 0.6:
    dna = spec.first_dna() if rng.random() < 0.5 else pg.random_dna(spec, rng)
    return 'DNA', dna
  if r < 0.8:
    return 'hyper', space
  return 'functor', M.add_fn(rng.randint(0, 5))


def make_value(rng):
  """Returns (label, value)."""
  r = rng.random()
  if r < 0.12:
    return special_value(rng)
  if r < 0.2:
    q = rng.random()
    if q < 0.35:
      # allow_partial=True on a value that happens to be complete: the flag is
      # a property of the object, not of its current content.
      if rng.random() < 0.5:
        return 'Typed.partial()', M.Typed.partial()
      kw = {'r': 1, 'rs': 'a', 'rd': {'a': 1}}
      return f'Required.partial({kw})[complete]', M.Required.partial(**kw)
    kw = {'r': 1} if q < 0.7 else {}
    return f'Required.partial({kw})', M.Required.partial(**kw)
  descs, forest = H.make_forest(rng, n_roots=1, typed=rng.random() < 0.6, depth=3,
                                classes=('Any2', 'Writable', 'Notifier', 'Bound', 'NoSymCmp'))
  v = forest[0]
  label = D.show(descs[0])
  nodes = [n for _, _, n in H.all_nodes(forest)]
  if rng.random() < 0.25:
    # a reference to an external node and to a non-symbolic leaf
    ext = pg.Dict(shared=pg.List([1, 2]))
    tgt = rng.choice([n for n in nodes if isinstance(n, (pg.Dict, pg.List)) and
                      n.value_spec is None] or [None])
    if tgt is not None:
      with pg.allow_writable_accessors(True):
        if isinstance(tgt, pg.Dict):
          tgt['ref'] = pg.Ref(ext.shared)
          tgt['leafobj'] = M.Leaf(7)
        else:
          tgt.append(pg.Ref(ext.shared))
          tgt.append(M.Leaf(7))
      label += '+ref+leaf'
  if rng.random() < 0.3:
    n = rng.choice(nodes)
    n.set_accessor_writable(rng.random() < 0.5)
    label += '+accflag'
  if rng.random() < 0.3:
    rng.choice(nodes).seal()
    label += '+sealed'
  return label, v


FLAGS = [('allow_partial', lambda n: n.allow_partial),
         ('is_sealed', lambda n: n.is_sealed),
         ('accessor_writable', lambda n: n.accessor_writable)]


def compare_nodes(ctx, a, c, deep, via, label, witness):
  """Parallel walk of original and clone."""
  cnt = ctx.counters
  an, cn = TM.nodes_of(a), TM.nodes_of(c)
  mode = 'deep' if deep else 'shallow'
  if [k for _, k in an] != [k for _, k in cn]:
    ctx.violation('structure-differs', f'{mode}/{kind(a)}',
                  f'{label} via {via}: node paths differ', witness)
    return
  ids_a = {id(n) for n, _ in an}
  for (x, keys), (y, _) in zip(an, cn):
    cnt['identity_nodes_compared'] += 1
    if type(x) is not type(y):
      ctx.violation('class-differs', f'{mode}/{kind(x)}',
                    f'{label} via {via} at {keys}: {type(x).__name__} vs {type(y).__name__}', witness)
      continue
    if id(y) in ids_a:
      ctx.violation('shares-node', f'{mode}/{kind(x)}',
                    f'{label} via {via}: the clone holds the original {type(x).__name__} at {keys}',
                    witness)
    if isinstance(x, pg.Ref):
      if x.value is not y.value:
        ctx.violation('ref-target-copied', f'{mode}/Ref',
                      f'{label} via {via}: referenced value at {keys} was copied', witness)
      continue
    for fname, get in FLAGS:
      cnt['flag_nodes_compared'] += 1
      if get(x) != get(y):
        ctx.violation('flag-differs', f'{fname}/{kind(x)}{getattr(ctx, "scope_tag", "")}',
                      f'{label} via {via} ({mode}) at {keys}: {fname} {get(x)} -> {get(y)}',
                      witness)
    if isinstance(x, (pg.Dict, pg.List)):
      sx, sy = x.value_spec, y.value_spec
      if (sx is None) != (sy is None) or (sx is not None and sx != sy):
        ctx.violation('spec-differs', f'{mode}/{kind(x)}',
                      f'{label} via {via} at {keys}: value_spec {sx!r:.100} -> {sy!r:.100}', witness)
    # non-symbolic leaves: shared by a shallow clone, copied by a deep clone
    for k, v in TM.children(x):
      if isinstance(v, M.Leaf):
        w = y.sym_getattr(k)
        if deep and w is v:
          ctx.violation('deep-shares-leaf', f'{kind(x)}',
                        f'{label} via {via}: non-symbolic leaf at {keys + [k]} is shared', witness)
        if not deep and w is not v:
          ctx.violation('shallow-copies-leaf', f'{kind(x)}',
                        f'{label} via {via}: non-symbolic leaf at {keys + [k]} was copied', witness)


CLONE_SCOPES = [
    ('as_sealed', pg.as_sealed, [True, False]),
    ('allow_partial', pg.allow_partial, [True, False]),
    ('allow_writable_accessors', pg.allow_writable_accessors, [True, False]),
    ('notify_on_change', pg.notify_on_change, [False]),
]


def clone_in_scopes(rng, fn, a):
  """Clones inside 0-2 scoped overrides; the scope governs what may be done
  while it is active, it is not a property of the values created in it, so the
  clone's own flags (read after leaving the scopes) must be those of the
  original."""
  import contextlib  # pylint: disable=g-import-not-at-top
  chosen = []
  if rng.random() < 0.35:
    for name, cm, vals in rng.sample(CLONE_SCOPES, rng.randint(1, 2)):
      chosen.append((name, cm, rng.choice(vals)))
  blocking = any((n, v) in (('as_sealed', True), ('allow_writable_accessors', False))
                 for n, _, v in chosen)
  with contextlib.ExitStack() as st:
    for _, cm, val in chosen:
      st.enter_context(cm(val))
    try:
      b = fn(a)
    except pg.WritePermissionError as e:
      e.pgverif_blocking_scope = blocking
      raise
    except ValueError as e:
      e.pgverif_blocking_scope = ('allow_partial', False) in [(n, v) for n, _, v in chosen]
      raise
  return b, '+'.join(f'{n}({v})' for n, _, v in chosen)


def cases(ctx):
  return ctx.params['cases']


def run_case(ctx, i):
  rng = ctx.rng
  c = ctx.counters
  label, a = make_value(rng)
  witness = {'value': label[:600]}
  snap_a = js(a)
  clones = []
  for deep, vias in ((True, DEEP_VIAS), (False, SHALLOW_VIAS)):
    via, fn = rng.choice(vias)
    ctx.label = f'{"deep" if deep else "shallow"}-{via}'
    scopes = ''
    try:
      b, scopes = clone_in_scopes(rng, fn, a)
    except (pg.WritePermissionError, ValueError) as e:
      ctx.label = None
      if getattr(e, 'pgverif_blocking_scope', False):
        # Whether a copy may be *constructed* while pg.as_sealed(True) /
        # pg.allow_writable_accessors(False) (write refused) or
        # pg.allow_partial(False) (partial value refused) is active is left open.
        c['clone_refused_inside_blocking_scope'] += 1
        continue
      ctx.violation('clone-raised', f'{"deep" if deep else "shallow"}/{kind(a)}',
                    f'{label} via {via}: {type(e).__name__}: {e!s:.300}', witness)
      continue
    except Exception as e:  # pylint: disable=broad-except
      ctx.label = None
      ctx.violation('clone-raised', f'{"deep" if deep else "shallow"}/{kind(a)}',
                    f'{label} via {via}: {type(e).__name__}: {e!s:.300}', witness)
      continue
    ctx.label = None
    c['clones_checked'] += 1
    mode = 'deep' if deep else 'shallow'
    if scopes:
      c['clones_inside_scopes'] += 1
      via = f'{via}@{scopes}'
      ctx.scope_tag = '@scope'
    else:
      ctx.scope_tag = ''
    if not pg.eq(a, b) or pg.ne(a, b):
      ctx.violation('not-equal', f'{mode}/{kind(a)}', f'{label} via {via}: clone differs: '
                    f'{js(b)[:300]} vs {snap_a[:300]}', witness)
    if js(a) != snap_a:
      ctx.violation('original-changed', f'{mode}/{kind(a)}', f'{label} via {via}', witness)
    compare_nodes(ctx, a, b, deep, via, label, witness)
    for clause, detail in TM.tree_ok([b]):
      ctx.violation('clone-tree-' + clause, f'{mode}/{kind(a)}', f'{label} via {via}: {detail}', witness)
    if deep:
      for clause, detail in SM.schema_ok([b], tolerate_partial=False):
        ctx.violation('clone-schema-' + clause, f'{mode}/{kind(a)}', f'{label} via {via}: {detail}', witness)
    clones.append((mode, via, b))
    ctx.seen('value_kinds', (kind(a), mode, via))
  deep_clones = [x for x in clones if x[0] == 'deep']
  if not deep_clones or kind(a) in ('DNA', 'DNASpec', 'Functor'):
    if i < 2:
      ctx.sample({'value': label[:300], 'clones': [(m, v) for m, v, _ in clones]})
    return
  # --- non-interference over a post-clone history (deep clone) ---------------
  mode, via, b = deep_clones[0]
  mutate_clone = rng.random() < 0.5
  y, x = (b, a) if mutate_clone else (a, b)
  snap_x = js(x)
  forest = [y]
  trace, changed = [], 0
  scope_p = {'notify_off': 0.08, 'writable': 0.5, 'unsealed': 1.0}
  n_steps = rng.randint(ctx.params['steps'] // 2, ctx.params['steps'])
  for _ in range(n_steps):
    step = H.gen_step(rng, forest, effects=('mutate',), p_scope=scope_p,
                      value_source_kwargs=dict(p_alias=0.15, typed=True,
                                               allow_root_alias=False),
                      node_filter=lambda t: t[0] == 0)
    if step is None:
      break
    before = js(forest[0])
    ctx.label = step['op']
    status, _ = O.execute(forest, step)
    ctx.label = None
    trace.append(O.show_step(step))
    c['interference_checks'] += 1
    if js(forest[0]) != before:
      changed += 1
    now = js(x)
    if now != snap_x:
      ctx.violation('interference', step['op'],
                    f'{label} cloned via {via}; mutating the '
                    f'{"clone" if mutate_clone else "original"} with {trace[-1]} changed the '
                    f'{"original" if mutate_clone else "clone"}:\n was {snap_x[:300]}\n now {now[:300]}',
                    dict(witness, history=trace[-10:]))
      snap_x = now
    if H.total_size(forest) > 250:
      break
  if len(TM.nodes_of(a)) >= 3 and changed >= 3:
    ctx.mark_nontrivial((TM.shape([a]), label.split('+', 1)[-1] if '+' in label else '',
                         via, tuple(t.split('(')[0].split('.', 1)[-1] for t in trace)))
  if i < 2:
    ctx.sample({'value': label[:300], 'clone': via,
                'mutated': 'clone' if mutate_clone else 'original', 'history': trace[:8]})
