"""C08 — write protection: sealed / accessor-protected values cannot be changed."""
import threading

import pyglove as pg
from pgverif import models as M
from pgverif.gen import desc as D
from pgverif.gen import history as H
from pgverif.gen import ops as O
from pgverif.gen import values as V
from pgverif.monitors import tree as TM

TIERS = {
    'quick': dict(shards=4, cases=400, steps=10),
    'thorough': dict(shards=16, cases=800, steps=16),
}
RULE = ('case = one tree (a quarter of them with typed members: value specs, defaults, '
        'nested typed dicts / lists; functors with several arguments of which some are '
        'bound, some at their default and some unbound, hyper values and DNA as ordinary '
        'nodes), a protected node P in it and a list of (target at or below '
        'P, operation with arguments that are valid on an unprotected twin and change '
        'it) plus operations issued at a strict ancestor of P whose written locations '
        'lie at or below P (rebind / sym_rebind / pg.patch with deep paths, pure or '
        'mixed with writes outside P, rebind[fn], clone(override=...); in typed trees also '
        'rebind of a typed pg.Dict member to a plain dict that the spec has to complete); '
        'directed operations on functors at or below P (del f.arg, f.arg = v, rebind of '
        'arguments to values / MISSING_VALUE, calls with call-time overrides with and '
        'without override_args); a schemaless pg.List / pg.Dict at or below P handed to an '
        'API that applies a value spec which changes it on the twin (use_value_spec, value '
        'of a typed field by constructor / item assignment / rebind); each is executed '
        'under several protection configurations. A configuration = a program of flag '
        'operations on P (seal(), seal(False), P built with sealed=True, P replaced by '
        'its clone; seal / seal(False) at a descendant of P or a member below P replaced '
        'by an unsealed copy of itself under as_sealed(False), always directly followed '
        'by seal() / seal(False) at P; set_accessor_writable on the written containers) '
        '+ a scope script: '
        'pg.as_sealed / pg.allow_writable_accessors scope objects with values '
        'True/False/None that are created inline, up front, at an earlier point of the '
        'script or inside another (temporary) scope, and entered / left (normally or by '
        'an exception) in a well nested order, with the flag operations and the '
        'operation itself placed anywhere in the script (before, inside, between and '
        'after the scopes). Reference model: a stack per scope kind (push on enter, pop '
        'on exit); "innermost scope value, else object flag". The effective override '
        'is observed with probe values after every enter / exit, the flags of all '
        'descendants after every flag operation. "Exactly as it was" is judged on the '
        'JSON form, the public state the node kinds keep outside their symbolic fields '
        '(functor: specified / bound / default / non-default / unbound argument sets, '
        'is_fully_bound, the result of calling it; DNA: userdata, to_numbers, spec; hyper '
        'values: dna_spec(), candidate templates) and the sealed / accessor flags of '
        'every node. Non-trivial = at least 4 operations '
        'were expected to be refused and 2 to be allowed; distinct by the (operation, '
        'configuration, verdict) sequence.')
REQUIRED_COUNTERS = ['expected_refused', 'expected_allowed', 'refused_ok', 'allowed_ok',
                     'functor_steps', 'op:Functor.__delattr__', 'expected_refused_adopt',
                     'deep_seal_checks_after_descendant_flag_ops',
                     'deep_seal_checks', 'expected_refused_from_above',
                     'expected_allowed_from_above', 'scope_state_probes',
                     'stored_scopes_entered', 'flag_ops_inside_as_sealed_scope',
                     'deep_seal_checks_inside_as_sealed_scope',
                     'ops_after_a_scope_was_left']
ASSUMPTIONS = [
    'operations are issued with arguments that succeed and change an unprotected twin, so protection is the only reason to refuse',
    'no operation is judged while a descendant of P carries a flag of its own that differs from P\'s (the property does not say which flag wins): flag changes at descendants are always directly followed by seal() / seal(False) at P, after which every descendant must have P\'s state',
    'a value that is handed to a typed field while it has a parent is copied by the library, so only a root (or use_value_spec at the node itself) exposes the node to the conversions of a spec; while the node is not effectively sealed the outcome of such a call is a don\'t-care',
    'mutators other than accessor assignment/deletion and rebind are a don\'t-care while accessor writes are disabled',
    'operations that return a new value (copy, +, *, clone) may succeed but must leave the tree unchanged',
    'a batch issued above P that also writes outside P must be refused and leave P unchanged; when the call is turned down with a write-permission error "the whole tree stays exactly as it was" is read as: none of the batch was applied, also outside P (clause refused-batch-partly-applied); when it fails for another reason or wrongly succeeds, what happened outside P is a don\'t-care',
    'replacing the slot that holds P (or an ancestor of P) from above does not change P itself: not generated',
    'pg.Dict.update / |= take keys, not key paths, so they cannot address a location below P from above',
    'seal() / seal(False) / set_accessor_writable change flags, not the value: they are allowed in every scope; a clone of P carries the sealed flag of P (the library passes it to the constructor)',
    'whether a NEW pg.Object can be constructed inside as_sealed(True) / allow_writable_accessors(False) is a don\'t-care (the property speaks of changing existing values): a refusal there is counted and P is sealed in place instead',
    'in typed trees the operand values of a call are built under as_sealed(None) + allow_writable_accessors(None) (construction of new values is a don\'t-care, see above), the call itself runs under the scopes of the script; rebind[fn] with a symbolic operand (copied by the callback inside the scopes) is not generated there',
    'each case runs in a thread of its own, so a scoped override that is not restored cannot outlive the case (scoped overrides are thread local); the case ends after a scope-state violation',
]

ACCESSOR_OPS = {'List.__setitem__[int]', 'List.__setitem__[slice]', 'List.__delitem__[int]',
                'List.__delitem__[slice]', 'Dict.__setitem__', 'Dict.__setattr__',
                'Dict.__delitem__', 'Dict.__delattr__', 'Object.__setattr__'}
REBIND_OPS = {'rebind', 'rebind[fn]'}


def js(v):
  try:
    return pg.to_json_str(v)
  except Exception as e:  # pylint: disable=broad-except
    return f'<unserializable {type(e).__name__}>'


# --- node kinds with public state outside their symbolic fields ----------------
#
# Functors (several arguments, some bound at construction, some left at their
# default, required ones left unbound), hyper values and DNA live in the trees
# as ordinary nodes: they can be the protected node, lie below it or above it.

T = pg.typing


@pg.functor([('a', T.Any()), ('b', T.Any()), ('c', T.Any())])
def fn3(a, b=1, c=2):
  return (a, b, c)


@pg.functor([('x', T.Any()), ('n', T.Int(min_value=0)), ('s', T.Str())])
def fn_typed(x, n=0, s='s'):
  return [x, n, s]


class SubFn(pg.Functor):
  """A subclassed functor (arguments declared as fields of the class)."""
  x: T.Any()
  y: T.Any() = None
  k: T.Int() = 1

  def _call(self):
    return (self.x, self.y, self.k)


FUNCTORS = {'fn3': fn3, 'fn_typed': fn_typed, 'SubFn': SubFn}
P_FUNCTOR_FOR_OBJECT = 0.3    # an untyped object of the drawn tree becomes a functor
P_FUNCTOR_FOR_LEAF = 0.05     # a primitive leaf becomes a functor / hyper value / DNA
P_FUNCTOR_STEP = 0.15         # directed operation on a functor at or below P
P_DESCENDANT_FLAG_OPS = 0.3   # a seal / unseal of P is preceded by flag changes below P
P_ADOPT_STEP = 0.08           # a node at or below P is handed to an API that applies a spec


def functor_desc(rng, subs=()):
  """['F', name, [[arg, desc]...]]: only the listed arguments are bound."""
  name = rng.choice(['fn3', 'fn3', 'fn_typed', 'SubFn'])
  subs, fields = list(subs), []
  for k, f in FUNCTORS[name].__schema__.fields.items():
    if not isinstance(k, pg.typing.ConstStrKey) or rng.random() >= 0.6:
      continue
    if not isinstance(f.value, pg.typing.Any):
      fields.append([str(k), ['v', V.value_for(f.value, rng, valid=True)]])
    elif subs:
      fields.append([str(k), subs.pop(0)])
    else:
      fields.append([str(k), ['v', V.small_prim(rng)]])
  return ['F', name, fields]


def special_leaf_desc(rng):
  r = rng.random()
  if r < 0.5:
    return functor_desc(rng)
  if r < 0.8:
    return ['H', rng.choice(['oneof', 'oneof-nested', 'floatv'])]
  return ['dna', rng.choice([[0], [1, [0, 2]]])]


def with_special_nodes(rng, desc, top=True):
  """Replaces some untyped objects / primitive leaves of a drawn description by
  functors (the members become bound arguments), hyper values or DNA."""
  k = desc[0]
  if k in ('D', 'L'):
    items = [[kk, with_special_nodes(rng, vv, False)] for kk, vv in desc[1]] \
        if k == 'D' else [with_special_nodes(rng, vv, False) for vv in desc[1]]
    return [k, items] + desc[2:]
  if k == 'O':
    if desc[1] not in ('Any2', 'Writable', 'Notifier'):
      return desc                  # typed members: the value specs decide
    fields = [[kk, with_special_nodes(rng, vv, False)] for kk, vv in desc[2]]
    if rng.random() < P_FUNCTOR_FOR_OBJECT:
      return functor_desc(rng, [vv for _, vv in fields])
    return ['O', desc[1], fields]
  if k == 'v' and not top and rng.random() < P_FUNCTOR_FOR_LEAF:
    return special_leaf_desc(rng)
  return desc


def make_forest(rng, typed):
  while True:
    d = D.gen(rng, 3, classes=('Any2', 'Writable', 'Notifier'), typed=typed, symbolic=True)
    if d[0] in ('D', 'L', 'O'):
      break
  d = with_special_nodes(rng, d)
  return d, build_desc(d)


def build_desc(desc, forest=None):
  """D.build plus the kinds 'F' (functor), 'H' (hyper value) and 'dna'."""
  k = desc[0]
  sub = lambda d: build_desc(d, forest)
  if k == 'F':
    return FUNCTORS[desc[1]](**{kk: sub(vv) for kk, vv in desc[2]})
  if k == 'H':
    if desc[1] == 'oneof':
      return pg.oneof([1, 2, 3])
    if desc[1] == 'floatv':
      return pg.floatv(0.0, 1.0)
    return pg.oneof(['a', pg.Dict(x=1), pg.oneof([4, 5])])
  if k == 'dna':
    return pg.DNA(desc[1])
  if k in ('D', 'd'):
    items = {kk: sub(vv) for kk, vv in desc[1]}
    return items if k == 'd' else pg.Dict(items, **(desc[2] if len(desc) > 2 else {}))
  if k in ('L', 'l'):
    items = [sub(vv) for vv in desc[1]]
    return items if k == 'l' else pg.List(items, **(desc[2] if len(desc) > 2 else {}))
  if k == 't':
    return tuple(sub(vv) for vv in desc[1])
  if k == 'O':
    return getattr(M, desc[1])(**{kk: sub(vv) for kk, vv in desc[2]})
  if k == 'ins':
    return pg.Insertion(sub(desc[1]))
  return D.build(desc, forest)


def _obs(fn):
  try:
    return repr(fn())
  except Exception as e:  # pylint: disable=broad-except
    return f'<raises {type(e).__name__}>'


def extra_state(v):
  """[(path, part, observation)]: the public state that the nodes of `v` keep
  OUTSIDE their symbolic fields (so it is not in the JSON form): the bound /
  specified / default argument sets of a functor and what calling it returns,
  metadata / userdata / derived facts of a DNA, what a hyper value and a DNA
  spec have derived from their fields."""
  out = []
  if not isinstance(v, pg.Symbolic):
    return out
  for n, ks in TM.nodes_of(v):
    if isinstance(n, pg.Functor):
      for name in ('specified_args', 'non_default_args', 'default_args', 'bound_args',
                   'unbound_args'):
        out.append((ks, name, _obs(lambda n=n, name=name: sorted(getattr(n, name)))))
      out.append((ks, 'is_fully_bound', _obs(lambda n=n: n.is_fully_bound)))
      out.append((ks, 'call()', _obs(n)))
    elif isinstance(n, pg.DNA):
      out.append((ks, 'userdata', _obs(lambda n=n: sorted(n.userdata.items()))))
      out.append((ks, 'derived', _obs(lambda n=n: (n.is_leaf, n.to_numbers(), n.spec))))
    elif isinstance(n, pg.hyper.HyperPrimitive):
      out.append((ks, 'dna_spec()', _obs(lambda n=n: js(n.dna_spec()))))
      if isinstance(n, pg.hyper.Choices):
        out.append((ks, 'candidate_templates', _obs(
            lambda n=n: [js(t.value) for t in n.candidate_templates])))
    elif isinstance(n, pg.DNASpec):
      out.append((ks, 'derived', _obs(lambda n=n: (n.space_size, len(n.decision_points),
                                                    sorted(n.userdata.items())))))
  return out


def flag_state(v):
  if not isinstance(v, pg.Symbolic):
    return []
  return [(ks, n.is_sealed, n.accessor_writable) for n, ks in TM.nodes_of(v)
          if not isinstance(n, pg.Ref)]


class Snap:
  """What "the tree is exactly as it was" is judged on: the JSON form, the
  public state outside the symbolic fields and (with flags=True, for
  comparisons of one tree with itself) the protection flags of every node."""

  def __init__(self, v, flags=False):
    self.json = js(v)
    self.extra = extra_state(v)
    self.flags = flag_state(v) if flags else None

  def __eq__(self, other):
    return (self.json, self.extra, self.flags) == (other.json, other.extra, other.flags)

  def __ne__(self, other):
    return not self == other

  def same_value(self, other):
    """Equal apart from the protection flags."""
    return (self.json, self.extra) == (other.json, other.extra)

  def part(self, other):
    """Which observation differs (harness fact, part of the mechanism): '' for
    the JSON form, else '[functor-state]' / '[node-state]' / '[flags]'."""
    if self.json != other.json:
      return ''
    if self.extra != other.extra:
      fun = {'specified_args', 'non_default_args', 'default_args', 'bound_args',
             'unbound_args', 'is_fully_bound', 'call()'}
      diff = [a for a, b in zip(self.extra, other.extra) if a != b]
      return '[functor-state]' if all(d[1] in fun for d in diff) and diff else '[node-state]'
    return '[flags]'

  def diff(self, other):
    if self.json != other.json:
      return f'before={self.json[:300]}\nafter ={other.json[:300]}'
    if self.extra != other.extra:
      d = [(a, b) for a, b in zip(self.extra, other.extra) if a != b][:4]
      return 'same JSON, but ' + '; '.join(
          f'{a[1]} of the node at {a[0]}: {a[2]:.120} -> {b[2]:.120}' for a, b in d)
    d = [(a, b) for a, b in zip(self.flags or [], other.flags or []) if a != b][:4]
    return 'same JSON, but (path, is_sealed, accessor_writable): ' + '; '.join(
        f'{a} -> {b}' for a, b in d)


def innermost(stack):
  return stack[-1] if stack else None


# --- protection configurations ------------------------------------------------
#
# cfg = {'flags': [flag operation on P, ...], 'acc_flag': None | bool,
#        'script': [event, ...]}
# events (plain data):
#   ['create', sid, kind, value]   scope object sid := pg.as_sealed(value) /
#                                  pg.allow_writable_accessors(value)
#   ['enter', sid]                 sid.__enter__()
#   ['exit', sid, 'normal'|'exc']  sid.__exit__(...) (with a live exception for 'exc')
#   ['mark', name]                 'flag:<k>' (k-th flag operation), 'acc', 'op'
# Scopes are entered and left in a well nested order; a scope object is
# created once, at or before the point where it is entered.

SCOPE_FN = {'sealed': pg.as_sealed, 'writable': pg.allow_writable_accessors}
SCOPE_NAME = {'sealed': 'as_sealed', 'writable': 'allow_writable_accessors'}
TFN = (True, False, None)


def gen_flags(rng):
  """The program of flag operations on the protected node."""
  r = rng.random()
  if r >= 0.56:
    return []
  prog = (['seal'] if r < 0.28 else ['ctor'] if r < 0.40 else
          ['seal', 'unseal'] if r < 0.48 else
          [rng.choice(['clone-deep', 'clone-shallow'])] if r < 0.53 else ['unseal'])
  while len(prog) < 4 and rng.random() < 0.25:
    prog.append(rng.choice(['seal', 'unseal', 'clone-deep', 'clone-shallow']))
  # Flags of DESCENDANTS of P changed on their own (seal / seal(False) at a node
  # below P, a member below P replaced by an unsealed copy of itself under
  # as_sealed(False)), always directly followed by seal() / seal(False) at P,
  # which has to bring the whole sub-tree to one state.
  if rng.random() < P_DESCENDANT_FLAG_OPS:
    at = [k for k, name in enumerate(prog) if name in ('seal', 'unseal')]
    if at:
      k = rng.choice(at)
      prog[k:k] = [f"{rng.choice(['seal-below', 'unseal-below', 'regraft'])}:{rng.randrange(64)}"
                   for _ in range(rng.randint(1, 2))]
  return prog


def gen_script(rng, marks, classic):
  """Scope script around the marks (the last mark is 'op')."""
  specs = []
  if rng.random() < 0.45:
    specs += [('sealed', rng.choice(TFN)) for _ in range(rng.randint(1, 3))]
  if rng.random() < 0.4:
    specs += [('writable', rng.choice(TFN)) for _ in range(rng.randint(1, 3))]
  events = []
  if classic or not specs:
    # flags set outside of all scopes, inline scopes nested around the operation
    events += [['mark', m] for m in marks[:-1]]
    for k, (kind, v) in enumerate(specs):
      events += [['create', k, kind, v], ['enter', k]]
    events.append(['mark', marks[-1]])
    events += [['exit', k, 'normal'] for k in reversed(range(len(specs)))]
    return events
  rng.shuffle(specs)
  pending, created, stack, marks = list(range(len(specs))), set(), [], list(marks)

  def create(k, under):
    kind, v = specs[k]
    if under:            # created inside a temporary scope of the same kind
      specs.append((kind, rng.choice(TFN)))
      t = len(specs) - 1
      events.extend([['create', t, kind, specs[t][1]], ['enter', t],
                     ['create', k, kind, v], ['exit', t, 'normal']])
    else:
      events.append(['create', k, kind, v])
    created.add(k)

  if rng.random() < 0.2:  # the list of scope objects is built up front
    for k in pending:
      create(k, False)
  while marks:
    later = [k for k in pending if k not in created]
    a = rng.choice(['open'] * (3 if pending else 0) + ['close'] * (2 if stack else 0) +
                   ['mark'] * 3 + ['create'] * (2 if later else 0))
    if a == 'open':
      k = pending.pop(0)
      if k not in created:
        create(k, False)
      events.append(['enter', k])
      stack.append(k)
    elif a == 'close':
      events.append(['exit', stack.pop(), 'exc' if rng.random() < 0.15 else 'normal'])
    elif a == 'mark':
      events.append(['mark', marks.pop(0)])
    else:
      create(rng.choice(later), rng.random() < 0.5)
  while stack:
    events.append(['exit', stack.pop(), 'exc' if rng.random() < 0.15 else 'normal'])
  return events


def gen_config(rng):
  cfg = {'flags': gen_flags(rng), 'acc_flag': None}
  if rng.random() < 0.3:
    cfg['acc_flag'] = rng.choice([False, False, True])
  marks = [f'flag:{k}' for k in range(len(cfg['flags']))]
  marks += ['acc'] if cfg['acc_flag'] is not None else []
  cfg['script'] = gen_script(rng, marks + ['op'], classic=rng.random() < 0.4)
  return cfg


def show_script(cfg):
  """Compact rendering: s=as_sealed w=allow_writable_accessors, T/F/N value;
  'new(sT)' scope object created ahead of its entry, '[sT' entered where it is
  created, '[*sT' a stored scope object entered, ']' left, ']!' left by an
  exception; flag operations and OP where they are executed."""
  ev, out, spec = cfg['script'], [], {}
  for i, e in enumerate(ev):
    if e[0] == 'create':
      spec[e[1]] = ('s' if e[2] == 'sealed' else 'w') + str(e[3])[0]
      if not (i + 1 < len(ev) and ev[i + 1][:2] == ['enter', e[1]]):
        out.append(f'new({spec[e[1]]})')
    elif e[0] == 'enter':
      inline = i > 0 and ev[i - 1][:2] == ['create', e[1]]
      out.append(('[' if inline else '[*') + spec[e[1]])
    elif e[0] == 'exit':
      out.append(']' if e[2] == 'normal' else ']!')
    elif e[1] == 'op':
      out.append('OP')
    elif e[1] == 'acc':
      out.append(f"accessor_flag={cfg['acc_flag']}")
    else:
      out.append(cfg['flags'][int(e[1].split(':')[1])].split(':')[0])
  return ' '.join(out)


def cfg_name(cfg):
  name = show_script(cfg)
  return 'unprotected' if name == 'OP' else name


class _LeaveScope(Exception):
  """Raised by the harness inside a scope to leave it by an exception."""


class Probes:
  """Values with known flags that show which scoped override is in force."""

  def __init__(self):
    self.n = 0
    self.unsealed = pg.Dict(x=0)
    self.sealed = pg.Dict(x=0).seal()
    self.acc_on = pg.Dict(x=0)
    self.acc_off = pg.Dict(x=0)
    self.acc_off.set_accessor_writable(False)

  def _refused(self, d, how):
    self.n += 1
    try:
      if how == 'rebind':
        d.rebind(x=self.n)
      else:
        d['x'] = self.n
    except pg.WritePermissionError:
      return d.x != self.n
    return not d.x == self.n

  def check(self, kind, ts, tw):
    """[(what, expected refused, observed refused)] that disagree with the model
    (ts / tw = innermost as_sealed / allow_writable_accessors value or None)."""
    if kind == 'sealed':
      obs = [('rebind of an unsealed pg.Dict', ts is True,
              self._refused(self.unsealed, 'rebind')),
             ('rebind of a sealed pg.Dict', ts is not False,
              self._refused(self.sealed, 'rebind'))]
    else:
      obs = [('item assignment on a pg.Dict with accessor_writable=True',
              ts is True or tw is False, self._refused(self.acc_on, 'setitem')),
             ('item assignment on a pg.Dict with accessor_writable=False',
              ts is True or tw is not True, self._refused(self.acc_off, 'setitem'))]
    return [o for o in obs if o[1] != o[2]]


class ScopeStateViolation(Exception):
  """The scoped overrides no longer follow the script: the case ends."""


def run_script(ctx, cfg, probes, on_mark, witness):
  """Executes the scope script of `cfg`; calls on_mark(name, stacks) at marks.

  stacks = {'sealed': [...], 'writable': [...]} is the reference model: the
  values of the scopes that are entered and not left, innermost last."""
  c = ctx.counters
  ev = cfg['script']
  stacks = {'sealed': [], 'writable': []}
  objs, spec = {}, {}
  stored_seen = {'sealed': False, 'writable': False}
  left_any = False

  def mech(kind):
    # harness fact: was a scope object of this kind entered away from where it
    # was created (so far in this script)?
    return f"{SCOPE_NAME[kind]}/{'stored-scope-object' if stored_seen[kind] else 'inline'}"

  def check_state(after, kinds):
    for kind in kinds:
      c['scope_state_probes'] += 1
      bad = probes.check(kind, innermost(stacks['sealed']), innermost(stacks['writable']))
      if bad:
        ctx.violation(
            'scope-override-wrong', mech(kind),
            f'script {show_script(cfg)}: after {after} the model has as_sealed stack '
            f"{stacks['sealed']} and allow_writable_accessors stack {stacks['writable']}, "
            'but ' + '; '.join(f"{w} was {'refused' if o else 'accepted'} (expected "
                               f"{'refused' if e else 'accepted'})" for w, e, o in bad),
            witness)
        raise ScopeStateViolation()

  entered = []
  try:
    for i, e in enumerate(ev):
      if e[0] == 'create':
        _, sid, kind, v = e
        ctx.label = 'scope-create'
        objs[sid] = SCOPE_FN[kind](v)
        ctx.label = None
        spec[sid] = (kind, v)
      elif e[0] == 'enter':
        sid = e[1]
        kind, v = spec[sid]
        if not (i > 0 and ev[i - 1][:2] == ['create', sid]):
          stored_seen[kind] = True
          c['stored_scopes_entered'] += 1
        ctx.label = 'scope-enter'
        objs[sid].__enter__()
        ctx.label = None
        stacks[kind].append(v)
        entered.append(sid)
        c['scopes_entered'] += 1
        check_state(f'entering {SCOPE_NAME[kind]}({v})', (kind,))
      elif e[0] == 'exit':
        sid = e[1]
        kind, v = spec[sid]
        try:
          if e[2] == 'exc':
            c['scopes_left_by_exception'] += 1
            try:
              raise _LeaveScope()
            except _LeaveScope as x:
              objs[sid].__exit__(type(x), x, x.__traceback__)
          else:
            objs[sid].__exit__(None, None, None)
        except Exception as x:  # pylint: disable=broad-except
          ctx.violation('scope-exit-raised', mech(kind),
                        f'script {show_script(cfg)}: leaving {SCOPE_NAME[kind]}({v}) raised '
                        f'{type(x).__name__}: {x!s:.200}', witness)
          raise ScopeStateViolation() from x
        stacks[kind].pop()
        entered.pop()
        left_any = True
        # An as_sealed(True) scope hides the accessor override from observation
        # until it is left; when no scope is left entered both must be gone.
        both = (kind == 'sealed' and v is True) or not entered
        check_state(f'leaving {SCOPE_NAME[kind]}({v})',
                    ('sealed', 'writable') if both else (kind,))
      else:
        if e[1] == 'op':
          c['ops_after_a_scope_was_left'] += left_any
          c['ops_inside_scopes'] += bool(stacks['sealed'] or stacks['writable'])
        on_mark(e[1], stacks)
  except BaseException:
    # The case ends here. Leave what is still entered, innermost first, in this
    # thread: an abandoned scope object would run its exit code whenever it is
    # garbage collected, possibly in the thread of a later case.
    for sid in reversed(entered):
      try:
        objs[sid].__exit__(None, None, None)
      except Exception:  # pylint: disable=broad-except
        pass
    raise


def containers_of(step, root):
  """The nodes that receive the writes of `step` (resolved on `root`)."""
  node = D.resolve([root], 0, step['at'][1])
  if step['op'] == 'rebind':
    return [O.node_at(node, rel[:-1]) for rel, _ in step['args']['updates']]
  return [node]


def detached(v):
  return v.clone(deep=True) if isinstance(v, pg.Symbolic) else v


def sealed_dna_below(node):
  """A sealed pg.DNA cannot be copied (its clone carries the flag and is then
  rebound to drop metadata): whether a copy can be made is a don't-care."""
  return any(isinstance(n, pg.DNA) and n.is_sealed for n, _ in TM.nodes_of(node))


def construct_sealed(node):
  """A copy of `node` that is sealed by its constructor (`sealed=True`), not by
  a later seal() call."""
  if isinstance(node, pg.Object):
    return type(node)(sealed=True,
                      **{k: detached(v) for k, v in node.sym_init_args.sym_items()})
  if isinstance(node, pg.Dict):
    return pg.Dict({k: detached(v) for k, v in node.sym_items()}, sealed=True)
  return pg.List([detached(v) for v in node.sym_values()], sealed=True)


def gen_above_step(rng, twin, ppath, typed=False):
  """A step issued at a strict ancestor A of the protected node P whose written
  locations lie at or below P (optionally mixed with writes elsewhere below A).

  The step is ordinary step data (op 'rebind' / 'rebind[fn]' / 'clone[override]'
  at A) with two extra facts known by construction: step['issued'] ==
  'ancestor' and step['pure'] (every written location is at or below P)."""
  cut = rng.randrange(len(ppath))               # every strict ancestor
  apath, down = list(ppath[:cut]), list(ppath[cut:])
  anode = D.resolve([twin], 0, apath)
  pnode = D.resolve([twin], 0, ppath)
  if isinstance(anode, pg.Ref) or isinstance(pnode, pg.Ref):
    return None
  vs = H.ValueSource([twin], (0, apath), p_alias=0.1, p_invalid=0.0, typed=typed,
                     allow_root_alias=False)
  g = O.GenEnv(rng, vs, [twin])
  r = rng.random()
  if r < 0.12:
    args = O.OPS['rebind[fn]'].gen(g, anode)
    return {'op': 'rebind[fn]', 'at': [0, apath], 'args': args, 'scopes': [],
            'issued': 'ancestor', 'pure': False}
  inside = [down + rel for rel in O.rel_targets(pnode, rng)]
  if not inside:
    return None
  if r < 0.22:
    rel = rng.choice(inside)
    return {'op': 'clone[override]', 'at': [0, apath],
            'args': {'deep': rng.random() < 0.5, 'rel': rel,
                     'v': g.value(O.node_at(anode, rel[:-1]), rel[-1])},
            'scopes': [], 'issued': 'ancestor', 'pure': True}
  rng.shuffle(inside)
  rels = inside[:1 if rng.random() < 0.5 else rng.randint(2, 4)]
  if rng.random() < 0.4:
    outside = [rel for rel in O.rel_targets(anode, rng)
               if not (H.is_prefix(rel, down) or H.is_prefix(down, rel))]
    rng.shuffle(outside)
    rels += outside[:rng.randint(1, 2)]
  rng.shuffle(rels)                             # position of the protected write in the batch
  rels = O.no_prefix_pairs(rels)
  if not any(H.is_prefix(down, rel) for rel in rels):
    return None
  ups = []
  for rel in rels:
    parent = O.node_at(anode, rel[:-1])
    x = rng.random()
    if x < 0.15 and isinstance(parent, (pg.Dict, pg.List)):
      v = ['missing']
    elif x < 0.3 and isinstance(parent, pg.List):
      v = ['ins', g.value(parent, rel[-1])]
    else:
      v = g.value(parent, rel[-1])
    ups.append([rel, v])
  return {'op': 'rebind', 'at': [0, apath],
          'args': {'updates': ups, 'opts': {}, 'form': 'dict',
                   'style': rng.choice(['raw', 'keypath', 'str']),
                   'api': rng.choice(['rebind', 'sym_rebind', 'pg.patch'])},
          'scopes': [], 'issued': 'ancestor',
          'pure': all(H.is_prefix(down, rel) for rel in rels)}


def execute(forest, step, typed=False):
  """O.execute plus the entry point pg.patch(value, {path: value}).

  In typed trees the operand values are built under scopes that honor the object
  flags: whether a NEW pg.Object can be constructed inside a restrictive scope
  is a don't-care, what the call itself does with its arguments is not."""
  a = step['args']
  node = D.resolve(forest, step['at'][0], step['at'][1])

  def build(d):
    if not typed:
      return build_desc(d, forest)
    with pg.as_sealed(None), pg.allow_writable_accessors(None):
      return build_desc(d, forest)
  try:
    with O.scopes(step.get('scopes', ())):
      if step['op'] == 'rebind' and a.get('api') == 'pg.patch':
        return 'ok', pg.patch(node, {O.path_key(r, a['style']): build(v)
                                     for r, v in a['updates']})
      return 'ok', O.OPS[step['op']].run(node, a, build)
  except Exception as e:  # pylint: disable=broad-except
    return 'raise', e


def gen_completion_step(rng, twin, below):
  """rebind of a member whose value spec is a typed pg.Dict to a PLAIN dict
  that leaves out keys which the spec fills in with their defaults (typed
  trees): the call has to convert and complete its argument."""
  cands = []
  for r, ks, n in H.all_nodes([twin]):
    if (r, ks) not in below or not isinstance(n, (pg.Object, pg.Dict)):
      continue
    for key in n.sym_keys():
      f = n.sym_attr_field(key)
      spec = f.value if f is not None else None
      if (not isinstance(spec, pg.typing.Dict) or spec.schema is None or spec.frozen
          or not all(isinstance(k, pg.typing.ConstStrKey) for k in spec.schema.fields)):
        continue
      if any(not V.needs_value(x.value) for x in spec.schema.fields.values()):
        cands.append((ks, key, spec))
  if not cands:
    return None
  ks, key, spec = rng.choice(cands)
  items, left_out = [], 0
  for k, x in spec.schema.fields.items():
    if V.needs_value(x.value) or (not x.value.frozen and rng.random() < 0.4):
      items.append([str(k), ['v', V.value_for(x.value, rng, valid=True)]])
    else:
      left_out += 1
  if not left_out:
    return None
  return {'op': 'rebind', 'at': [0, ks],
          'args': {'updates': [[[key], ['d', items]]], 'opts': {}, 'form': 'dict',
                   'style': rng.choice(['raw', 'keypath', 'str']),
                   'api': rng.choice(['rebind', 'sym_rebind', 'pg.patch'])},
          'scopes': []}


# Operations of functors (kind 'Functor' is never returned by gen.ops.ops_for:
# only gen_functor_step draws them).

def _gen_delattr(g, f):
  keys = list(f.sym_keys())
  return {'k': g.rng.choice(keys)} if keys else None


def _run_delattr(f, a, B):
  del B
  delattr(f, a['k'])


def _gen_call(g, f):
  """A call with call-time values for some arguments: unbound ones are bound
  for the call, bound ones overridden (override_args=True) or, without it,
  the call is turned down with TypeError."""
  names = [str(k) for k in f.__schema__.fields if isinstance(k, pg.typing.ConstStrKey)]
  picked = [n for n in names if g.rng.random() < 0.5]
  npos = g.rng.randint(0, len(picked)) if picked == names[:len(picked)] else 0
  return {'pos': [g.value(f, n) for n in picked[:npos]],
          'kw': [[n, g.value(f, n)] for n in picked[npos:]],
          'override_args': g.rng.random() < 0.7}


def _run_call(f, a, B):
  try:
    return ('returned', repr(f(*[B(v) for v in a['pos']], **{k: B(v) for k, v in a['kw']},
                               override_args=a['override_args'])))
  except TypeError:
    return ('TypeError',)       # unbound argument / override turned down


O.OPS.setdefault('Functor.__delattr__', O.Op(
    'Functor.__delattr__', 'Functor', _gen_delattr, _run_delattr))
O.OPS.setdefault('Functor.__call__', O.Op(
    'Functor.__call__', 'Functor', _gen_call, _run_call, effect='new'))
ACCESSOR_OPS.add('Functor.__delattr__')


def gen_functor_step(rng, twin, below, typed):
  """A directed operation on a functor at or below the protected node: `del
  f.arg`, `f.arg = v`, rebind of one or several arguments (to a value or back
  to unbound with MISSING_VALUE) and a call with call-time overrides."""
  cands = [(ks, n) for r, ks, n in H.all_nodes([twin])
           if (r, ks) in below and isinstance(n, pg.Functor)]
  if not cands:
    return None
  ks, fn = rng.choice(cands)
  g = O.GenEnv(rng, H.ValueSource([twin], (0, ks), p_alias=0.0, p_invalid=0.0, typed=typed,
                                  allow_root_alias=False), [twin])
  names = list(fn.sym_keys())
  bound = [a for a in names if a in fn.specified_args] or names
  kind = rng.choice(['del', 'del', 'setattr', 'rebind', 'rebind', 'call', 'call'])
  at = [0, list(ks)]
  if kind == 'del':
    return {'op': 'Functor.__delattr__', 'at': at, 'args': {'k': rng.choice(bound)},
            'scopes': []}
  if kind == 'setattr':
    k = rng.choice(names)
    return {'op': 'Object.__setattr__', 'at': at, 'args': {'k': k, 'v': g.value(fn, k)},
            'scopes': []}
  if kind == 'call':
    return {'op': 'Functor.__call__', 'at': at, 'args': _gen_call(g, fn), 'scopes': []}
  ups = []
  for k in rng.sample(names, rng.randint(1, len(names))):
    ups.append([[k], ['missing'] if k in bound and rng.random() < 0.4 else g.value(fn, k)])
  return {'op': 'rebind', 'at': at,
          'args': {'updates': ups, 'opts': {}, 'form': 'dict',
                   'style': rng.choice(['raw', 'keypath', 'str']),
                   'api': rng.choice(['rebind', 'sym_rebind', 'pg.patch'])},
          'scopes': []}


# A schemaless pg.List / pg.Dict at or below P is handed to an API that applies
# a value spec to it: P.use_value_spec(spec), or P given as the value of a
# typed field (constructor argument, item assignment, rebind of a typed
# holder). The spec is drawn so that applying it CHANGES the node on an
# unprotected twin (int members become floats, a key with a default is added).

def spec_recipe(rng, node):
  """Plain-data recipe of a value spec for `node`, or None."""
  def numeric(v):
    return isinstance(v, (int, float)) and not isinstance(v, bool)
  if isinstance(node, pg.List):
    vals = list(node.sym_values())
    if vals and all(numeric(v) for v in vals) and any(isinstance(v, int) for v in vals):
      return ['L', 'float']
    if vals and all(isinstance(v, pg.Dict) and v.value_spec is None for v in vals):
      return ['L', ['D', [], True]]
    return None
  items = list(node.sym_items())
  if not all(isinstance(k, str) for k, _ in items) or 'zz_added' in node:
    return None
  floats = [k for k, v in items if isinstance(v, int) and not isinstance(v, bool)
            and rng.random() < 0.7]
  add = not floats or rng.random() < 0.5
  return ['D', floats, add]


def build_spec(r):
  if r[0] == 'L':
    return T.List(T.Float() if r[1] == 'float' else build_spec(r[1]))
  fields = [(k, T.Float()) for k in r[1]]
  if r[2]:
    fields.append(('zz_added', T.Int(default=7)))
  return T.Dict(fields + [(T.StrKey(), T.Any())])


def _run_adopt(node, a, B):
  del B
  spec = build_spec(a['spec'])
  if a['via'] == 'use_value_spec':
    return node.use_value_spec(spec)
  if a['via'] == 'ctor':
    return pg.Dict(h=node, value_spec=T.Dict([('h', spec)]))
  with pg.as_sealed(False), pg.allow_writable_accessors(True):
    holder = pg.Dict(h=None, value_spec=T.Dict([('h', spec.noneable())]))
  if a['via'] == 'setitem':
    holder['h'] = node
  else:
    holder.rebind(h=node)
  return holder


O.OPS.setdefault('adopt[typed]', O.Op('adopt[typed]', 'Adopt', None, _run_adopt))


def gen_adopt_step(rng, twin, below):
  cands = []
  for r, ks, n in H.all_nodes([twin]):
    if (r, ks) in below and isinstance(n, (pg.List, pg.Dict)) and n.value_spec is None:
      recipe = spec_recipe(rng, n)
      if recipe is not None:
        cands.append((ks, recipe))
  if not cands:
    return None
  ks, recipe = rng.choice(cands)
  # as the value of a typed field a node that has a parent is copied: only a
  # root is converted in place
  via = 'use_value_spec' if ks or rng.random() < 0.4 else rng.choice(['ctor', 'setitem', 'rebind'])
  return {'op': 'adopt[typed]', 'at': [0, list(ks)], 'args': {'spec': recipe, 'via': via},
          'scopes': []}


def op_name(step):
  """Mechanism name of the operation: '@ancestor' when it was issued above the
  protected node (rebind, sym_rebind and pg.patch share the name 'rebind')."""
  return step['op'] + ('@ancestor' if step.get('issued') == 'ancestor' else '')


def cases(ctx):
  return ctx.params['cases']


def run_case(ctx, i):
  """Runs the case in a thread of its own: scoped overrides are thread local,
  so whatever a case leaves behind ends with it."""
  box = []

  def body():
    try:
      run_case_in_thread(ctx, i)
    except ScopeStateViolation:
      ctx.counters['cases_ended_after_scope_state_violation'] += 1
    except BaseException as e:  # pylint: disable=broad-except
      box.append(e)
  t = threading.Thread(target=body, daemon=True)
  t.start()
  t.join()
  if box:
    raise box[0]


def seal_state_problems(node, expected):
  return [ks for n, ks in TM.nodes_of(node) if n.is_sealed != expected]


def run_case_in_thread(ctx, i):
  rng = ctx.rng
  probes = Probes()
  c = ctx.counters
  # A share of the trees has typed members (classes with value specs and
  # defaults, nested typed dicts / lists); operands are drawn valid for the field.
  typed = rng.random() < ctx.params.get('p_typed', 0.25)
  c['typed_trees'] += typed
  desc, root0 = make_forest(rng, typed)
  nodes = H.all_nodes([root0])
  c['trees_with_functors'] += any(isinstance(n, pg.Functor) for _, _, n in nodes)
  _, ppath, _ = rng.choice(nodes)
  below = [(r, ks) for r, ks, _ in nodes if H.is_prefix(ppath, ks)]
  log = []
  n_ref = n_all = 0
  for _ in range(ctx.params['steps']):
    twin = build_desc(desc)
    tnodes = [(r, ks, n) for r, ks, n in H.all_nodes([twin]) if (r, ks) in below]
    above = bool(ppath) and rng.random() < ctx.params.get('p_above', 0.35)
    if above:
      # issued ABOVE the protected node, written locations at or below it
      step = gen_above_step(rng, twin, ppath, typed)
    elif rng.random() < P_FUNCTOR_STEP:
      step = gen_functor_step(rng, twin, below, typed)
      if step is None:
        continue
      c['functor_steps'] += 1
    elif rng.random() < P_ADOPT_STEP:
      step = gen_adopt_step(rng, twin, below)
      if step is None:
        continue
      c['adopt_steps'] += 1
    elif typed and rng.random() < 0.2:
      step = gen_completion_step(rng, twin, below)
      c['completion_steps'] += step is not None
    else:
      step = H.gen_step(rng, [twin], effects=('mutate', 'new'), p_scope={},
                        op_filter=lambda o: o.name != 'json-roundtrip',
                        value_source_kwargs=dict(p_alias=0.1, p_invalid=0.0, typed=typed,
                                                 allow_root_alias=False),
                        node_filter=lambda x: (x[0], x[1]) in below)
    if step is None or not tnodes:
      continue
    if typed and step['op'] == 'rebind[fn]' and step['args']['v'][0] != 'v':
      # the callback copies a symbolic operand inside the scopes: construction
      # of a new typed value there is a don't-care (see ASSUMPTIONS)
      c['skipped_symbolic_operand_copied_in_scope'] += 1
      continue
    if step['op'] == 'rebind' and not above:
      step['args']['opts'] = {}
    op = O.OPS[step['op']]
    pure = step.get('pure', True)
    before = Snap(twin)
    tp = D.resolve([twin], 0, ppath)
    tp_before = Snap(tp)
    with pg.allow_writable_accessors(True):
      tstatus, tres = execute([twin], step, typed)
    if tstatus != 'ok':
      c['skipped_invalid_on_twin'] += 1
      continue
    twin_after = Snap(twin)
    mutating = op.effect == 'mutate'
    if mutating and twin_after == before:
      c['skipped_noop_on_twin'] += 1
      continue
    if mutating and above and Snap(tp) == tp_before:
      # the call would not change the protected node: the property is silent
      c['skipped_above_not_touching_protected'] += 1
      continue
    if above:
      c['issued_above'] += 1
      c['issued_above_mixed_batch'] += (mutating and not pure)
    for _ in range(3):
      cfg = gen_config(rng)
      st = {'root': build_desc(desc), 'sealed': False, 'verdict': None}
      st['pnode'] = D.resolve([st['root']], 0, ppath)
      witness = {'tree': D.show(desc), 'protected': ppath, 'step': O.show_step(step),
                 'config': cfg}

      def replace_protected(new_p, stacks, st=st):
        """Stores new_p where P is (the enclosing nodes are not protected)."""
        if ppath:
          parent = D.resolve([st['root']], 0, ppath[:-1])
          ctx.label = 'insert-protected-node'
          with pg.as_sealed(False if innermost(stacks['sealed']) else None):
            with pg.allow_writable_accessors(True):
              parent.rebind({ppath[-1]: new_p}, raise_on_no_change=False)
          ctx.label = None
        else:
          st['root'] = new_p
        st['pnode'] = D.resolve([st['root']], 0, ppath)
        if st['pnode'] is not new_p:
          c['protected_node_copied_on_insert'] += 1

      def deep_check(node, clause, how, stacks, what, st=st, cfg=cfg, witness=witness):
        inside = bool(stacks['sealed'])
        c['deep_seal_checks'] += 1
        c['deep_seal_checks_inside_as_sealed_scope'] += inside
        wrong = seal_state_problems(node, st['sealed'])
        mixed, st['mixed'] = st.get('mixed'), False
        c['deep_seal_checks_after_descendant_flag_ops'] += bool(mixed)
        if wrong:
          ctx.violation(clause,
                        'after-descendant-flag-op' if mixed else
                        O.node_kind(node) + how + ('@as_sealed' if inside else ''),
                        f'{what} (script {show_script(cfg)}, as_sealed stack '
                        f"{stacks['sealed']}): nodes {wrong[:5]} of the value have "
                        f"is_sealed={not st['sealed']}", witness)
          st['verdict'] = 'flag-violation'     # the configuration ends here

      def below_flag_op(name, pnode, st):
        kind, k = name.split(':')
        nodes_below = [n for n, _ in TM.nodes_of(pnode)[1:] if not isinstance(n, pg.Ref)]
        if not nodes_below:
          return
        n = nodes_below[int(k) % len(nodes_below)]
        c['flag_ops_on_descendants'] += 1
        st['mixed'] = True
        ctx.label = kind
        if kind == 'seal-below':
          n.seal()
        elif kind == 'unseal-below':
          n.seal(False)
        else:
          # the member is replaced by an unsealed copy of itself (same contents)
          with pg.as_sealed(False), pg.allow_writable_accessors(True):
            try:
              fresh = n.clone(deep=True).seal(False)
            except pg.WritePermissionError:
              if not sealed_dna_below(n):
                raise
              fresh = None
            if fresh is not None:
              n.sym_parent.rebind({n.sym_path.key: fresh}, raise_on_no_change=False)
        ctx.label = None

      def flag_op(name, stacks, st=st):
        pnode = st['pnode']
        c['flag_ops'] += 1
        c['flag_ops_inside_as_sealed_scope'] += bool(stacks['sealed'])
        c['flag_ops_inside_writable_scope'] += bool(stacks['writable'])
        cls = type(pnode).__name__
        # constructing NEW objects (also as part of a clone) inside such a scope
        # is a don't-care
        restrictive = (innermost(stacks['sealed']) is True
                       or innermost(stacks['writable']) is False)
        if ':' in name:
          below_flag_op(name, pnode, st)
          return
        if isinstance(pnode, pg.Ref) and name != 'unseal':
          name = 'seal'
        if isinstance(pnode, pg.Functor) and name == 'ctor':
          # the constructor of a functor takes every keyword as an argument of
          # the function ('sealed' would become a bound argument): not generated
          name = 'seal'
        if name == 'ctor':
          c['sealed_at_construction'] += 1
          ctx.label = 'construct-sealed'
          try:
            new_p = construct_sealed(pnode)
          except pg.WritePermissionError:
            if not (restrictive or sealed_dna_below(pnode)):
              raise
            c['dont_care_object_construction_refused_in_scope'] += 1
            name = 'seal'
          else:
            ctx.label = None
            st['sealed'] = True
            deep_check(new_p, 'seal-not-deep', '@construction', stacks,
                       f'{cls}(..., sealed=True)')
            replace_protected(new_p, stacks)
            return
        ctx.label = name
        if name == 'seal':
          pnode.seal()
          st['sealed'] = True
          deep_check(pnode, 'seal-not-deep', '', stacks, f'after {cls}.seal()')
        elif name == 'unseal':
          pnode.seal(False)
          st['sealed'] = False
          deep_check(pnode, 'unseal-not-deep', '', stacks, f'after {cls}.seal(False)')
        elif any(isinstance(n, pg.DNA) for n, _ in TM.nodes_of(pnode)):
          # a copy of a pg.DNA gets a new metadata dict from DNA's own clone
          # code, whose flag is not P's: which flags a COPY carries is not a
          # statement of this property
          c['dont_care_clone_of_dna'] += 1
        else:
          c['protected_node_cloned'] += 1
          try:
            new_p = pnode.clone(deep=name == 'clone-deep')
          except pg.WritePermissionError:
            if not (restrictive or sealed_dna_below(pnode)):
              raise
            c['dont_care_object_construction_refused_in_scope'] += 1
            ctx.label = None
            return
          ctx.label = None
          deep_check(new_p, 'seal-not-deep' if st['sealed'] else 'unseal-not-deep',
                     '@clone', stacks,
                     f"clone(deep={name == 'clone-deep'}) of a {cls} with "
                     f"is_sealed={st['sealed']}")
          replace_protected(new_p, stacks)
        ctx.label = None

      def on_mark(name, stacks, st=st, cfg=cfg):
        if st['verdict'] is not None:
          return
        if name.startswith('flag:'):
          flag_op(cfg['flags'][int(name[5:])], stacks)
        elif name == 'acc':
          for n in containers_of(step, st['root']):
            n.set_accessor_writable(cfg['acc_flag'])
        else:
          check_op(stacks)

      def check_op(stacks, st=st, cfg=cfg, witness=witness):
        nonlocal n_ref, n_all
        root, pnode = st['root'], st['pnode']
        conts = containers_of(step, root)
        sc = innermost(stacks['sealed'])
        # Every target is at or below the protected node, so whether it is sealed
        # follows from the configuration (not from the flags the library reports).
        eff_sealed = sc if sc is not None else st['sealed']
        wc = innermost(stacks['writable'])
        eff_writable = wc if wc is not None else all(n.accessor_writable for n in conts)
        by = {'sealed': 'scope' if sc is not None else 'flag',
              'writable': 'scope' if wc is not None else 'flag'}
        r_before = Snap(root, flags=True)
        p_before = Snap(pnode, flags=True)
        ctx.label = step['op']
        status, res = execute([root], step, typed)
        ctx.label = None
        r_after = Snap(root, flags=True)
        p_after = Snap(pnode, flags=True)   # the protected node by identity
        c['op:' + op_name(step)] += 1
        where = (f"{O.show_step(step)} under {cfg_name(cfg)} (protected node at "
                 f"{ppath}, tree {D.show(desc)[:300]})")
        adopt = step['op'] == 'adopt[typed]'
        # (as the value of a typed field the root legitimately gets a parent)
        tree_problems = [] if adopt else TM.tree_ok([root])
        if tree_problems:
          ctx.violation('tree-broken', step['op'],
                        f'{where}\n{tree_problems[0]}', witness)
        if not mutating:
          if r_after != r_before:
            ctx.violation('nonmutating-changed-tree', step['op'] + r_before.part(r_after),
                          f'{where}\n{r_before.diff(r_after)}', witness)
          st['verdict'] = 'new'
        elif adopt:
          tnode = conts[0]
          mech = f"{O.node_kind(tnode)}.adopt/{by['sealed']}"
          if not eff_sealed:
            c['dont_care_adopt_while_not_sealed'] += 1
            st['verdict'] = 'dont-care'
          else:
            n_ref += 1
            c['expected_refused'] += 1
            c['expected_refused_adopt'] += 1
            ok = True
            if p_after != p_before:
              ctx.violation('sealed-tree-changed', mech + p_before.part(p_after),
                            f'{where}\nthe call {"returned" if status == "ok" else "raised"}; '
                            f'protected node: {p_before.diff(p_after)}', witness); ok = False
            elif status == 'raise' and not isinstance(res, pg.WritePermissionError):
              ctx.violation('sealed-wrong-error', mech,
                            f'{where}\nraised {type(res).__name__}: {res!s:.200}', witness); ok = False
            c['refused_ok'] += ok
            st['verdict'] = 'refused'
        elif eff_sealed:
          n_ref += 1
          c['expected_refused'] += 1
          mech = f"{op_name(step)}/{by['sealed']}"
          ok = True
          c['expected_refused_from_above'] += above
          if status == 'ok':
            ctx.violation('sealed-write-succeeded', mech, where, witness); ok = False
          elif not isinstance(res, pg.WritePermissionError):
            ctx.violation('sealed-wrong-error', mech,
                          f'{where}\nraised {type(res).__name__}: {res!s:.200}', witness); ok = False
          if p_after != p_before:
            ctx.violation('sealed-tree-changed', mech + p_before.part(p_after),
                          f'{where}\nprotected node: {p_before.diff(p_after)}',
                          witness); ok = False
          elif r_after != r_before:
            if pure:
              ctx.violation('sealed-tree-changed', mech + r_before.part(r_after),
                            f'{where}\n{r_before.diff(r_after)}', witness); ok = False
            elif status == 'raise' and isinstance(res, pg.WritePermissionError):
              # the call was turned down as a whole, yet some of it was applied
              ctx.violation('refused-batch-partly-applied', mech,
                            f'{where}\n{r_before.diff(r_after)}', witness); ok = False
            else:
              c['dont_care_mixed_batch_applied_outside_protected'] += 1
          c['refused_ok'] += ok
          st['verdict'] = 'refused'
        elif step['op'] in ACCESSOR_OPS and not eff_writable:
          n_ref += 1
          c['expected_refused'] += 1
          mech = f"{op_name(step)}/{by['writable']}"
          ok = True
          if status == 'ok':
            ctx.violation('accessor-write-succeeded', mech, where, witness); ok = False
          elif not isinstance(res, pg.WritePermissionError):
            ctx.violation('accessor-wrong-error', mech,
                          f'{where}\nraised {type(res).__name__}: {res!s:.200}', witness); ok = False
          if r_after != r_before:
            ctx.violation('accessor-tree-changed', mech + r_before.part(r_after),
                          f'{where}\n{r_before.diff(r_after)}', witness); ok = False
          c['refused_ok'] += ok
          st['verdict'] = 'refused-accessor'
        elif step['op'] in ACCESSOR_OPS or step['op'] in REBIND_OPS or eff_writable:
          # effectively writable: must behave exactly as on the unprotected twin
          n_all += 1
          c['expected_allowed'] += 1
          c['expected_allowed_from_above'] += above
          # in typed trees the call also converts / completes its arguments
          mech = step['op'] + '+typed' if typed else op_name(step)
          ok = True
          if status != 'ok':
            ctx.violation('unprotected-refused', mech,
                          f'{where}\nraised {type(res).__name__}: {res!s:.200}', witness); ok = False
          elif not r_after.same_value(twin_after):
            ctx.violation('unprotected-differs', mech + twin_after.part(r_after),
                          f'{where}\nunprotected twin / this tree: '
                          f'{twin_after.diff(r_after)}', witness); ok = False
          c['allowed_ok'] += ok
          st['verdict'] = 'allowed'
        else:
          c['dont_care_non_accessor_mutator_while_accessors_disabled'] += 1
          if status == 'raise' and r_after != r_before:
            ctx.violation('refused-but-changed', step['op'] + r_before.part(r_after),
                          f'{where}\n{r_before.diff(r_after)}', witness)
          st['verdict'] = 'dont-care'

      ctx.seen('configs', cfg_name(cfg))
      run_script(ctx, cfg, probes, on_mark, witness)
      log.append((op_name(step), cfg_name(cfg), st['verdict']))
  if n_ref >= 4 and n_all >= 2:
    ctx.mark_nontrivial(tuple(log))
  if i < 2:
    ctx.sample({'tree': D.show(desc)[:300], 'protected': ppath, 'checks': log[:12]})
