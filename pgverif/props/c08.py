"""C08 — write protection: sealed / accessor-protected values cannot be changed."""
import contextlib

import pyglove as pg
from pgverif.gen import desc as D
from pgverif.gen import history as H
from pgverif.gen import ops as O
from pgverif.monitors import tree as TM

TIERS = {
    'quick': dict(shards=4, cases=400, steps=10),
    'thorough': dict(shards=16, cases=800, steps=16),
}
RULE = ('case = one tree, a protected node P in it and a list of (target at or below '
        'P, operation with arguments that are valid on an unprotected twin and change '
        'it) plus operations issued at a strict ancestor of P whose written locations '
        'lie at or below P (rebind / sym_rebind / pg.patch with deep paths, pure or '
        'mixed with writes outside P, rebind[fn], clone(override=...)); each is executed under several protection configurations (P sealed by '
        'flag / sealed then unsealed / accessor flag off, nested pg.as_sealed and '
        'pg.allow_writable_accessors scopes with values True/False/None to depth 3) '
        'and compared with the three-line model "innermost scope value, else object '
        'flag". Non-trivial = at least 4 operations were expected to be refused and 2 '
        'to be allowed; distinct by the (operation, configuration, verdict) sequence.')
REQUIRED_COUNTERS = ['expected_refused', 'expected_allowed', 'refused_ok', 'allowed_ok',
                     'deep_seal_checks', 'expected_refused_from_above',
                     'expected_allowed_from_above']
ASSUMPTIONS = [
    'operations are issued with arguments that succeed and change an unprotected twin, so protection is the only reason to refuse',
    'descendants of a sealed node are not unsealed individually (the property does not say which flag wins)',
    'mutators other than accessor assignment/deletion and rebind are a don\'t-care while accessor writes are disabled',
    'operations that return a new value (copy, +, *, clone) may succeed but must leave the tree unchanged',
    'a batch issued above P that also writes outside P must be refused and leave P unchanged; whether the writes outside P were applied before the refusal is a don\'t-care (the quantifier speaks of operations at P and below)',
    'replacing the slot that holds P (or an ancestor of P) from above does not change P itself: not generated',
    'pg.Dict.update / |= take keys, not key paths, so they cannot address a location below P from above',
]

ACCESSOR_OPS = {'List.__setitem__[int]', 'List.__setitem__[slice]', 'List.__delitem__[int]',
                'List.__delitem__[slice]', 'Dict.__setitem__', 'Dict.__setattr__',
                'Dict.__delitem__', 'Dict.__delattr__', 'Object.__setattr__'}
REBIND_OPS = {'rebind', 'rebind[fn]'}


def js(v):
  try:
    return pg.to_json_str(v)
  except Exception as e:  # pylint: disable=broad-except
    return f'<unserializable {type(e).__name__}>'


def innermost(stack):
  return stack[-1] if stack else None


@contextlib.contextmanager
def scope_stacks(sealed_stack, writable_stack):
  with contextlib.ExitStack() as st:
    for v in sealed_stack:
      st.enter_context(pg.as_sealed(v))
    for v in writable_stack:
      st.enter_context(pg.allow_writable_accessors(v))
    yield


def gen_config(rng):
  r = rng.random()
  cfg = {'obj': 'none', 'acc_flag': None, 'sealed_stack': [], 'writable_stack': []}
  if r < 0.28:
    cfg['obj'] = 'sealed'
  elif r < 0.40:
    cfg['obj'] = 'sealed-at-construction'
  elif r < 0.48:
    cfg['obj'] = 'sealed-then-unsealed'
  if rng.random() < 0.45:
    cfg['sealed_stack'] = [rng.choice([True, False, None])
                           for _ in range(rng.randint(1, 3))]
  if rng.random() < 0.3:
    cfg['acc_flag'] = rng.choice([False, False, True])
  if rng.random() < 0.4:
    cfg['writable_stack'] = [rng.choice([True, False, None])
                             for _ in range(rng.randint(1, 3))]
  return cfg


def cfg_name(cfg):
  parts = []
  if cfg['obj'] != 'none':
    parts.append(cfg['obj'])
  if cfg['sealed_stack']:
    parts.append('as_sealed' + str(cfg['sealed_stack']))
  if cfg['acc_flag'] is not None:
    parts.append(f"accessor_flag={cfg['acc_flag']}")
  if cfg['writable_stack']:
    parts.append('writable_scope' + str(cfg['writable_stack']))
  return '+'.join(parts) or 'unprotected'


def how_protected(cfg, by):
  """Mechanism suffix: which kind of protection decided the expectation."""
  if by == 'sealed':
    return 'scope' if innermost(cfg['sealed_stack']) is not None else 'flag'
  return 'scope' if innermost(cfg['writable_stack']) is not None else 'flag'


def containers_of(step, root):
  """The nodes that receive the writes of `step` (resolved on `root`)."""
  node = D.resolve([root], 0, step['at'][1])
  if step['op'] == 'rebind':
    return [O.node_at(node, rel[:-1]) for rel, _ in step['args']['updates']]
  return [node]


def detached(v):
  return v.clone(deep=True) if isinstance(v, pg.Symbolic) else v


def construct_sealed(node):
  """A copy of `node` that is sealed by its constructor (`sealed=True`), not by
  a later seal() call."""
  if isinstance(node, pg.Object):
    return type(node)(sealed=True,
                      **{k: detached(v) for k, v in node.sym_init_args.sym_items()})
  if isinstance(node, pg.Dict):
    return pg.Dict({k: detached(v) for k, v in node.sym_items()}, sealed=True)
  return pg.List([detached(v) for v in node.sym_values()], sealed=True)


def gen_above_step(rng, twin, ppath):
  """A step issued at a strict ancestor A of the protected node P whose written
  locations lie at or below P (optionally mixed with writes elsewhere below A).

  The step is ordinary step data (op 'rebind' / 'rebind[fn]' / 'clone[override]'
  at A) with two extra facts known by construction: step['issued'] ==
  'ancestor' and step['pure'] (every written location is at or below P)."""
  cut = rng.randrange(len(ppath))               # every strict ancestor
  apath, down = list(ppath[:cut]), list(ppath[cut:])
  anode = D.resolve([twin], 0, apath)
  pnode = D.resolve([twin], 0, ppath)
  if isinstance(anode, pg.Ref) or isinstance(pnode, pg.Ref):
    return None
  vs = H.ValueSource([twin], (0, apath), p_alias=0.1, p_invalid=0.0, typed=False,
                     allow_root_alias=False)
  g = O.GenEnv(rng, vs, [twin])
  r = rng.random()
  if r < 0.12:
    args = O.OPS['rebind[fn]'].gen(g, anode)
    return {'op': 'rebind[fn]', 'at': [0, apath], 'args': args, 'scopes': [],
            'issued': 'ancestor', 'pure': False}
  inside = [down + rel for rel in O.rel_targets(pnode, rng)]
  if not inside:
    return None
  if r < 0.22:
    rel = rng.choice(inside)
    return {'op': 'clone[override]', 'at': [0, apath],
            'args': {'deep': rng.random() < 0.5, 'rel': rel,
                     'v': g.value(O.node_at(anode, rel[:-1]), rel[-1])},
            'scopes': [], 'issued': 'ancestor', 'pure': True}
  rng.shuffle(inside)
  rels = inside[:1 if rng.random() < 0.5 else rng.randint(2, 4)]
  if rng.random() < 0.4:
    outside = [rel for rel in O.rel_targets(anode, rng)
               if not (H.is_prefix(rel, down) or H.is_prefix(down, rel))]
    rng.shuffle(outside)
    rels += outside[:rng.randint(1, 2)]
  rng.shuffle(rels)                             # position of the protected write in the batch
  rels = O.no_prefix_pairs(rels)
  if not any(H.is_prefix(down, rel) for rel in rels):
    return None
  ups = []
  for rel in rels:
    parent = O.node_at(anode, rel[:-1])
    x = rng.random()
    if x < 0.15 and isinstance(parent, (pg.Dict, pg.List)):
      v = ['missing']
    elif x < 0.3 and isinstance(parent, pg.List):
      v = ['ins', g.value(parent, rel[-1])]
    else:
      v = g.value(parent, rel[-1])
    ups.append([rel, v])
  return {'op': 'rebind', 'at': [0, apath],
          'args': {'updates': ups, 'opts': {}, 'form': 'dict',
                   'style': rng.choice(['raw', 'keypath', 'str']),
                   'api': rng.choice(['rebind', 'sym_rebind', 'pg.patch'])},
          'scopes': [], 'issued': 'ancestor',
          'pure': all(H.is_prefix(down, rel) for rel in rels)}


def execute(forest, step):
  """O.execute plus the entry point pg.patch(value, {path: value})."""
  a = step['args']
  if step['op'] == 'rebind' and a.get('api') == 'pg.patch':
    node = D.resolve(forest, step['at'][0], step['at'][1])
    try:
      with O.scopes(step.get('scopes', ())):
        return 'ok', pg.patch(node, {O.path_key(r, a['style']): D.build(v, forest)
                                     for r, v in a['updates']})
    except Exception as e:  # pylint: disable=broad-except
      return 'raise', e
  return O.execute(forest, step)


def op_name(step):
  """Mechanism name of the operation: '@ancestor' when it was issued above the
  protected node (rebind, sym_rebind and pg.patch share the name 'rebind')."""
  return step['op'] + ('@ancestor' if step.get('issued') == 'ancestor' else '')


def cases(ctx):
  return ctx.params['cases']


def run_case(ctx, i):
  rng = ctx.rng
  c = ctx.counters
  descs, forest = H.make_forest(rng, n_roots=1, typed=False, depth=3,
                                classes=('Any2', 'Writable', 'Notifier'))
  desc = descs[0]
  nodes = H.all_nodes(forest)
  _, ppath, _ = rng.choice(nodes)
  below = [(r, ks) for r, ks, _ in nodes if H.is_prefix(ppath, ks)]
  log = []
  n_ref = n_all = 0
  for _ in range(ctx.params['steps']):
    twin = D.build(desc)
    tnodes = [(r, ks, n) for r, ks, n in H.all_nodes([twin]) if (r, ks) in below]
    above = bool(ppath) and rng.random() < ctx.params.get('p_above', 0.35)
    if above:
      # issued ABOVE the protected node, written locations at or below it
      step = gen_above_step(rng, twin, ppath)
    else:
      step = H.gen_step(rng, [twin], effects=('mutate', 'new'), p_scope={},
                        op_filter=lambda o: o.name != 'json-roundtrip',
                        value_source_kwargs=dict(p_alias=0.1, p_invalid=0.0, typed=False,
                                                 allow_root_alias=False),
                        node_filter=lambda x: (x[0], x[1]) in below)
    if step is None or not tnodes:
      continue
    if step['op'] == 'rebind' and not above:
      step['args']['opts'] = {}
    op = O.OPS[step['op']]
    pure = step.get('pure', True)
    before = js(twin)
    tp = D.resolve([twin], 0, ppath)
    tp_before = js(tp)
    with pg.allow_writable_accessors(True):
      tstatus, tres = execute([twin], step)
    if tstatus != 'ok':
      c['skipped_invalid_on_twin'] += 1
      continue
    twin_after = js(twin)
    mutating = op.effect == 'mutate'
    if mutating and twin_after == before:
      c['skipped_noop_on_twin'] += 1
      continue
    if mutating and above and js(tp) == tp_before:
      # the call would not change the protected node: the property is silent
      c['skipped_above_not_touching_protected'] += 1
      continue
    if above:
      c['issued_above'] += 1
      c['issued_above_mixed_batch'] += (mutating and not pure)
    for _ in range(3):
      cfg = gen_config(rng)
      root = D.build(desc)
      pnode = D.resolve([root], 0, ppath)
      target = D.resolve([root], 0, step['at'][1])
      if cfg['obj'] == 'sealed-at-construction':
        if isinstance(pnode, pg.Ref):
          cfg['obj'] = 'sealed'
        else:
          ctx.label = 'construct-sealed'
          new_p = construct_sealed(pnode)
          if ppath:
            parent = D.resolve([root], 0, ppath[:-1])
            with pg.allow_writable_accessors(True):
              parent.rebind({ppath[-1]: new_p}, raise_on_no_change=False)
          else:
            root = new_p
          ctx.label = None
          pnode = D.resolve([root], 0, ppath)
          target = D.resolve([root], 0, step['at'][1])
          c['deep_seal_checks'] += 1
          c['sealed_at_construction'] += 1
          unsealed = [ks for n, ks in TM.nodes_of(pnode) if not n.is_sealed]
          if pnode is not new_p:
            c['sealed_node_copied_on_insert'] += 1
          elif unsealed:
            ctx.violation('seal-not-deep', type(pnode).__name__ + '@construction',
                          f'{type(pnode).__name__}(..., sealed=True): descendants '
                          f'{unsealed[:5]} are not sealed',
                          {'tree': D.show(desc), 'protected': ppath})
      if cfg['obj'] in ('sealed', 'sealed-then-unsealed'):
        pnode.seal()
        c['deep_seal_checks'] += 1
        unsealed = [ks for n, ks in TM.nodes_of(pnode) if not n.is_sealed]
        if unsealed:
          ctx.violation('seal-not-deep', type(pnode).__name__,
                        f'after {type(pnode).__name__}.seal() descendants {unsealed[:5]} '
                        'are not sealed', {'tree': D.show(desc), 'protected': ppath})
        if cfg['obj'] == 'sealed-then-unsealed':
          pnode.seal(False)
          still = [ks for n, ks in TM.nodes_of(pnode) if n.is_sealed]
          if still:
            ctx.violation('unseal-not-deep', type(pnode).__name__,
                          f'after seal(False) descendants {still[:5]} are still sealed',
                          {'tree': D.show(desc), 'protected': ppath})
      if cfg['acc_flag'] is not None:
        for n in containers_of(step, root):
          n.set_accessor_writable(cfg['acc_flag'])
      conts = containers_of(step, root)
      sc = innermost(cfg['sealed_stack'])
      # Every target is at or below the protected node, so whether it is sealed
      # follows from the configuration (not from the flags the library reports).
      model_sealed = cfg['obj'] in ('sealed', 'sealed-at-construction')
      eff_sealed = sc if sc is not None else model_sealed
      wc = innermost(cfg['writable_stack'])
      eff_writable = wc if wc is not None else all(n.accessor_writable for n in conts)
      r_before = js(root)
      p_before = js(pnode)
      ctx.label = step['op']
      with scope_stacks(cfg['sealed_stack'], cfg['writable_stack']):
        status, res = execute([root], step)
      ctx.label = None
      r_after = js(root)
      p_after = js(pnode)           # the protected node by identity
      c['op:' + op_name(step)] += 1
      ctx.seen('configs', cfg_name(cfg))
      where = (f"{O.show_step(step)} under {cfg_name(cfg)} (protected node at "
               f"{ppath}, tree {D.show(desc)[:300]})")
      witness = {'tree': D.show(desc), 'protected': ppath, 'step': O.show_step(step),
                 'config': cfg}
      verdict = None
      tree_problems = TM.tree_ok([root])
      if tree_problems:
        ctx.violation('tree-broken', step['op'],
                      f'{where}\n{tree_problems[0]}', witness)
      if not mutating:
        if r_after != r_before:
          ctx.violation('nonmutating-changed-tree', step['op'], where, witness)
        verdict = 'new'
      elif eff_sealed:
        n_ref += 1
        c['expected_refused'] += 1
        mech = f"{op_name(step)}/{how_protected(cfg, 'sealed')}"
        ok = True
        c['expected_refused_from_above'] += above
        if status == 'ok':
          ctx.violation('sealed-write-succeeded', mech, where, witness); ok = False
        elif not isinstance(res, pg.WritePermissionError):
          ctx.violation('sealed-wrong-error', mech,
                        f'{where}\nraised {type(res).__name__}: {res!s:.200}', witness); ok = False
        if p_after != p_before:
          ctx.violation('sealed-tree-changed', mech,
                        f'{where}\nprotected node before={p_before[:300]}\n'
                        f'protected node after ={p_after[:300]}', witness); ok = False
        elif r_after != r_before:
          if pure:
            ctx.violation('sealed-tree-changed', mech,
                          f'{where}\nbefore={r_before[:300]}\nafter ={r_after[:300]}', witness); ok = False
          else:
            c['dont_care_mixed_batch_applied_outside_protected'] += 1
        c['refused_ok'] += ok
        verdict = 'refused'
      elif step['op'] in ACCESSOR_OPS and not eff_writable:
        n_ref += 1
        c['expected_refused'] += 1
        mech = f"{op_name(step)}/{how_protected(cfg, 'writable')}"
        ok = True
        if status == 'ok':
          ctx.violation('accessor-write-succeeded', mech, where, witness); ok = False
        elif not isinstance(res, pg.WritePermissionError):
          ctx.violation('accessor-wrong-error', mech,
                        f'{where}\nraised {type(res).__name__}: {res!s:.200}', witness); ok = False
        if r_after != r_before:
          ctx.violation('accessor-tree-changed', mech, where, witness); ok = False
        c['refused_ok'] += ok
        verdict = 'refused-accessor'
      elif step['op'] in ACCESSOR_OPS or step['op'] in REBIND_OPS or eff_writable:
        # effectively writable: must behave exactly as on the unprotected twin
        n_all += 1
        c['expected_allowed'] += 1
        c['expected_allowed_from_above'] += above
        mech = op_name(step)
        ok = True
        if status != 'ok':
          ctx.violation('unprotected-refused', mech,
                        f'{where}\nraised {type(res).__name__}: {res!s:.200}', witness); ok = False
        elif r_after != twin_after:
          ctx.violation('unprotected-differs', mech,
                        f'{where}\nexpected={twin_after[:300]}\ngot     ={r_after[:300]}', witness); ok = False
        c['allowed_ok'] += ok
        verdict = 'allowed'
      else:
        c['dont_care_non_accessor_mutator_while_accessors_disabled'] += 1
        if status == 'raise' and r_after != r_before:
          ctx.violation('refused-but-changed', step['op'], where, witness)
        verdict = 'dont-care'
      log.append((op_name(step), cfg_name(cfg), verdict))
  if n_ref >= 4 and n_all >= 2:
    ctx.mark_nontrivial(tuple(log))
  if i < 2:
    ctx.sample({'tree': D.show(desc)[:300], 'protected': ppath, 'checks': log[:12]})
