"""C09 — change notification contract and freshness of derived state."""
import copy
import random
import re

import pyglove as pg
from pgverif import models as M
from pgverif.gen import desc as D
from pgverif.gen import history as H
from pgverif.gen import ops as O
from pgverif.gen import values as V
from pgverif.monitors import derived as DV
from pgverif.monitors import notify as N
from pgverif.monitors import tree as TM

TIERS = {
    'quick': dict(shards=8, cases=40, steps=30),
    'thorough': dict(shards=16, cases=250, steps=50),
}
RULE = ('case = one forest (1-3 roots, depth <= 3) mixing objects that override '
        '_on_change, objects that override only _on_bound, plain/typed objects '
        '(required and defaulted fields, some built partial), functors '
        '(decorator-made, subclassed, with and without a logging _on_change; '
        'several arguments: unbound at construction, defaulted, typed to accept '
        'partial objects / dicts / lists of them), dicts and lists '
        'with and without onchange_callback, and search-space placeholders; '
        'followed by a history of single and batched mutations (every List/Dict '
        'mutator, accessor writes, rebind with 1-5 paths / by function / with '
        'Insertion and MISSING_VALUE, optionally notify_parents=False, '
        'skip_notification=True or inside notify_on_change(False)) at uniformly '
        'chosen nodes; directed sub-histories: a structural list edit in front of '
        'symbolic elements with notifications suppressed (insert/delete/pop/'
        'remove/slices/reverse/rebind with Insertion or MISSING_VALUE), then a '
        'notified write inside an element the edit moved; writes into or below '
        'functor arguments (binding an unbound / defaulted argument, often to a '
        'PARTIAL value, rebinding, back to unbound by MISSING_VALUE or del, '
        'assignment, writes inside an argument value) at the functor or through '
        'an ancestor, half of them with notifications suppressed. After every step the delivered events are compared with '
        'the events expected from the written locations, and every derived fact '
        'of every node with a fresh copy of the tree. Non-trivial = at least 3 '
        'steps returned normally with notification on and delivered an expected '
        'event to a subscribed ancestor, and the derived facts of the forest '
        'changed at least once; distinct by (operation sequence, final shape). '
        'Secondary mutating APIs are steps of the same histories, judged by the '
        'same oracle: pg.patching.patch_on_key / _path / _value / _type / _member '
        '(pattern drawn from a member that exists; value or value_fn, '
        'MISSING_VALUE included; skip_notification left out / True / False, by '
        'keyword or position), pg.patch with a dict / rebinder / patcher URI, '
        'clone / sym_clone / pg.clone with override= (the original must hear '
        'nothing); rebind also with an explicit skip_notification=False. Dict '
        'keys include the empty key and keys that look like paths (a.b, [0], '
        'k[1]), one of them often directly below a root. Between '
        'steps the caller sometimes mutates (clear / pop / overwrite / add a '
        'key, at any nesting level) the plain dict a derived-fact getter '
        'returned (missing / nondefault, flatten both ways, both spellings) and '
        'every fact of every node of that tree is asked again.')
REQUIRED_COUNTERS = ['steps_ok', 'event_receiver_checks', 'events_expected_and_delivered',
                     'payload_entries_checked', 'order_pairs_checked',
                     'suppressed_steps_checked', 'derived_fact_comparisons',
                     'derived_changed_steps',
                     'notified_writes_inside_elements_moved_while_suppressed',
                     'functor_arg_writes', 'suppressed_binds_of_unbound_functor_args',
                     'derived_checks_after_functor_arg_writes',
                     'secondary_api_steps_ok_that_wrote',
                     'secondary_api_steps_ok_suppressed',
                     'answers_reasked_after_caller_mutation']
ASSUMPTIONS = [
    'only public API is observed: _on_change/_on_bound overrides, onchange_callback, FieldUpdate fields, sym_parent, sym_items, the derived-state getters',
    'a batch never has a path that is a prefix of another, never addresses a location through a list that the same batch shortens or lengthens, and never uses Insertion on a dict',
    'a write that stores the identical object must produce no event; a write of an equal but not identical value, or of MISSING_VALUE that restores an identical default, may or may not',
    'for a batch that mixes insertions/deletions/appends in one list the payload keys below that list are not judged (positions before or after the call: unspecified); counts and order are',
    'a negative list index in a payload is accepted only for a replacement (list length unchanged)',
    'a call that raises delivers unspecified events; the derived facts must be fresh afterwards all the same',
    'fresh computation = the same getters on pg.from_json(pg.to_json(root), allow_partial=True), confirmed on a copy rebuilt through the public constructors',
    'type checking is on (enable_type_check(False) scopes are not generated); sealing is not generated',
    'functors: the fresh copies are made from the CONTENTS (every argument whose stored value is not MISSING_VALUE is handed to the constructor / is in the JSON), never from the functor\'s own specified_args / bound_args bookkeeping; which arguments count as specified / bound / default is not judged (not a fact named by the property)',
    'an unbound functor argument is not missing (documented); no functor argument is a schema-bound Dict without default, whose unbound state the library materialises as a partial dict (whether that counts as missing is left open)',
    'after a call that wrote into or below a functor argument, the functor and all its ancestors are asked every getter also in the sparse-getter mode',
    'expected locations are the positions found by walking the containers from the receiver (sym_items), never the sym_path the library reports; a history continues over a tree whose only fault is a stale sym_path',
    'secondary APIs (patch_on_*, pg.patch, clone(override=)): the written locations are the identity differences of the containers before and after the call (which locations a pattern matches is not judged); an explicit skip_notification=False inside notify_on_change(False) is not generated (which request wins is left open); pg.patch gets one rule (a list of rules is a chain of calls); a patch_on_* call with MISSING_VALUE leaves an event open for every untouched member below the receiver (a matched location already at its default), and the LOCATIONS carried by the events of such a deleting batch are not judged (deletions shift the list positions of the later ones while the batch is applied; counted as payload_keys_unjudged:deleting-patch-batch); events of the clone made by clone(override=) are not judged, only that no node of the original hears anything',
    'a plain dict returned by sym_missing / sym_nondefault / missing_values / non_default_values belongs to the caller: mutating it is not a mutation of the tree, so every derived fact must read as before (compared with copies of the answers taken just before; those were compared with fresh copies after the step); not done in sparse-getter cases',
]

UNTYPED = ('Any2', 'Writable', 'Notifier', 'Notifier', 'Bound', 'PlainBase', 'SubNotifier',
           'PlainBase', 'SubNotifier')
TYPED = ('Typed', 'TypedSub', 'Inner', 'TypedNotifier', 'Required', 'ReqNotifier',
         'ReqNotifier', 'TypedBound', 'DeepTyped')
PARTIAL_OK = ('Required', 'ReqNotifier')
EXCLUDED_OPS = ('seal',)
MAY_CLONE_OPS = ('List.__imul__', 'List.*=', 'rebind[fn]', 'patch_on_key',
                 'patch_on_path', 'patch_on_value', 'patch_on_type',
                 'patch_on_member', 'pg.patch')
P_SCOPE = {'notify_off': 0.1, 'writable': 0.35, 'partial': 0.08}

T = pg.typing


# Functors (objects whose class overrides the change handler inside the library:
# pg.Functor keeps its bound / specified argument sets in `_on_change`). Several
# arguments each: required ones that stay UNBOUND until a later write, defaulted
# ones, typed ones that accept partial objects / dicts / lists of them.
# No argument is a schema-bound Dict without default: an unbound argument of
# that kind is materialised as a partial dict, and whether "unbound" then
# counts as "missing" is left open by the property.

@pg.functor([('x', T.Any()), ('y', T.Any()), ('z', T.Any())])
def fn_any(x, y=1, z=None):
  return x


@pg.functor([('r', T.Object(M.Required)), ('x', T.Any()),
             ('n', T.Object(M.ReqNotifier).noneable()), ('k', T.Int(min_value=0))])
def fn_req(r, x, n=None, k=1):
  return k


@pg.functor([('x', T.Any()),
             ('d', T.Dict([('a', T.Int()), ('b', T.Int(default=2))]).noneable()),
             ('l', T.List(T.Object(M.Required))), ('m', T.Dict())])
def fn_cont(x, d=None, l=[], m={}):  # pylint: disable=dangerous-default-value
  return x


class RecFn(fn_req):
  """A decorator-made functor class, subclassed to log its change events."""

  def _on_change(self, field_updates):
    M._record(self, 'change', field_updates)  # pylint: disable=protected-access
    super()._on_change(field_updates)


class SubFn(pg.Functor):
  """A subclassed functor (fields declared on the class) that logs events."""
  x: T.Any()
  r: T.Object(M.Required)
  w: T.Any() = None
  k: T.Int(min_value=0) = 1

  def _call(self):
    return self.k

  def _on_change(self, field_updates):
    M._record(self, 'change', field_updates)  # pylint: disable=protected-access
    super()._on_change(field_updates)


FUNCTORS = {'fn_any': fn_any, 'fn_req': fn_req, 'fn_cont': fn_cont,
            'RecFn': RecFn, 'SubFn': SubFn}
FUNCTOR_NAMES = ('fn_any', 'fn_req', 'fn_req', 'fn_cont', 'RecFn', 'SubFn')
REC_FUNCTORS = (RecFn, SubFn)
P_BOUND_AT_CONSTRUCTION = 0.4
P_PARTIAL_ARG = 0.45       # a functor argument is given a partial value
P_FUNCTOR_STEP = 0.12      # directed write into / below a functor argument


# ------------------------------------------------------------ generation ----

def hyper_desc(rng):
  return ['H', rng.choice(['oneof', 'oneof', 'floatv', 'manyof', 'oneof-nested'])]


def build_hyper(desc):
  kind = desc[1]
  if kind == 'oneof':
    return pg.oneof(list(desc[2]) if len(desc) > 2 else [1, 2])
  if kind == 'floatv':
    return pg.floatv(0.0, 1.0)
  if kind == 'manyof':
    return pg.manyof(2, [1, 2, 3])
  return pg.oneof(['a', pg.Dict(x=1)])


def leaf_desc(rng):
  if rng.random() < 0.1:
    return hyper_desc(rng)
  return ['v', V.small_prim(rng)]


def typed_desc(rng):
  clsname = rng.choice(TYPED)
  d = D.typed_obj(rng, clsname)
  cls = getattr(M, clsname)
  # Untyped (Any) fields of typed classes get nested values too.
  for f in d[2]:
    spec = cls.__schema__.get_field(f[0]).value
    if isinstance(spec, pg.typing.Any) and rng.random() < 0.6:
      f[1] = gen_desc(rng, 1)
    elif isinstance(spec, pg.typing.Int) and rng.random() < 0.1:
      f[1] = ['H', 'oneof', [1, 2]]
  if clsname in PARTIAL_OK and rng.random() < 0.5:
    drop = [f for f in d[2] if V.needs_value(cls.__schema__.get_field(f[0]).value)
            and rng.random() < 0.5]
    d = ['OP', clsname, [f for f in d[2] if f not in drop]]
  return d


def partial_obj_desc(rng, clsname=None):
  """cls.partial(...) with at least one required field left out."""
  clsname = clsname or rng.choice(PARTIAL_OK)
  cls = getattr(M, clsname)
  d = D.typed_obj(rng, clsname)
  req = [f for f in d[2] if V.needs_value(cls.__schema__.get_field(f[0]).value)]
  drop = [f for f in req if rng.random() < 0.5] or [rng.choice(req)]
  return ['OP', clsname, [f for f in d[2] if f not in drop]]


def partial_for(spec, rng):
  """A description of a PARTIAL value that `spec` accepts inside a value that
  allows partial members (None: the spec has no partial values)."""
  if isinstance(spec, pg.typing.Any):
    p = partial_obj_desc(rng)
    r = rng.random()
    if r < 0.2:
      return ['D', [[V.key(rng, ints=False), p], ['pk', leaf_desc(rng)]]]
    if r < 0.4:
      return ['L', [leaf_desc(rng), p]]
    return p
  if isinstance(spec, pg.typing.Object) and spec.cls.__name__ in PARTIAL_OK:
    return partial_obj_desc(rng, spec.cls.__name__)
  if isinstance(spec, pg.typing.Dict) and spec.schema is not None:
    full = None
    for _ in range(8):
      full = V.value_for(spec, rng, valid=True)
      if isinstance(full, dict):
        break
    if not isinstance(full, dict):
      return None
    req = [str(k) for k, f in spec.schema.fields.items()
           if isinstance(k, pg.typing.ConstStrKey) and V.needs_value(f.value)]
    if not req:
      return None
    drop = [k for k in req if rng.random() < 0.5] or [rng.choice(req)]
    return ['d', [[k, ['v', v]] for k, v in full.items() if k not in drop]]
  if isinstance(spec, pg.typing.List):
    el = partial_for(spec.element.value, rng)
    if el is None:
      return None
    out = [el]
    if rng.random() < 0.4:
      full = V.value_for(spec.element.value, rng, valid=True)
      out.insert(rng.randint(0, 1), ['v', full])
    return ['l', out]
  return None


def arg_desc(rng, spec, depth=1):
  """A value for a functor argument at construction."""
  if rng.random() < P_PARTIAL_ARG:
    p = partial_for(spec, rng)
    if p is not None:
      return p
  if isinstance(spec, pg.typing.Any):
    return gen_desc(rng, depth)
  return ['v', V.value_for(spec, rng, valid=True)]


def functor_desc(rng, depth=1):
  """['F', name, [[arg, desc]...]]: only the listed arguments are bound at
  construction; the others stay unbound (no default) or at their default."""
  name = rng.choice(FUNCTOR_NAMES)
  fields = []
  for k, f in FUNCTORS[name].__schema__.fields.items():
    if isinstance(k, pg.typing.ConstStrKey) and rng.random() < P_BOUND_AT_CONSTRUCTION:
      fields.append([str(k), arg_desc(rng, f.value, depth)])
  return ['F', name, fields]


# Legal str keys of a schemaless Dict that collide with key-path syntax: the
# empty key renders like the root path, 'a.b' like two keys, '[0]' like an index.
HOSTILE_KEYS = ('a.b', 'p.q', 'k[1]', '', '', '[0]')
P_HOSTILE_ROOT_KEY = 0.2


def dict_key(rng):
  """Mostly identifiers; a few int keys and str keys that contain key-path
  syntax (balanced: an unbalanced bracket is rejected at construction) or are
  empty."""
  r = rng.random()
  if r < 0.07:
    return rng.choice(HOSTILE_KEYS)
  if r < 0.12:
    return rng.randint(0, 3)
  return V.key(rng, ints=False)


def gen_desc(rng, depth=2, symbolic=None):
  r = rng.random()
  if depth <= 0 or r < 0.3:
    return leaf_desc(rng)
  sym = symbolic if symbolic is not None else rng.random() < 0.75
  sub = lambda: gen_desc(rng, depth - 1, symbolic)
  n = rng.randint(0, 3)
  if r < 0.52:
    keys = []
    for _ in range(n):
      kk = dict_key(rng)
      if kk not in keys:
        keys.append(kk)
    return ['D' if sym else 'd', [[kk, sub()] for kk in keys]]
  if r < 0.72 or not sym:
    return ['L' if sym else 'l', [sub() for _ in range(n)]]
  r2 = rng.random()
  if r2 < 0.25:
    return functor_desc(rng, depth - 1)
  if r2 < 0.6:
    return typed_desc(rng)
  cls = rng.choice(UNTYPED)
  if cls == 'Bound':
    return ['O', cls, [['x', sub()]]]
  return ['O', cls, [['x', sub()], ['y', sub()]]]


class Builder(N.Recorder):

  def build(self, desc, forest=None):
    if desc[0] == 'H':
      return build_hyper(desc)
    if desc[0] == 'F':
      v = FUNCTORS[desc[1]](**{k: self.build(vv, forest) for k, vv in desc[2]})
      self.register(v, None)
      return v
    return super().build(desc, forest)

  def subscription(self, node):
    if isinstance(node, REC_FUNCTORS):
      return 'change'
    return super().subscription(node)


def make_forest(rng, rec):
  descs = []
  for _ in range(rng.choice([1, 1, 2, 3])):
    while True:
      d = gen_desc(rng, 3, symbolic=True)
      if d[0] in ('D', 'L', 'O', 'OP', 'F'):
        break
    if d[0] == 'D' and rng.random() < P_HOSTILE_ROOT_KEY:
      # a symbolic member stored under a hostile key directly below the root
      hk = rng.choice(HOSTILE_KEYS)
      if hk not in [kk for kk, _ in d[1]]:
        d[1].insert(rng.randint(0, len(d[1])), [hk, gen_desc(rng, 2, symbolic=True)])
    descs.append(d)
  return descs, [rec.build(d) for d in descs]


class Values:
  """Operand values: spec-aware for typed locations, else random sub-trees;
  occasionally a node that already lives in the forest."""

  def __init__(self, forest, target, p_alias=0.04, p_invalid=0.08,
               p_partial_arg=P_PARTIAL_ARG):
    self.forest, self.target = forest, target
    self.p_alias, self.p_invalid = p_alias, p_invalid
    self.p_partial_arg = p_partial_arg
    self.aliased = False

  def __call__(self, rng, node, key):
    field = None
    if node is not None and key is not None:
      try:
        field = node.sym_attr_field(key)
      except Exception:  # pylint: disable=broad-except
        field = None
    if field is not None and isinstance(node, pg.Functor) and \
        rng.random() < self.p_partial_arg:
      p = partial_for(field.value, rng)
      if p is not None:
        return p
    r = rng.random()
    if field is not None and not isinstance(field.value, pg.typing.Any):
      if r < self.p_invalid:
        return ['v', V.invalid_for(field.value, rng)]
      if r < 0.2 and isinstance(field.value, pg.typing.Int):
        lo = field.value.min_value or 0
        return ['H', 'oneof', [lo, lo + 1]]
      if r < 0.9:
        return ['v', V.value_for(field.value, rng, valid=True)]
    elif r < self.p_alias:
      tr, tk = self.target
      cands = [(ri, ks) for ri, ks, _ in H.all_nodes(self.forest)
               if ks and not (ri == tr and H.is_prefix(ks, tk))]
      if cands:
        self.aliased = True
        ri, ks = rng.choice(cands)
        return ['node', ri, ks]
    return gen_desc(rng, 2)


def has_alias(v):
  return isinstance(v, list) and bool(v) and (
      v[0] == 'node' or (v[0] == 'ins' and has_alias(v[1])))


def rebind_ok(step, node):
  """Drops batches whose events the property leaves open (see ASSUMPTIONS)."""
  ups = step['args']['updates']
  for rel, v in ups:
    try:
      parent = O.node_at(node, rel[:-1])
    except Exception:  # pylint: disable=broad-except
      return False
    if v[0] == 'ins' and not isinstance(parent, pg.List):
      return False
    if len(ups) > 1 and has_alias(v):
      return False
    if isinstance(parent, pg.List) and isinstance(rel[-1], int) and (
        v[0] in ('ins', 'missing') or rel[-1] >= len(parent)):
      p = rel[:-1]
      if any(len(r2) > len(p) + 1 and r2[:len(p)] == p for r2, _ in ups):
        return False
  return True


def is_hyper(v):
  return isinstance(v, pg.hyper.HyperValue)


def in_hyper(forest, ridx, keys):
  """True for nodes at or below a search-space placeholder."""
  n = forest[ridx]
  if is_hyper(n):
    return True
  for k in keys:
    n = n.sym_getattr(k)
    if is_hyper(n):
      return True
  return False


def contains_hyper(node):
  return any(is_hyper(n) for n, _ in TM.nodes_of(node))


def through_hyper(node, rel):
  """True when the container of the location `rel` is (in) a placeholder."""
  n = node
  for k in rel[:-1]:
    n = n.sym_getattr(k)
    if is_hyper(n):
      return True
  return False


def gen_rebind(g, n):
  """Batched rebind: 1-6 paths spread over the sub-tree of `n` (same argument
  format as the 'rebind' entry of gen.ops, whose `run` is used)."""
  targets = [t for t in O.rel_targets(n, g.rng) if not through_hyper(n, t)]
  if not targets:
    return None
  k = g.rng.choice([1, 1, 1, 2, 2, 3, 3, 4, 5, 6])
  g.rng.shuffle(targets)
  rels = O.no_prefix_pairs(targets[:3 * k])[:k]
  ups = []
  for rel in rels:
    parent = O.node_at(n, rel[:-1])
    r = g.rng.random()
    if r < 0.12 and isinstance(parent, (pg.Dict, pg.List, pg.Functor)):
      v = ['missing']       # a functor argument: back to unbound / its default
    elif r < 0.25 and isinstance(parent, pg.List):
      v = ['ins', g.value(parent, rel[-1])]
    else:
      v = g.value(parent, rel[-1])
    ups.append([rel, v])
  opts = {}
  r = g.rng.random()
  if r < 0.1:
    opts['skip_notification'] = True
  elif r < 0.16:
    opts['skip_notification'] = False     # the explicit spelling of the default
  if g.rng.random() < 0.12:
    opts['notify_parents'] = False
  form = 'dict'
  if (not isinstance(n, pg.List) and g.rng.random() < 0.25 and
      all(len(r) == 1 and isinstance(r[0], str) and r[0].isidentifier()
          and r[0] not in ('path_value_pairs', 'raise_on_no_change',
                           'notify_parents', 'skip_notification')
          for r, _ in ups)):
    form = 'kwargs'
  return {'updates': ups, 'opts': opts, 'form': form,
          'style': g.rng.choice(['raw', 'keypath', 'str']),
          'api': g.rng.choice(['rebind', 'rebind', 'sym_rebind'])}


def explicit_notify_scopes(args, scopes):
  """An explicit skip_notification=False inside notify_on_change(False) is left
  open (which of the two requests wins): that combination is not generated."""
  if args.get('opts', {}).get('skip_notification') is False:
    return [x for x in scopes if x != 'notify_off']
  return scopes


OP_WEIGHT = {'rebind': 5.0, 'rebind[fn]': 1.0, 'set_accessor_writable': 0.4,
             'Object.__setattr__': 3.0}


def gen_step(rng, forest, scope_p=None, among=None):
  """One random step. among: restrict the receivers of the call to these nodes
  (by identity); the call is then issued with notification on, at the node
  itself (a follow-up write inside elements that an earlier call moved)."""
  nodes = [x for x in H.all_nodes(forest) if not in_hyper(forest, x[0], x[1])]
  if among is not None:
    ids = {id(m) for m in among}
    nodes = [x for x in nodes if id(x[2]) in ids]
  if not nodes:
    return None, False
  for _ in range(25):
    ridx, keys, node = rng.choice(nodes)
    cands = [o for o in O.ops_for(node, ('mutate', 'flag') if among is None
                                  else ('mutate',))
             if o.name not in EXCLUDED_OPS]
    if isinstance(node, pg.Functor):
      cands.append(FUNCTOR_DELATTR)
    if not cands:
      continue
    o = rng.choices(cands, [OP_WEIGHT.get(x.name, 1.0) for x in cands])[0]
    if among is None and o.name == 'rebind' and keys and rng.random() < 0.4:
      k = rng.randrange(len(keys))        # batch from an ancestor (or the root)
      keys = keys[:k]
      node = D.resolve(forest, ridx, keys)
    if o.name == 'rebind[fn]' and contains_hyper(node):
      continue      # the function form would rewrite the inside of placeholders
    vs = Values(forest, (ridx, keys))
    g = O.GenEnv(rng, vs, forest)
    args = gen_rebind(g, node) if o.name == 'rebind' else o.gen(g, node)
    if args is None:
      continue
    sc = [name for name, p in (scope_p or P_SCOPE).items() if rng.random() < p]
    if among is not None and o.name == 'rebind':
      args['opts'].pop('skip_notification', None)
    sc = explicit_notify_scopes(args, sc)
    step = {'op': o.name, 'at': [ridx, keys], 'args': args, 'scopes': sc}
    if o.name == 'rebind' and not rebind_ok(step, node):
      continue
    return step, vs.aliased
  return None, False


FOLLOW_SCOPE = {'writable': 0.5, 'partial': 0.05}


def gen_shift_step(rng, forest):
  """A structural edit of a list IN FRONT OF symbolic elements (insert, delete,
  pop, remove, slice deletion / resizing slice assignment, reverse, rebind with
  Insertion / MISSING_VALUE from the list or an ancestor) issued with
  notifications suppressed (notify_on_change(False) or skip_notification=True):
  no event may be delivered, and the elements behind the edit change position."""
  cands = []
  for ridx, keys, node in H.all_nodes(forest):
    if isinstance(node, pg.List) and not in_hyper(forest, ridx, keys):
      pos = [j for j, v in enumerate(node.sym_values())
             if isinstance(v, pg.Symbolic) and not isinstance(v, pg.Ref)
             and not is_hyper(v)]
      if pos:
        cands.append((ridx, keys, node, pos))
  if not cands:
    return None
  ridx, keys, node, pos = rng.choice(cands)
  j, n = rng.choice(pos), len(node)
  g = O.GenEnv(rng, Values(forest, (ridx, keys), p_alias=0.0, p_invalid=0.0), forest)
  kinds = ['insert', 'insert', 'rebind-ins', 'reverse']
  if j >= 1:
    kinds += ['delete', 'delete', 'delslice', 'setslice', 'rebind-del']
  kind = rng.choice(kinds)
  scopes = ['notify_off'] + (['writable'] if rng.random() < 0.5 else [])
  at = [ridx, list(keys)]
  if kind == 'insert':
    i = rng.randint(0, j)
    if rng.random() < 0.35:
      i = i - n if rng.random() < 0.7 else -n - rng.randint(1, 2)
    op, args = 'List.insert', {'i': i, 'v': g.value(node, 0)}
  elif kind == 'delete':
    i = rng.randrange(j)
    op = rng.choice(['List.__delitem__[int]', 'List.pop', 'List.remove'])
    args = {'pos': i} if op == 'List.remove' else {
        'i': i if rng.random() < 0.7 else i - n}
  elif kind == 'delslice':
    a = rng.randrange(j)
    op, args = 'List.__delitem__[slice]', {'a': a, 'b': rng.randint(a + 1, j), 'c': None}
  elif kind == 'setslice':
    a = rng.randrange(j)
    b = rng.randint(a, j)
    k = rng.choice([x for x in range(0, b - a + 3) if x != b - a])
    op = 'List.__setitem__[slice]'
    args = {'a': a, 'b': b, 'c': None, 'vs': [g.value(node, 0) for _ in range(k)]}
  elif kind == 'reverse':
    op, args = 'List.reverse', {}
  else:
    if kind == 'rebind-ins':
      rel, v = [rng.randint(0, j)], ['ins', g.value(node, 0)]
    else:
      rel, v = [rng.randrange(j)], ['missing']
    if keys and rng.random() < 0.5:          # issued from an ancestor of the list
      k = rng.randrange(len(keys))
      at, rel = [ridx, list(keys[:k])], list(keys[k:]) + rel
    opts = {}
    if rng.random() < 0.6:
      opts['skip_notification'] = True
      scopes = [x for x in scopes if x != 'notify_off']
    op = 'rebind'
    args = {'updates': [[rel, v]], 'opts': opts, 'form': 'dict',
            'style': rng.choice(['raw', 'keypath', 'str']),
            'api': rng.choice(['rebind', 'sym_rebind'])}
  return {'op': op, 'at': at, 'args': args, 'scopes': scopes}


def _gen_delattr(g, f):
  keys = list(f.sym_keys())
  return {'k': g.rng.choice(keys)} if keys else None


def _run_delattr(f, a, B):
  del B
  delattr(f, a['k'])


# `del functor.arg` (Functor.__delattr__: back to unbound / the default). The
# kind 'Functor' is never returned by gen.ops.ops_for: only this module draws it.
FUNCTOR_DELATTR = O.OPS.setdefault('Functor.__delattr__', O.Op(
    'Functor.__delattr__', 'Functor', _gen_delattr, _run_delattr))


def gen_functor_step(rng, forest):
  """A write into (or below) an argument of a functor that lives in the forest:
  binding an argument that was left unbound / at its default (often to a
  PARTIAL value), rebinding a bound one, taking it back to unbound (rebind to
  MISSING_VALUE, `del f.arg`), assignment, or a write inside a symbolic argument
  value; issued at the functor or through a deep path from an ancestor, half of
  the time with notifications suppressed (scope or skip_notification=True)."""
  cands = [(ri, ks, n) for ri, ks, n in H.all_nodes(forest)
           if isinstance(n, pg.Functor) and not in_hyper(forest, ri, ks)]
  if not cands:
    return None
  ridx, keys, fn = rng.choice(cands)
  names = list(fn.sym_keys())
  if not names:
    return None
  g = O.GenEnv(rng, Values(forest, (ridx, keys), p_alias=0.0, p_invalid=0.04,
                           p_partial_arg=0.6), forest)
  kind = rng.choice(['bind', 'bind', 'bind', 'bind', 'unbind', 'inner', 'inner',
                     'delattr', 'setattr'])
  quiet = rng.random() < 0.5
  scopes = [name for name, p in FOLLOW_SCOPE.items() if rng.random() < p]
  # An argument the constructor did not get is the more interesting target.
  later = [a for a in names if a not in fn.specified_args]
  arg = rng.choice(later if later and rng.random() < 0.65 else names)
  if kind == 'delattr':
    bound = [a for a in names if a in fn.specified_args]
    arg = rng.choice(bound) if bound and rng.random() < 0.8 else arg
    return {'op': 'Functor.__delattr__', 'at': [ridx, list(keys)], 'args': {'k': arg},
            'scopes': scopes + (['notify_off'] if quiet else [])}
  if kind == 'setattr':
    return {'op': 'Object.__setattr__', 'at': [ridx, list(keys)],
            'args': {'k': arg, 'v': g.value(fn, arg)},
            'scopes': sorted(set(scopes + ['writable'] + (['notify_off'] if quiet else [])))}
  rel, v = None, None
  if kind == 'inner':
    targets = [t for t in O.rel_targets(fn, rng) if len(t) >= 2
               and not through_hyper(fn, t)]
    if targets:
      rel = rng.choice(targets)
      parent = O.node_at(fn, rel[:-1])
      if rng.random() < 0.12 and isinstance(parent, (pg.Dict, pg.List)):
        v = ['missing']
      else:
        v = g.value(parent, rel[-1])
  if rel is None:
    rel = [arg]
    if kind == 'unbind':
      bound = [a for a in names if a in fn.specified_args]
      if bound and rng.random() < 0.8:
        rel = [rng.choice(bound)]
      v = ['missing']
    else:
      v = g.value(fn, arg)
  at = [ridx, list(keys)]
  if keys and rng.random() < 0.5:            # issued from an ancestor
    k = rng.randrange(len(keys))
    at, rel = [ridx, list(keys[:k])], list(keys[k:]) + rel
  opts = {}
  if quiet:
    if rng.random() < 0.5:
      opts['skip_notification'] = True
    else:
      scopes.append('notify_off')
  return {'op': 'rebind', 'at': at,
          'args': {'updates': [[rel, v]], 'opts': opts, 'form': 'dict',
                   'style': rng.choice(['raw', 'keypath', 'str']),
                   'api': rng.choice(['rebind', 'sym_rebind'])},
          'scopes': scopes}


# ------------------------------------------------ secondary mutating APIs ---
# Public entry points other than rebind / accessors / container mutators that
# mutate a tree in place and take (or inherit) the notification options:
# pg.patching.patch_on_key / _path / _value / _type / _member (skip_notification
# None / True / False, keyword or positional), pg.patch with a dict, a rebinder
# or the URI of a registered patcher, and clone / sym_clone / pg.clone with
# override= (mutates the NEW tree only: the original must hear nothing).
# They are judged by the same oracle as every other step: the written locations
# are the identity differences of the containers before and after the call.

PATCH_TYPES = {'int': int, 'str': str, 'float': float, 'bool': bool,
               'NoneType': type(None), 'Dict': pg.Dict, 'List': pg.List,
               'Object': pg.Object, 'Symbolic': pg.Symbolic}
PATCH_APIS = ('patch_on_key', 'patch_on_path', 'patch_on_value', 'patch_on_type',
              'patch_on_member')
SECONDARY_OPS = PATCH_APIS + ('pg.patch', 'clone[override=]')
P_SECONDARY_STEP = 0.14


def named_type(name):
  if name in PATCH_TYPES:
    return PATCH_TYPES[name]
  return FUNCTORS[name] if name in FUNCTORS else getattr(M, name)


def type_name(t):
  for name, tt in PATCH_TYPES.items():
    if t is tt:
      return name
  for name, tt in FUNCTORS.items():
    if t is tt:
      return name
  return t.__name__ if getattr(M, t.__name__, None) is t else None


def _register_patchers():
  names = pg.patching.patcher_names()
  if 'c09_replace' not in names:
    @pg.patcher([('old', T.Int()), ('new', T.Int())])
    def c09_replace(src, old, new):  # pylint: disable=unused-variable
      del src
      return lambda k, v, p: new if (type(v) is int and v == old) else v
  if 'c09_set' not in names:
    @pg.patcher([('path', T.Str()), ('v', T.Int())])
    def c09_set(src, path, v):  # pylint: disable=unused-variable
      del src
      return {path: v}


_register_patchers()


def existing_targets(n, rng):
  """Relative key sequences of the members stored at or below `n` (not inside
  placeholders)."""
  out = []
  for rel in O.rel_targets(n, rng):
    if through_hyper(n, rel):
      continue
    try:
      parent = O.node_at(n, rel[:-1])
      if any(type(k) is type(rel[-1]) and k == rel[-1] for k in parent.sym_keys()):
        out.append(rel)
    except Exception:  # pylint: disable=broad-except
      continue
  return out


def _is_prim(v):
  return v is None or type(v) in (bool, int, str) or (
      type(v) is float and v == v)   # pylint: disable=comparison-with-itself


def notify_opts(rng):
  """skip_notification: left out (decided by the scope), True, or False."""
  r = rng.random()
  if r < 0.35:
    return {'skip_notification': True}
  if r < 0.55:
    return {'skip_notification': False}
  return {}


def _gen_patch_on(g, n, api):
  """A pattern drawn from a member that exists below `n` (so that the call
  matches at least that location; whatever else it matches is patched too)."""
  rng = g.rng
  rels = existing_targets(n, rng)
  if not rels:
    return None
  rel = rng.choice(rels)
  parent = O.node_at(n, rel[:-1])
  key, cur = rel[-1], parent.sym_getattr(rel[-1])
  r = rng.random()
  if api == 'patch_on_key':
    ks = str(key)
    sel = {'regex': re.escape(ks) + '$' if r < 0.7 else
                    re.escape(ks[:1]) if r < 0.9 else '.'}
  elif api == 'patch_on_path':
    ps = str(pg.KeyPath(list(rel)))
    sel = {'regex': re.escape(ps) + ('$' if r < 0.7 else '')}
  elif api == 'patch_on_value':
    sel = {'old': cur if _is_prim(cur) else V.small_prim(rng)}
    if not _is_prim(sel['old']):
      return None
  elif api == 'patch_on_type':
    tn = type_name(type(cur))
    if tn is None:
      return None
    sel = {'type': tn}
  else:
    tn = type_name(type(parent)) if r < 0.85 else 'Symbolic'
    if tn is None:
      return None
    sel = {'cls': tn, 'name': key}
  v = ['missing'] if rng.random() < 0.08 else g.value(parent, key)
  return {'sel': sel, 'v': v, 'how': 'value' if rng.random() < 0.6 else 'value_fn',
          'opts': notify_opts(rng), 'pos': rng.random() < 0.2}


def _run_patch_on(api):
  def run(n, a, B):
    sel = a['sel']
    if 'regex' in sel:
      head = [sel['regex']]
    elif 'old' in sel:
      head = [sel['old']]
    elif 'type' in sel:
      head = [named_type(sel['type'])]
    else:
      head = [named_type(sel['cls']), sel['name']]
    if a['how'] == 'value':
      value, value_fn = B(a['v']), None
    else:
      value, value_fn = None, (lambda old: B(a['v']))   # a fresh value per match
    fn = getattr(pg.patching, api)
    if a['pos'] and 'skip_notification' in a['opts']:
      return fn(n, *head, value, value_fn, a['opts']['skip_notification'])
    return fn(n, *head, value=value, value_fn=value_fn, **a['opts'])
  return run


for _api in PATCH_APIS:
  O.OPS.setdefault(_api, O.Op(
      _api, 'C09', (lambda g, n, _a=_api: _gen_patch_on(g, n, _a)),
      _run_patch_on(_api), batch=True))


def _plain_path(rel):
  return all(isinstance(k, int) or (isinstance(k, str) and k.isidentifier())
             for k in rel)


def _gen_pg_patch(g, n):
  """pg.patch(value, rule) with ONE rule (a list of rules is a chain of calls)."""
  rng = g.rng
  form = rng.choice(['dict', 'dict', 'fn', 'uri-fn', 'uri-dict'])
  if form == 'dict':
    a = gen_rebind(g, n)
    if a is None:
      return None
    return {'form': 'dict', 'updates': a['updates'], 'style': a['style'], 'opts': {}}
  if form == 'fn':
    return {'form': 'fn', 'match': rng.choice(['int', 'str', 'int>3']),
            'v': g.value(None, None), 'arity': rng.choice([2, 3]), 'opts': {}}
  if form == 'uri-fn':
    ints = [v for rel in existing_targets(n, rng)
            for v in [O.node_at(n, rel)] if type(v) is int]
    old = rng.choice(ints) if ints and rng.random() < 0.8 else rng.randint(0, 3)
    new = rng.randint(-3, 9)
    uri = (f'c09_replace?old={old}&new={new}' if rng.random() < 0.6
           else f'c09_replace?{old}&{new}')
    return {'form': 'uri-fn', 'uri': uri, 'opts': {}}
  rels = [r for r in existing_targets(n, rng) if _plain_path(r)]
  if not rels:
    return None
  rel = rng.choice(rels)
  val = rng.randint(-3, 9)
  return {'form': 'uri-dict', 'uri': f'c09_set?path={pg.KeyPath(list(rel))}&v={val}',
          'updates': [[rel, ['v', val]]], 'opts': {}}


def _run_pg_patch(n, a, B):
  if a['form'] == 'dict':
    return pg.patch(n, {O.path_key(r, a['style']): B(v) for r, v in a['updates']})
  if a['form'] == 'fn':
    new = B(a['v'])
    def sel(v):
      if isinstance(v, bool):
        return False
      if a['match'] == 'int':
        return isinstance(v, int)
      if a['match'] == 'str':
        return isinstance(v, str)
      return isinstance(v, int) and v > 3
    if a['arity'] == 2:
      return pg.patch(n, lambda k, v: copy.deepcopy(new) if sel(v) else v)
    return pg.patch(n, lambda k, v, p: copy.deepcopy(new) if sel(v) else v)
  return pg.patch(n, a['uri'])


O.OPS.setdefault('pg.patch', O.Op('pg.patch', 'C09', _gen_pg_patch, _run_pg_patch,
                                  batch=True))


def _gen_clone_override(g, n):
  rels = O.no_prefix_pairs([t for t in O.rel_targets(n, g.rng, 2)
                            if not through_hyper(n, t)])
  if not rels:
    return None
  g.rng.shuffle(rels)
  ups = [[rel, g.value(O.node_at(n, rel[:-1]), rel[-1])]
         for rel in rels[:g.rng.choice([1, 1, 2])]]
  return {'deep': g.rng.random() < 0.5, 'updates': ups,
          'via': g.rng.choice(['clone', 'sym_clone', 'pg.clone']),
          'style': g.rng.choice(['raw', 'keypath', 'str']), 'opts': {}}


def _run_clone_override(n, a, B):
  override = {O.path_key(r, a['style']): B(v) for r, v in a['updates']}
  if a['via'] == 'pg.clone':
    return pg.clone(n, deep=a['deep'], override=override)
  return getattr(n, a['via'])(deep=a['deep'], override=override)


O.OPS.setdefault('clone[override=]', O.Op(
    'clone[override=]', 'C09', _gen_clone_override, _run_clone_override,
    effect='new', batch=True))


def gen_secondary_step(rng, forest, scope_p=None):
  """One call of a secondary mutating API at a uniformly chosen node."""
  nodes = [x for x in H.all_nodes(forest) if not in_hyper(forest, x[0], x[1])]
  if not nodes:
    return None
  for _ in range(10):
    ridx, keys, node = rng.choice(nodes)
    if isinstance(node, pg.Ref):
      continue
    name = rng.choice(SECONDARY_OPS)
    by_fn = name in PATCH_APIS or name == 'pg.patch'
    if by_fn and contains_hyper(node):
      continue      # a rebinder would rewrite the inside of placeholders
    g = O.GenEnv(rng, Values(forest, (ridx, keys), p_alias=0.0), forest)
    args = O.OPS[name].gen(g, node)
    if args is None:
      continue
    sc = [s for s, p in (scope_p or P_SCOPE).items() if rng.random() < p]
    step = {'op': name, 'at': [ridx, list(keys)], 'args': args,
            'scopes': explicit_notify_scopes(args, sc)}
    if 'updates' in args and name == 'pg.patch' and not rebind_ok(step, node):
      continue
    return step
  return None


def open_restored_defaults(step, target, post, w):
  """A patch_on_* call whose new value is MISSING_VALUE asks for every matched
  location to go back to its default; for a location that already holds its
  default an event is left open (as for rebind to MISSING_VALUE). Which
  locations matched is the library's business: every member below the receiver
  that the call left untouched is an OPTIONAL location of this call."""
  if step['op'] not in PATCH_APIS or step['args']['v'] != ['missing']:
    return
  ti = post.get(target)
  if ti is None:
    return
  have = {(e[0], repr(e[1])) for e in w.entries}
  for cid, info in post.info.items():
    if info.ridx == ti.ridx and info.keys[:len(ti.keys)] == ti.keys and \
        not isinstance(info.node, pg.List):
      for k, v in info.members:
        if (cid, repr(k)) not in have:
          w.entries.append((cid, k, v, v, False))


def as_rebind(step):
  """pg.patch with a dict rule (given directly or made by a patcher) writes the
  listed paths like a rebind: same model of the written locations."""
  if step['op'] == 'pg.patch' and 'updates' in step['args']:
    return dict(step, op='rebind')
  return step


def note_functor_writes(forest, post, w, suppressed, fn_written, c):
  """Collects into `fn_written` the (Info of the functor, direct?) pairs for
  every functor that holds a written location as one of its arguments (direct)
  or somewhere below one of its arguments."""
  for cid, _, old_v, new_v, _ in w.entries:
    ci = post.info.get(cid)
    if ci is None:
      continue
    for k in range(len(ci.keys) + 1):
      try:
        anc = D.resolve(forest, ci.ridx, list(ci.keys[:k]))
      except Exception:  # pylint: disable=broad-except
        break
      if not isinstance(anc, pg.Functor):
        continue
      fi, direct = post.get(anc), k == len(ci.keys)
      if fi is None:
        continue
      for j, (x, d) in enumerate(fn_written):
        if x is fi:
          fn_written[j] = (x, d or direct)
          break
      else:
        fn_written.append((fi, direct))
      if c is None:
        continue
      if not direct:
        c['writes_below_functor_args'] += 1
        continue
      c['functor_arg_writes'] += 1
      c['suppressed_functor_arg_writes'] += suppressed
      if N.is_missing(old_v) and not N.is_missing(new_v):
        c['binds_of_unbound_functor_args'] += 1
        c['suppressed_binds_of_unbound_functor_args'] += suppressed
      elif N.is_missing(new_v):
        c['functor_args_taken_back_to_unbound'] += 1


def moved_nodes(pre, post):
  """Symbolic nodes that the call left in the tree at another position."""
  out = []
  for info in pre.info.values():
    pi = post.get(info.node)
    if pi is not None and pi.ridx == info.ridx and pi.keys != info.keys:
      out.append(info.node)
  return out


def execute(forest, step, build):
  o = O.OPS[step['op']]
  node = D.resolve(forest, step['at'][0], step['at'][1])
  def B(d):
    # Operands are built inside the call expression: their construction is
    # not part of the call under observation.
    M.RECORDING[0] = False
    try:
      return build(d, forest)
    finally:
      M.RECORDING[0] = True
  M.EVENT_LOG.clear()
  M.RECORDING[0] = True
  try:
    with O.scopes(step.get('scopes', ())):
      return node, 'ok', o.run(node, step['args'], B)
  except Exception as e:  # pylint: disable=broad-except
    return node, 'raise', e
  finally:
    M.RECORDING[0] = False


def mechanism(step, status, derived):
  if derived:
    if status == 'raise':
      # A refused call of the patching API (a batch over every matching place)
      # is a class of its own: the batch may have been applied in part.
      if str(step['op']).startswith(('patch', 'pg.patch')):
        return 'rejected-call[patch-batch]'
      return 'rejected-call'
    if H.notify_suppressed(step):
      return 'notify-suppressed'
  m = step['op']
  if step['args'].get('opts', {}).get('notify_parents') is False:
    m += '@notify_parents=False'
  return m


def derived_mechanism(step, status, fn_written):
  """Mechanism of a stale derived fact. A call that wrote an argument of a
  functor, or below one, is one class of input whatever the operation: how the
  call ended / whether it notified + where the written location is."""
  if not fn_written:
    return mechanism(step, status, True)
  how = (mechanism(step, status, True) if status == 'raise' else
         'notify-suppressed' if H.notify_suppressed(step) else 'notified-write')
  return how + ('@functor-arg' if any(d for _, d in fn_written)
                else '@below-functor-arg')


# ------------------------------------- answers mutated by the caller --------
# The derived-fact getters hand plain dicts to the caller. Clearing, popping
# from or adding to such a dict (at any nesting level) is an ordinary thing for
# a caller to do with a returned plain dict; the contents of the tree did not
# change, so every derived fact of every node must still be what it was a
# moment ago (those answers have just been compared with fresh copies).

ANSWER_GETTERS = {
    'missing': ('sym_missing', 'missing_values'),
    'nondefault': ('sym_nondefault', 'non_default_values'),
}
P_TAMPER_STEP = 0.1
JUNK = '__junk__'


def copy_answer(v):
  """A caller-side copy of an answer: nested plain dicts are copied."""
  if type(v) is dict:
    return {k: copy_answer(x) for k, x in v.items()}
  return v


def copy_facts(facts):
  return {name: (st, copy_answer(v)) for name, (st, v) in facts.items()}


def mutate_answer(rng, ans, depth=0):
  """Mutates a returned dict in place at a randomly chosen nesting level.
  Returns the nesting level at which the dict was changed."""
  nested = [k for k, v in ans.items() if type(v) is dict]
  if nested and rng.random() < (0.55 if depth < 3 else 0.0):
    return mutate_answer(rng, ans[rng.choice(nested)], depth + 1)
  r = rng.random()
  if ans and r < 0.4:
    ans.clear()
  elif ans and r < 0.65:
    ans.pop(rng.choice(list(ans)))
  elif ans and r < 0.8:
    ans[rng.choice(list(ans))] = JUNK
  else:
    ans[JUNK] = JUNK
  return depth


def tamper_answers(rng, forest, c):
  """Asks one node one dict-valued derived fact (either kind, flatten both
  ways, either spelling), mutates the returned dict, and asks every node of
  that tree every fact again.

  Returns None (nothing could be asked) or (kind, flatten, problems) with
  problems = [(ridx, keys, type name, fact, before, after)]."""
  nodes = [x for x in H.all_nodes(forest)
           if not isinstance(x[2], pg.Ref) and not in_hyper(forest, x[0], x[1])]
  if not nodes:
    return None
  kind = rng.choice(sorted(ANSWER_GETTERS))
  flatten = rng.random() < 0.35
  getter = rng.choice(ANSWER_GETTERS[kind])
  # Prefer a node whose answer is not empty (7 draws), else any node.
  pick = None
  for _ in range(7):
    ridx, keys, node = rng.choice(nodes)
    try:
      if getattr(node, getter)(flatten=flatten):
        pick = (ridx, keys, node)
        break
    except Exception:  # pylint: disable=broad-except
      continue
  ridx, keys, node = pick or rng.choice(nodes)
  tree = [(ks, n) for ri, ks, n in nodes if ri == ridx]
  before = {tuple(ks): copy_facts(DV.read(n)) for ks, n in tree}
  try:
    ans = getattr(node, getter)(flatten=flatten)
  except Exception:  # pylint: disable=broad-except
    return None
  if type(ans) is not dict:
    return None
  c['returned_answers_mutated'] += 1
  c['returned_answers_mutated_nonempty'] += bool(ans)
  c['returned_answers_mutated:%s(flatten=%s)' % (kind, flatten)] += 1
  level = mutate_answer(rng, ans)
  c['returned_answers_mutated_below_top_level'] += level > 0
  problems = []
  for ks, n in tree:
    after = DV.read(n)
    for name, b in before[tuple(ks)].items():
      c['answers_reasked_after_caller_mutation'] += 1
      if not DV.facts_equal(b, after[name]):
        problems.append((ridx, list(ks), type(n).__name__, name, b, after[name]))
  return kind, flatten, problems


# ------------------------------------------------------------------ case ----

def setup(ctx):
  ctx.notes['unclassified_public_methods'] = O.unclassified_public_methods()


def cases(ctx):
  return ctx.params['cases']


def run_case(ctx, i):
  rng = ctx.rng
  c = ctx.counters
  rec = Builder(random.Random(rng.random()))
  descs, forest = make_forest(rng, rec)
  scope_p = None
  deep = rng.random() < 0.12
  if deep:
    # A root with schema-bound containers nested three deep, mostly written
    # with notifications suppressed (the caches must be kept fresh by the write
    # path alone).
    d = D.typed_obj(rng, 'DeepTyped', fill=0.9)
    descs, forest = [d], [rec.build(d)]
    scope_p = dict(P_SCOPE, notify_off=0.45)
    c['deep_typed_cases'] += 1
  rec.adopt(forest, False)
  trace, op_names = [], []
  notified_steps = derived_changed = 0
  witness = lambda: {'forest': [str(d)[:600] for d in descs], 'history': trace[-12:]}

  # A freshly built forest must already be fresh.
  # Sparse mode: between steps only some getters of some nodes are asked, so the
  # library's memos are populated in part (a reset that relies on "nothing
  # cached here means nothing cached above" is only visible then).
  sparse = rng.random() < (0.8 if deep else 0.45)
  srng = random.Random(rng.random()) if sparse else None
  if sparse:
    srng.sparse_mode = rng.choice(['half', 'one-fact@root', 'one-fact@some'])
    srng.sparse_fact = rng.choice(DV.CORE)
    c['sparse_getter_cases'] += 1
    c['sparse_mode:' + srng.sparse_mode] += 1
  ctx.label = 'derived-getters'
  pre_facts = DV.touch(forest, c, srng)
  for p in DV.check(forest, c, pre_facts)[:1]:
    ctx.violation('stale-derived', 'construction', str(p)[:600], witness())
    return
  ctx.label = None

  n_steps = rng.randint(ctx.params['steps'] // 2, ctx.params['steps'])
  moved, moved_by, follow_left = [], None, 0
  stale_origin = None     # mechanism of the step that left library paths stale
  p_shift = ctx.params.get('p_shift', 0.1)
  p_fn = ctx.params.get('p_functor_step', P_FUNCTOR_STEP)
  p_sec = ctx.params.get('p_secondary_step', P_SECONDARY_STEP)
  p_tamper = ctx.params.get('p_tamper_step', P_TAMPER_STEP)
  # (not in the sparse-getter mode: re-asking every fact would fill the memos)
  for _ in range(n_steps):
    step, aliased, follow_up = None, False, False
    if moved and follow_left > 0 and rng.random() < (0.9 if moved_by[1] else 0.35):
      # a notified write INSIDE an element that the previous call moved
      follow_left -= 1
      step, aliased = gen_step(rng, forest, FOLLOW_SCOPE, among=moved)
      follow_up = step is not None
    elif rng.random() < p_shift:
      step = gen_shift_step(rng, forest)
      c['directed_suppressed_shift_steps'] += step is not None
    elif rng.random() < p_fn:
      step = gen_functor_step(rng, forest)
      if step is not None and step['op'] == 'rebind' and not rebind_ok(
          step, D.resolve(forest, step['at'][0], step['at'][1])):
        step = None
      c['directed_functor_steps'] += step is not None
    elif rng.random() < p_sec:
      step = gen_secondary_step(rng, forest, scope_p)
    if step is None:
      step, aliased = gen_step(rng, forest, scope_p)
    if step is None:
      break
    # Every getter has been called on every node (after the previous step,
    # after construction or after a heal): all memos are populated.
    ctx.label = 'snapshot'
    pre = N.Snap(forest)
    ctx.label = step['op']
    target, status, result = execute(forest, step, rec.build)
    events = list(M.EVENT_LOG)
    ctx.label = 'snapshot'
    H.drop_moved_roots(forest)
    rec.adopt(forest, aliased or step['op'] in MAY_CLONE_OPS)
    post = N.Snap(forest)
    ctx.label = None
    op_names.append(step['op'])
    shown = O.show_step(step)
    trace.append((shown if len(shown) < 400 else shown[:400] + '…') +
                 (' -> ' + type(result).__name__ if status == 'raise' else ''))
    c['op:' + step['op']] += 1
    suppressed = H.notify_suppressed(step)
    heal = False
    fn_written = []     # functors one of whose arguments the call wrote

    if status == 'ok':
      c['steps_ok'] += 1
      if O.OPS[step['op']].batch:
        c['steps_ok_batch'] += 1
      if step['op'] == 'rebind':
        c['rebind_paths:%d' % len(step['args']['updates'])] += 1
      before = c['events_expected_and_delivered']
      w = N.written(as_rebind(step), target, pre, post, c)
      if step['op'] in SECONDARY_OPS:
        open_restored_defaults(step, target, post, w)
        c['secondary_api_steps_ok'] += 1
        c['secondary_api_steps_ok_suppressed'] += suppressed
        c['secondary_api_steps_ok_that_wrote'] += bool(w.entries or w.loose_changed)
        if step['args']['opts'].get('skip_notification') is not None:
          c['secondary_api_steps_ok_with_explicit_skip_option'] += 1
      if step['op'] == 'Functor.__delattr__' and post.get(target) is not None:
        # The location the call was asked to write: when the argument already
        # is at its default / unbound, an event for it is left open (as for a
        # rebind to MISSING_VALUE that restores an identical default).
        k = step['args']['k']
        if not any(e[0] == id(target) and e[1] == k for e in w.entries):
          w.entries.append((id(target), k, dict(pre.get(target).members).get(k, N.MISSING),
                            dict(post.get(target).members).get(k, N.MISSING), False))
      note_functor_writes(forest, post, w, suppressed, fn_written, c)
      below = target if step['args'].get('opts', {}).get(
          'notify_parents') is False else None
      if below is not None:
        c['notify_parents_false_steps'] += 1
      problems = N.check_events(events, pre, post, w, rec, c,
                                suppressed=suppressed, below_only=below)
      if not suppressed and c['events_expected_and_delivered'] > before:
        notified_steps += 1
      if follow_up:
        c['writes_inside_moved_elements'] += 1
        if moved_by[1] and not suppressed:
          c['notified_writes_inside_elements_moved_while_suppressed'] += 1
      if stale_origin is not None:
        c['steps_on_stale_library_paths'] += 1
      mv = moved_nodes(pre, post)
      if mv:
        moved, moved_by, follow_left = mv, (step['op'], suppressed), 2
        c['steps_that_moved_nodes'] += 1
        c['suppressed_steps_that_moved_nodes'] += suppressed
      elif follow_up and not suppressed:
        moved = []
      seen_key = set()
      for clause, detail, mech in problems:
        if mech is None and clause == 'payload-keys' and stale_origin is not None:
          # The library's own sym_path of a node was left stale by an earlier
          # call (observed through public sym_path): the locations of the
          # events that follow are judged against the true positions, and the
          # finding is keyed by the call that left the path stale.
          mech = stale_origin + '>stale-path'
        if (clause == 'payload-keys' and mech is None
            and str(step['op']).startswith(('patch', 'pg.patch'))
            and step['args'].get('v') == ['missing']):
          # A patch that DELETES every matching place is a batch whose
          # deletions shift the list positions of the later ones while it is
          # applied; whether the locations in the events are those before or
          # after the shift is left open by the documentation, and the
          # expected-location calculator models one write at a time. Counted,
          # not judged (found by the thorough tier: 1 case in 4000).
          c['payload_keys_unjudged:deleting-patch-batch'] += 1
          continue
        mech = mech or mechanism(step, status, False)
        if (clause, mech) in seen_key:
          continue
        seen_key.add((clause, mech))
        ctx.violation(clause, mech,
                      f'after step {len(trace)}: {trace[-1]}\n{detail}', witness())
    else:
      c['steps_rejected'] += 1
      c['rejected:' + type(result).__name__] += 1
      try:      # a rejected batch may have written some of its locations
        note_functor_writes(forest, post, N.written(as_rebind(step), target, pre, post),
                            suppressed, fn_written, None)
      except Exception:  # pylint: disable=broad-except
        c['written_of_rejected_call_not_computed'] += 1
      if events:
        c['events_of_rejected_calls'] += len(events)

    # Derived state: every getter on every node vs fresh copies.
    ctx.label = 'derived-getters'
    post_facts = DV.touch(forest, c, srng)
    if sparse:
      # After a write into a functor argument the functor and its ancestors are
      # asked every getter, whatever the sparse selection says: their answers
      # are judged right after the write that could make them stale.
      for fi, _ in fn_written:
        for k in range(len(fi.keys) + 1):
          anc = D.resolve(forest, fi.ridx, list(fi.keys[:k]))
          if isinstance(anc, pg.Symbolic) and not isinstance(anc, pg.Ref):
            post_facts[(fi.ridx, tuple(fi.keys[:k]))] = DV.read(anc)
    stale = DV.check(forest, c, post_facts)
    ctx.label = None
    c['derived_checks'] += 1
    c['derived_checks_after_functor_arg_writes'] += bool(fn_written)
    if DV.root_facts_changed(pre_facts, post_facts):
      derived_changed += 1
      c['derived_changed_steps'] += 1
    pre_facts = post_facts
    if stale:
      ridx, keys, tname, fact, live, fresh = stale[0]
      names = sorted({s[3] for s in stale})
      ctx.violation(
          'stale-derived', derived_mechanism(step, status, fn_written) +
          ('@sparse-getters' if sparse and not fn_written else ''),
          f'after step {len(trace)}: {trace[-1]}\n{len(stale)} stale answers '
          f'({names}); first: {tname} at root{ridx}{keys} {fact} = '
          f'{live[1]!r:.300}, fresh copy says {fresh[1]!r:.300}', witness())
      heal = True

    if not stale and not sparse and rng.random() < p_tamper:
      # The caller mutates a plain dict that a derived-fact getter returned.
      ctx.label = 'derived-getters'
      tampered = tamper_answers(rng, forest, c)
      ctx.label = None
      if tampered is not None and tampered[2]:
        kind, flat, probs = tampered
        ridx, keys, tname, fact, was, now = probs[0]
        names = sorted({p[3] for p in probs})
        ctx.violation(
            'stale-derived', f'caller-mutated-answer@{kind}',
            f'after step {len(trace)} the caller changed the dict returned by a '
            f'{kind} getter (flatten={flat}) of a node of root{ridx}: '
            f'{len(probs)} answers changed although the contents did not '
            f'({names}); first: {tname} at root{ridx}{keys} {fact} was '
            f'{was[1]!r:.300}, now {now[1]!r:.300}', witness())
        heal = True       # the library's memos are corrupted from here on

    tree_problems = TM.tree_ok(forest)
    if tree_problems and all(cl == 'stale-path' for cl, _ in tree_problems):
      # Only the library's own bookkeeping of positions (sym_path) is off. The
      # expectations of this monitor never use it (positions come from walking
      # the containers), so the history goes on: the next events must still
      # carry the true locations.
      c['stale_library_paths_carried_over'] += 1
      if stale_origin is None:
        stale_origin = H.mechanism(step, status, notify_matters=suppressed)
    elif tree_problems:
      c['tree_broken_after_step'] += 1      # C01's business; do not build on it
      heal = True
    else:
      stale_origin = None
    if heal:
      new = rec.heal(forest)
      c['heals'] += 1
      if any(isinstance(o, pg.Symbolic) and n is None for o, n in zip(forest, new)):
        c['abandoned_histories'] += 1
        break
      forest[:] = new
      moved, stale_origin = [], None
      pre_facts = DV.touch(forest, c, srng)
      if DV.check(forest, c, pre_facts):
        c['abandoned_histories'] += 1
        break
    if H.total_size(forest) > 300:
      break

  ctx.seen('final_shapes', TM.shape(forest))
  if notified_steps >= 3 and derived_changed >= 1:
    ctx.mark_nontrivial((tuple(op_names), TM.shape(forest)))
  if i < 2:
    ctx.sample({'forest': [str(d)[:300] for d in descs], 'history': trace[:12]})
