"""C10 — path addressing is exact: parse/format, arithmetic, lookup, traversal,
flatten/canonicalize, path sets, rebinder functions.

Four kinds of cases, chosen by `index % 20`:
  0..15  path    KeyPath print/parse round trip and arithmetic vs a tuple model
  16,17  tree    pg.traverse / pg.query / sym_descendants / lookups / flatten /
                 the path each symbolic node reports itself, on a value that is
                 freshly built, has ALIASED members (one object at several
                 paths), holds pg.Inferential members, or went through a HISTORY
                 of writes (insertion batches, JSON round trips, moves, ...)
  18     set     a history of KeyPathSet operations vs Python sets of key tuples
  19     rebind  rebind(fn) on a symbolic tree vs a model of the selected nodes
"""
import re

import pyglove as pg
from pgverif import models as M

KeyPath = pg.KeyPath
KeyPathSet = pg.utils.KeyPathSet
TA = pg.TraverseAction
DQ = pg.symbolic.DescendantQueryOption

TIERS = {
    'quick': dict(shards=8, cases=4000),
    'thorough': dict(shards=16, cases=60000),
}
RULE = ('case kind by index % 20: 16 path cases (a key sequence of 0-5 keys over '
        'non-empty strings with balanced brackets -- dots, brackets, digit-only, '
        'quotes, backslashes, "$", unicode, control characters -- and ints incl. '
        'negative; two related paths: prefix / extension / sibling / equal / '
        '"0"-vs-0 twin / random), 2 tree cases (plain, symbolic or mixed nested '
        'value, depth <= 4, <= 45 nodes, keyed with the same hostile keys; 40% '
        'freshly built, else: plain root -> 1-6 extra occurrences of a member '
        'object (container or leaf) at other paths of the plain region; symbolic '
        'root -> either pg.Inferential members (pg.Ref to outside objects / '
        'containers, ValueFromParentChain, contextual attributes, held directly by '
        'containers of ONE class per case: Dict, List or Object) or a history of '
        '1-5 writes before the traversal (insertion-only batches, growing slices, '
        'JSON round trips of the value or a part, moves with and without '
        'detaching, grafts from another tree, re-rooting, clone, list edits), the '
        'resulting value described by navigation), '
        '1 KeyPathSet history (12-30 operations on 3 sets over a small key '
        'alphabet), 1 rebind-by-function case. Non-trivial = path with >= 2 keys '
        'of which one is hostile (needs brackets, digit-only string or int) / tree '
        'with >= 6 positions and a hostile key / set history with >= 5 steps that '
        'changed a set / rebinder that selected >= 1 node; distinct by the key '
        'sequences, tree shape, operation sequence.')
REQUIRED_COUNTERS = [
    'roundtrip', 'arith', 'order_model', 'order_law', 'visit_logs', 'lookups',
    'query_checks', 'descendant_checks', 'flatten_inverse', 'rebind_fn',
    'set_steps', 'set_state_checks', 'sym_path_checks', 'shared_containers',
    'inferential_members', 'history_trees', 'absent_lookups']
ASSUMPTIONS = [
    'keys are non-empty strings with properly nested brackets, or ints (no bool, '
    'no empty string, no StrKey objects)',
    'documented ordering of keys is the model: two ints numerically, otherwise '
    'by str(key); a proper prefix sorts first',
    'plain dicts have str keys only (an int-keyed plain dict is ambiguous with a '
    'list by design); values given to flatten have no int dict key at all',
    'p + str / p - str / p == str take the string printed for a path whose round '
    'trip was verified in the same case',
    'KeyPathSet.add(include_intermediate=True) and writes through a subtree() '
    'view are not generated (not covered by the property text)',
    'sym_getattr(k) of a symbolic container / v[k] of a plain one is the trusted '
    'way to reach a node; after a history of writes sym_keys() / len() are the '
    'trusted member lists. A pg.Ref is a leaf (documented), any other '
    'inferential object is a node with its own fields',
    'the operations of a history are not judged (other properties do): one that '
    'raises ends the case, a JSON round trip is used only when it reproduces '
    'the value',
    'the fields of ContextualAttribute / ValueFromParentChain objects are not '
    'selected by rebinder functions (they are typed)',
    'absent list indices: >= len, or < -len; negative indices within range are '
    'not generated (left open)',
]

# ---------------------------------------------------------------------------
# Keys.

PLAIN_ATOMS = [
    'a', 'b', 'x', 'key', '_', 'A1', '0', '1', '10', '007', '-1', '-', ' ', '  ',
    "'", '"', '\\', '$', '$$', 'é', '日本', '²', '١', '\n', '\t', '#', '/', '*',
    ':', 'n_:1', '__tuple__', '_type', ',', '=', '{', '}', '(', ')', '\\n', '%s',
    '<', '&', '​', '\U0001F600']
FIXED_KEYS = ['a.b', '[0]', '0', '$', 'a[0]', '[a.b]', '.', '..', '[]', '[-1]',
              'x.y.z', 'a[b[c]]', '[x][y]', '[1].x', '-1', '1.5', '.a', 'a.',
              '[.]', 'a b', '[[0]]', '0.0', '[ ]', '[²]']
INT_KEYS = [0, 1, 2, 3, 10, -1, -2, -10, 99, 2 ** 40, -(2 ** 40)]
SIMPLE_KEYS = ['a', 'b', 'c', 0, 1, '0', '1', 2, 10, '10', '1a', '2']
SPECIAL = ('.', '[', ']')


def str_key(rng, depth=0):
  """A non-empty string with properly nested brackets."""
  if depth == 0 and rng.random() < 0.15:
    return rng.choice(FIXED_KEYS)
  parts = []
  for _ in range(rng.randint(1, 3)):
    q = rng.random()
    if q < 0.55 or depth >= 2:
      parts.append(rng.choice(PLAIN_ATOMS))
    elif q < 0.72:
      parts.append('.')
    else:
      inner = '' if rng.random() < 0.2 else str_key(rng, depth + 1)
      parts.append('[' + inner + ']')
  return ''.join(parts)


def any_key(rng):
  r = rng.random()
  if r < 0.3:
    return rng.choice(SIMPLE_KEYS)
  if r < 0.5:
    return rng.choice(INT_KEYS)
  return str_key(rng)


def hostile(k):
  return (isinstance(k, int) or any(c in k for c in SPECIAL)
          or k.lstrip('-').isdigit() or k == '$')


def tk(keys):
  """Type-aware form of a key sequence ('0' != 0, and never 1 == True)."""
  return tuple((type(k).__name__, k) for k in keys)


def show(keys):
  return repr(list(keys))


def outcome(fn):
  try:
    return ('ok', fn())
  except Exception as e:  # pylint: disable=broad-except
    return ('raise', e)


def norm(v):
  """Normal form of a result for comparison with the model."""
  if isinstance(v, KeyPath):
    return ('path', tk(v.keys))
  if isinstance(v, list):
    return ('keys', tk(v))
  return ('v', type(v).__name__, v)


# ---------------------------------------------------------------------------
# Path cases.

def key_cmp(a, b):
  if isinstance(a, int) and isinstance(b, int):
    return (a > b) - (a < b)
  sa, sb = str(a), str(b)
  return (sa > sb) - (sa < sb)


def path_cmp(x, y):
  for a, b in zip(x, y):
    c = key_cmp(a, b)
    if c:
      return c
  return (len(x) > len(y)) - (len(x) < len(y))


def is_prefix(x, y):
  """x is a (non-strict) prefix of y, type-aware."""
  return len(x) <= len(y) and tk(y[:len(x)]) == tk(x)


def mixed_types(*paths):
  for i, x in enumerate(paths):
    for y in paths[i + 1:]:
      for a, b in zip(x, y):
        if isinstance(a, int) != isinstance(b, int):
          return True
  return False


def related(rng, ks):
  mode = rng.choice(['equal', 'prefix', 'extension', 'sibling', 'twin', 'renumber',
                     'random', 'random'])
  ks = list(ks)
  if mode == 'renumber':
    idx = [i for i, k in enumerate(ks) if isinstance(k, int)]
    if idx:
      i = rng.choice(idx)
      ks[i] = rng.choice([k for k in INT_KEYS + [20, 100, -20] if k != ks[i]])
      return mode, ks
    mode = 'sibling'
  if mode == 'equal':
    return mode, list(ks)
  if mode == 'prefix' and ks:
    return mode, ks[:rng.randint(0, len(ks) - 1)]
  if mode == 'extension':
    return mode, ks + [any_key(rng) for _ in range(rng.randint(1, 2))]
  if mode == 'twin' and ks:
    idx = [i for i, k in enumerate(ks)
           if isinstance(k, int) or re.fullmatch(r'-?(0|[1-9][0-9]*)', k)]
    if idx:
      i = rng.choice(idx)
      ks[i] = str(ks[i]) if isinstance(ks[i], int) else int(ks[i])
      return mode, ks
  if mode in ('sibling', 'twin', 'prefix') and ks:
    i = rng.randint(0, len(ks) - 1)
    tail = [any_key(rng) for _ in range(rng.randint(1, 2))]
    return 'sibling', ks[:i] + tail
  return 'random', [any_key(rng) for _ in range(rng.randint(0, 4))]


def make_path(rng, ks):
  """Builds KeyPath(ks) through one of the public construction forms."""
  ks = list(ks)
  form = rng.randint(0, 4)
  if form == 0 or not ks:
    return 'ctor[list]', KeyPath(list(ks))
  if form == 1:
    return 'ctor[tuple]', KeyPath(tuple(ks))
  if form == 2:
    k = rng.randint(0, len(ks))
    return 'ctor[parent]', KeyPath(ks[k:], KeyPath(ks[:k]))
  if form == 3:
    p = KeyPath()
    for k in ks:
      p = KeyPath(k, p)
    return 'ctor[key,parent]', p
  p = KeyPath()
  for k in ks:
    p = p + KeyPath([k])
  return 'add[KeyPath]', p


def path_case(ctx, i):
  rng, c = ctx.rng, ctx.counters
  if rng.random() < 0.3:
    ks = [rng.choice(SIMPLE_KEYS) for _ in range(rng.randint(0, 4))]
  else:
    ks = [any_key(rng) for _ in range(rng.randint(0, 5))]
  mode, qs = related(rng, ks)
  _, rs = related(rng, rng.choice([ks, qs]))
  case = {'p': show(ks), 'q': show(qs), 'r': show(rs), 'relation': mode}

  def bad(clause, mech, detail):
    ctx.violation(clause, mech, f'p={show(ks)} q={show(qs)} r={show(rs)}\n{detail}', case)

  ctx.label = 'KeyPath()'
  form, p = make_path(rng, ks)
  _, q = make_path(rng, qs)
  _, r = make_path(rng, rs)
  ctx.label = None
  c['arith'] += 1
  if tk(p.keys) != tk(ks):
    bad('arith', form.split('[')[0], f'{form}: constructed keys {p.keys!r}')
    p = KeyPath(list(ks))

  # -- print / parse ----------------------------------------------------------
  strs = {}
  for name, path, keys in (('p', p, ks), ('q', q, qs), ('r', r, rs)):
    c['roundtrip'] += 1
    o = outcome(lambda: KeyPath.parse(str(path)))  # pylint: disable=cell-var-from-loop
    if o[0] == 'raise':
      bad('roundtrip', 'parse-str', f'parse(str({name})) raised {o[1]!r}; '
          f'str={outcome(lambda: str(path))!r}')  # pylint: disable=cell-var-from-loop
    elif tk(o[1].keys) != tk(keys):
      bad('roundtrip', 'parse-str', f'str({name})={str(path)!r} parsed back to {o[1].keys!r}')
    else:
      strs[name] = str(path)
      if o[1] != path or not o[1] == path:
        bad('roundtrip', 'eq', f'parse(str({name})) has the same keys but != {name}')
  if 'p' in strs and 'q' in strs:
    c['roundtrip'] += 1
    if (strs['p'] == strs['q']) != (tk(ks) == tk(qs)):
      bad('roundtrip', 'str-not-injective', f'str(p)={strs["p"]!r} str(q)={strs["q"]!r}')
    c['roundtrip'] += 1
    o = outcome(lambda: KeyPath.parse(strs['q'], parent=p))
    if o[0] == 'raise' or tk(o[1].keys) != tk(ks + qs):
      bad('roundtrip', 'parse[parent]', f'parse(str(q), parent=p) -> {o!r}')

  # -- accessors and arithmetic vs the tuple model ----------------------------
  failed = set()

  def chk(mech, fn, exp, family=None):
    """exp: ('ok', normal form) | ('raise', exception class).

    The violation key names the operation family (`sub`, not `sub[str]`), once
    per case; the operand form is in the detail."""
    c['arith'] += 1
    family = family or mech.split('[')[0]
    if family in failed:
      return
    got = outcome(fn)
    if exp[0] == 'raise':
      ok = got[0] == 'raise' and isinstance(got[1], exp[1])
    else:
      ok = got[0] == 'ok' and norm(got[1]) == exp[1]
    if not ok:
      shown = got if got[0] == 'raise' else ('ok', norm(got[1]))
      failed.add(family)
      bad('arith', family, f'{mech}: expected {exp!r} got {shown!r}')

  P = lambda keys: ('ok', ('path', tk(keys)))
  V = lambda v: ('ok', ('v', type(v).__name__, v))
  chk('keys', lambda: p.keys, ('ok', ('keys', tk(ks))))
  chk('depth', lambda: p.depth, V(len(ks)))
  chk('len', lambda: len(p), V(len(ks)))
  chk('is_root', lambda: p.is_root, V(not ks))
  chk('key', lambda: KeyPath([p.key]), P(ks[-1:]) if ks else ('raise', KeyError))
  chk('parent', lambda: p.parent, P(ks[:-1]) if ks else ('raise', KeyError))
  chk('add[KeyPath]', lambda: p + q, P(ks + qs))
  chk('add[None]', lambda: p + None, P(ks))
  chk('from_value[KeyPath]', lambda: KeyPath.from_value(q), P(qs))
  if 'q' in strs:
    chk('add[str]', lambda: p + strs['q'], P(ks + qs))
    chk('from_value[str]', lambda: KeyPath.from_value(strs['q']), P(qs))
    chk('eq[str]', lambda: ((p == strs['q']), (p != strs['q'])),
        V((tk(ks) == tk(qs), tk(ks) != tk(qs))))
  ik = rng.choice(INT_KEYS)
  chk('add[int]', lambda: p + ik, P(ks + [ik]))
  chk('from_value[int]', lambda: KeyPath.from_value(ik), P([ik]))
  pre = is_prefix(qs, ks)
  sub_exp = P(ks[len(qs):]) if pre else ('raise', ValueError)
  chk('sub[KeyPath]', lambda: p - q, sub_exp)
  chk('sub[None]', lambda: p - None, P(ks))
  chk('is_relative_to[KeyPath]', lambda: p.is_relative_to(q), V(pre))
  if 'q' in strs:
    chk('sub[str]', lambda: p - strs['q'], sub_exp)
    chk('is_relative_to[str]', lambda: p.is_relative_to(strs['q']), V(pre))
  if len(qs) == 1 and isinstance(qs[0], int):
    chk('sub[int]', lambda: p - qs[0], sub_exp)
    chk('is_relative_to[int]', lambda: p.is_relative_to(qs[0]), V(pre))
  if pre:
    chk('q + (p - q)', lambda: q + (p - q), P(ks), 'sub')
  chk('(p + q) - p', lambda: (p + q) - p, P(qs), 'sub')
  same = tk(ks) == tk(qs)
  chk('eq', lambda: ((p == q), (p != q), (q == p)), V((same, not same, same)))
  if same:
    chk('hash', lambda: hash(p) == hash(q), V(True))
    if 'p' in strs:
      chk('hash[str]', lambda: {p: 1}.get(strs['p']), V(1))

  # -- ordering: documented model, then the laws of an ordering ---------------
  cm = path_cmp(ks, qs)
  for mech, fn, exp in (('<', lambda: p < q, cm < 0), ('<=', lambda: p <= q, cm <= 0),
                        ('>', lambda: p > q, cm > 0), ('>=', lambda: p >= q, cm >= 0)):
    c['order_model'] += 1
    got = outcome(fn)
    if got[0] == 'raise' or got[1] is not exp:
      bad('order-model', 'compare', f'p {mech} q: documented key order gives {exp}, got {got!r}')
      break
  o = outcome(lambda: (p < q, p > q, p == q, p <= q, p >= q, q < p, q > p,
                       q < r, p < r, p <= r, q <= r))
  if o[0] == 'ok':
    lt, gt, eq, le, ge, qlt, qgt, q_lt_r, p_lt_r, p_le_r, q_le_r = o[1]
    law_mech = lambda *paths: ('mixed-int-str-keys' if mixed_types(*paths)
                               else 'same-type-keys')
    c['order_law'] += 4
    if [lt, gt, eq].count(True) != 1:
      bad('order-law', law_mech(ks, qs), f'trichotomy: p<q={lt} p>q={gt} p==q={eq}')
    elif le != (lt or eq) or ge != (gt or eq):
      bad('order-law', law_mech(ks, qs), f'<= is not (< or ==): p<=q={le} p>=q={ge} '
          f'p<q={lt} p>q={gt} p==q={eq}')
    if lt != qgt or gt != qlt:
      bad('order-law', law_mech(ks, qs), f'p<q={lt} but q>p={qgt}; p>q={gt} but q<p={qlt}')
    if lt and q_lt_r and not p_lt_r:
      bad('order-law', law_mech(ks, qs, rs), 'transitivity: p<q and q<r but not p<r')
    if le and q_le_r and not p_le_r:
      bad('order-law', law_mech(ks, qs, rs), 'transitivity: p<=q and q<=r but not p<=r')

  # -- operands are immutable -------------------------------------------------
  c['arith'] += 1
  keys_copy = p.keys
  keys_copy.append('mutated')
  if tk(p.keys) != tk(ks) or tk(q.keys) != tk(qs) or ('p' in strs and str(p) != strs['p']):
    bad('arith', 'operand-mutated', f'after the operations p.keys={p.keys!r} q.keys={q.keys!r}')

  ctx.seen('key_sequences', tk(ks))
  if len(ks) >= 2 and any(hostile(k) for k in ks):
    ctx.mark_nontrivial(('path', tk(ks), tk(qs)))
  if want_sample(ctx, i, 0):
    ctx.sample({'kind': 'path', **case, 'str(p)': strs.get('p')})


DOC_EXAMPLES = [
    ('', []), ('a', ['a']), ('a.b', ['a', 'b']), ('a[0]', ['a', 0]),
    ('a.0.', ['a', '0']), ('a[0][1]', ['a', 0, 1]), ('a[x.y].b', ['a', 'x.y', 'b']),
]


# ---------------------------------------------------------------------------
# Nested values.

OBJ_CLASSES = ['Any2', 'Writable', 'Notifier']
LEAVES = [0, 1, -3, 7, 'a', 'a.b', '[0]', '', 'text', None, True, False, 0.5, -2.0,
          (), (1, 2), ('t', (3,)), 10 ** 12]


def gen_leaf(rng, opts=None):
  if rng.random() < 0.08 and not (opts and opts.get('json_leaves')):
    return {'t': 'v', 'v': M.Leaf(rng.randint(0, 3))}
  return {'t': 'v', 'v': rng.choice(LEAVES)}


def describe(v):
  """Description of an existing value by trusted navigation (sym_keys /
  sym_getattr of symbolic containers, keys / indices of plain ones). A pg.Ref
  is a leaf ("treated as leaf nodes in the symbolic tree"); any other
  pg.Object is a container of its symbolic fields."""
  if isinstance(v, pg.Ref) or not isinstance(v, (dict, list, pg.Object)):
    return {'t': 'v', 'v': v}
  if isinstance(v, pg.Object):
    return {'t': 'O', 'sym': True, 'cls': type(v).__name__,
            'items': [(k, describe(v.sym_getattr(k))) for k in v.sym_keys()]}
  sym = isinstance(v, pg.Symbolic)
  if isinstance(v, dict):
    keys = list(v.sym_keys()) if sym else list(v)
    return {'t': 'D', 'sym': sym,
            'items': [(k, describe(v.sym_getattr(k) if sym else v[k])) for k in keys]}
  return {'t': 'L', 'sym': sym,
          'items': [describe(v.sym_getattr(j) if sym else v[j]) for j in range(len(v))]}


def prebuilt(obj):
  d = describe(obj)
  d['obj'] = obj
  return d


def gen_inferential(rng, opts):
  """A pg.Inferential member: pg.Ref to an object / symbolic or plain container
  outside the tree (also one referenced object under several Refs),
  ValueFromParentChain, contextual attribute."""
  ext = opts.setdefault('ext', [])
  r = rng.random()
  if r < 0.6:
    q = rng.random()
    if ext and q < 0.3:
      target = rng.choice(ext)
    else:
      inner = rng.choice([1, 'a', [2, {'k': 3}], {'a.b': [4]}])
      target = rng.choice([
          lambda: M.Any2(x=inner, y=rng.choice(LEAVES)),
          lambda: pg.Dict({rng.choice(['a', 'x', '0', 'a.b']): inner, 'y': 2}),
          lambda: pg.List([inner, 5]),
          lambda: {'a': inner, 'x': [1]},
          lambda: [inner, {'x': 1}]])()
      ext.append(target)
    return {'t': 'v', 'v': pg.Ref(target)}
  if r < 0.8:
    return prebuilt(pg.symbolic.ValueFromParentChain())
  if r < 0.9:
    return prebuilt(pg.contextual_attribute())
  return prebuilt(pg.contextual_attribute(default=rng.choice([3, 'd', None])))


def gen_keys(rng, n, ints):
  out = []
  for _ in range(n):
    r = rng.random()
    if ints and r < 0.25:
      k = rng.choice(INT_KEYS + [0, 1, 2])
    elif r < 0.5:
      k = rng.choice(['a', 'b', 'c', 'd', 'x', 'y', '0', '1'])
    else:
      k = str_key(rng)
    if tk([k]) not in [tk([o]) for o in out]:
      out.append(k)
  return out


def printable(ctx, keys, report):
  """str(KeyPath(keys)) if it parses back to the same keys, else None.

  Checks that address nodes through printed paths (pg.query results,
  sym_get(str), flatten keys, rebinder dictionaries, str arguments of
  KeyPathSet) assume the round trip; when it fails the failure is reported as
  such and those checks are skipped."""
  ctx.counters['roundtrip'] += 1
  o = outcome(lambda: str(KeyPath(list(keys))))
  o2 = outcome(lambda: KeyPath.parse(o[1])) if o[0] == 'ok' else o
  if o2[0] == 'ok' and tk(o2[1].keys) == tk(keys):
    return o[1]
  report('roundtrip', 'parse-str', f'keys {show(keys)} print as {o[1]!r:.200} which gives '
         f'{o2[1].keys if o2[0] == "ok" else o2[1]!r}')
  return None


class Budget:
  def __init__(self, n):
    self.n = n


def gen_tree(rng, depth, sym, budget, opts, root=False, holder=None):
  """A value description: {'t': 'D'|'L'|'O'|'v', 'sym': bool, 'items': [...]}.

  opts['inferential'] = 'D'|'L'|'O': pg.Inferential members are generated,
  held directly by symbolic containers of that one kind."""
  inf = opts.get('inferential')
  if inf and sym and holder == inf and rng.random() < 0.3:
    return gen_inferential(rng, opts)
  if not root and (depth >= opts['maxdepth'] or budget.n <= 0 or rng.random() < 0.45):
    return gen_leaf(rng, opts)
  kinds = ['D', 'D', 'L']
  if opts['objects']:
    kinds.append('O')
  t = rng.choice(opts['root_kinds'] if root else kinds)
  if t == 'O':
    sym = True
  elif not sym and not root and rng.random() < opts['sym_subtree']:
    sym = True
  n = rng.choice([0, 1, 2, 2, 3, 3, 4, 5]) if not root else rng.randint(1, 5)
  budget.n -= n
  child = lambda: gen_tree(rng, depth + 1, sym, budget, opts, holder=t)
  if inf == 'O' and t == 'O' and rng.random() < 0.3:
    # contextual objects: the child's attribute is a contextual attribute
    return prebuilt(M.CtxParent(v=rng.choice(LEAVES), child=M.CtxChild()))
  if t == 'D':
    keys = gen_keys(rng, n, ints=sym and opts['int_keys'])
    return {'t': 'D', 'sym': sym, 'items': [(k, child()) for k in keys]}
  if t == 'L':
    if rng.random() < 0.06:      # indices >= 10 ('[10]' sorts before '[2]' as text)
      extra = rng.randint(10, 13) - n
      budget.n -= extra
      return {'t': 'L', 'sym': sym,
              'items': [child() for _ in range(n)] + [gen_leaf(rng, opts) for _ in range(extra)]}
    return {'t': 'L', 'sym': sym, 'items': [child() for _ in range(n)]}
  return {'t': 'O', 'sym': True, 'cls': rng.choice(OBJ_CLASSES),
          'items': [('x', child()), ('y', child())]}


class BuildFailed(Exception):
  """A symbolic container could not be constructed from valid members."""

  def __init__(self, cls, error, members):
    super().__init__(cls, error, members)
    self.cls, self.error, self.members = cls, error, members


def construct(name, fn, members):
  try:
    return fn()
  except Exception as e:  # pylint: disable=broad-except
    raise BuildFailed(name, e, members) from e


def build(d, memo=None):
  """The value of a description. A description node that occurs at several
  places (see `graft_aliases`) is built once: the same object at every place."""
  t = d['t']
  if t == 'v':
    return d['v']
  if 'obj' in d:
    return d['obj']
  memo = {} if memo is None else memo
  if id(d) in memo:
    return memo[id(d)]
  if t == 'D':
    v = {k: build(ch, memo) for k, ch in d['items']}
    out = construct('pg.Dict', lambda: pg.Dict(v), v) if d['sym'] else v
  elif t == 'L':
    v = [build(ch, memo) for ch in d['items']]
    out = construct('pg.List', lambda: pg.List(v), v) if d['sym'] else v
  else:
    kw = {k: build(ch, memo) for k, ch in d['items']}
    out = construct('pg.Object', lambda: getattr(M, d['cls'])(**kw), kw)
  memo[id(d)] = out
  return out


def graft_aliases(rng, d):
  """Puts description nodes of a plain region at further places of it, so that
  the built value holds the SAME object (plain or symbolic container, leaf
  object) at several paths. Returns the number of extra occurrences."""
  def below(n, acc):
    acc.add(id(n))
    for _, ch in children(n):
      if id(ch) not in acc:
        below(ch, acc)
    return acc

  n_alias = 0
  for _ in range(rng.randint(1, 3)):
    conts, donors = [], []

    def walk(n):
      if n['t'] in 'DL' and not n['sym'] and id(n) not in [id(c) for c in conts]:
        conts.append(n)
        for _, ch in children(n):
          donors.append(ch)
          walk(ch)
    walk(d)
    big = [x for x in donors if x['t'] != 'v' and children(x)]
    if not donors:
      break
    donor = rng.choice(big) if big and rng.random() < 0.75 else rng.choice(donors)
    if len(positions(donor)) > 12:
      continue
    inside = below(donor, set())
    targets = [c for c in conts if id(c) not in inside]
    if not targets:
      continue
    for t in rng.sample(targets, min(len(targets), rng.choice([1, 1, 2]))):
      if len(positions(d)) > 90:
        break
      if t['t'] == 'D':
        have = [tk([k]) for k, _ in t['items']]
        k = rng.choice(['al', 'a', 'z', 'a.b', '0', str_key(rng)])
        if tk([k]) in have:
          continue
        t['items'].insert(rng.randint(0, len(t['items'])), (k, donor))
      else:
        t['items'].insert(rng.randint(0, len(t['items'])), donor)
      n_alias += 1
  return n_alias


def build_root(ctx, d):
  """Builds the value; a failing constructor is a violation and ends the case."""
  ctx.counters['constructions'] += 1
  try:
    return build(d)
  except BuildFailed as e:
    ctx.violation('construct-raises', e.cls,
                  f'{e.cls}({e.members!r:.300}) raised {e.error!r}', {'value': show_desc(d)})
    return None


def children(d):
  if d['t'] == 'D' or d['t'] == 'O':
    return list(d['items'])
  if d['t'] == 'L':
    return list(enumerate(d['items']))
  return []


def positions(d, prefix=()):
  """Pre-order [(keys, description)] of every position, the root included."""
  out = [(prefix, d)]
  for k, ch in children(d):
    out.extend(positions(ch, prefix + (k,)))
  return out


def nav(root, keys):
  """Trusted navigation by item access."""
  n = root
  for k in keys:
    n = n.sym_getattr(k) if isinstance(n, pg.Symbolic) else n[k]
  return n


def cls_name(v):
  if isinstance(v, pg.Object):
    return 'Object'
  return type(v).__name__ if isinstance(v, (dict, list)) else 'leaf'


def show_desc(d):
  t = d['t']
  if t == 'v':
    return repr(d['v'])
  s = 'pg.' if d['sym'] and t != 'O' else ''
  if t == 'D':
    return s + 'D{' + ', '.join(f'{k!r}: {show_desc(ch)}' for k, ch in d['items']) + '}'
  if t == 'L':
    return s + 'L[' + ', '.join(show_desc(ch) for ch in d['items']) + ']'
  return d['cls'] + '(' + ', '.join(f'{k}={show_desc(ch)}' for k, ch in d['items']) + ')'


def shape(d):
  if d['t'] == 'v':
    return 'v'
  return (d['t'], d['sym'], tuple((k if d['t'] != 'L' else None, shape(ch))
                                  for k, ch in children(d)))


def same(a, b):
  """Type-aware structural equality of plain values."""
  if isinstance(a, pg.Object) or isinstance(b, pg.Object):
    return a is b
  if type(a) is not type(b):
    return False
  if isinstance(a, dict):
    if len(a) != len(b):
      return False
    ka = {tk([k]): k for k in a}
    kb = {tk([k]): k for k in b}
    return set(ka) == set(kb) and all(same(a[ka[t]], b[kb[t]]) for t in ka)
  if isinstance(a, (list, tuple)):
    return len(a) == len(b) and all(same(x, y) for x, y in zip(a, b))
  return a == b


def to_plain(v):
  """dict/list subclasses (pg.Dict/pg.List) as plain containers, rest as is."""
  if isinstance(v, dict):
    return {k: to_plain(x) for k, x in v.items()}
  if isinstance(v, list):
    return [to_plain(x) for x in v]
  return v


def family(entry):
  """Violation keys name the entry point, not the variant of its options."""
  return entry if entry == 'rebind[fn]' else entry.split('[')[0]


def check_log(ctx, report, variant, root, log, expected, offset=(), shared=(), remap=None):
  """An identity-based visit log [(KeyPath, value, parent)] against the expected
  positions {keys: node}: completeness, uniqueness, path leads back, parent.

  shared: ids of containers that occur at more than one position (a missing
  member of such a container is keyed `.../shared`); remap(clause, mech, keys)
  may re-key a violation from the position it concerns."""
  c = ctx.counters
  c['visit_logs'] += 1
  c['visited_nodes'] += len(log)
  seen = {}
  entry = family(variant)

  def bad(clause, mech, detail, keys=None):
    if remap is not None and keys is not None:
      clause, mech = remap(clause, mech, keys)
    report(clause, mech, f'{variant}: {detail}')
  for path, value, parent in log:
    keys = tuple(path.keys)
    t = tk(keys)
    rel = keys[len(offset):]
    if t in seen:
      bad('visit-duplicate', entry, f'{show(keys)} visited twice', rel)
      continue
    seen[t] = keys
    if tk(keys[:len(offset)]) != tk(offset) or tk(rel) not in expected:
      bad('visit-extra', entry, f'reported path {show(keys)} is not a position of the value', rel)
      continue
    node = expected[tk(rel)][1]
    if value is not node:
      bad('visit-path', entry, f'path {show(keys)} reported for {value!r:.80}, '
          f'item access gives {node!r:.80}', rel)
    if parent is not Ellipsis:
      exp_parent = nav(root, rel[:-1]) if rel else None
      if parent is not exp_parent:
        bad('visit-parent', entry, f'at {show(keys)} parent is {parent!r:.80}', rel)
  for t, (keys, node) in expected.items():
    if tk(offset + keys) not in seen:
      if keys and tk(keys[:-1]) in expected and tk(offset + keys[:-1]) not in seen:
        continue          # reported for the topmost missing position only
      # pg.traverse: the key names the class of the container whose member
      # was not visited.
      holder = nav(root, keys[:-1]) if keys else None
      par = ('/' + (cls_name(holder) if keys else 'root')
             if entry == 'pg.traverse' else '')
      if keys and id(holder) in shared:
        par = '/shared'     # whatever its class: the holder is at several paths
      bad('visit-missing', entry + par, f'position {show(keys)} ({node!r:.60}) not visited', keys)


# ---------------------------------------------------------------------------
# Histories of writes applied to a symbolic value before it is traversed. The
# operations are not modelled: the value they leave is described afterwards by
# trusted navigation (`describe`), and an operation that raises ends the case
# (what a write does belongs to other properties).

def live_positions(root):
  out = []

  def walk(v, keys):
    out.append((keys, v))
    if isinstance(v, pg.Ref):
      return
    if isinstance(v, (pg.Object, pg.Dict)):
      for k in list(v.sym_keys()):
        walk(v.sym_getattr(k), keys + (k,))
    elif isinstance(v, pg.List):
      for j in range(len(v)):
        walk(v.sym_getattr(j), keys + (j,))
  walk(root, ())
  return out


def print_path(keys):
  """The printed path when it parses back to the same keys, else None."""
  o = outcome(lambda: str(KeyPath(list(keys))))
  o2 = outcome(lambda: KeyPath.parse(o[1])) if o[0] == 'ok' else o
  return o[1] if o2[0] == 'ok' and tk(o2[1].keys) == tk(keys) else None


def is_within(node, anc):
  while node is not None:
    if node is anc:
      return True
    node = node.sym_parent
  return False


def fresh_value(rng, opts, container=False):
  sub = dict(opts, maxdepth=2)
  d = gen_tree(rng, 0, True, Budget(6), sub, root=container or rng.random() < 0.7)
  return build(d)


def detach(root, keys):
  parent, k = nav(root, keys[:-1]), keys[-1]
  if isinstance(parent, pg.Object):
    parent.rebind({k: None})
  else:
    del parent[k]


def place(rng, dest, node):
  if isinstance(dest, pg.Object):
    dest.rebind({rng.choice(['x', 'y']): node})
  elif isinstance(dest, pg.Dict):
    have = list(dest.sym_keys())
    k = rng.choice(have) if have and rng.random() < 0.3 else gen_keys(rng, 1, True)[0]
    if rng.random() < 0.5:
      dest[k] = node
    else:
      dest.rebind({KeyPath([k]): node})
  else:
    n = len(dest)
    r = rng.random()
    if n and r < 0.25:
      dest[rng.randrange(n)] = node
    elif r < 0.5:
      dest.insert(rng.randint(0, n), node)
    elif r < 0.75:
      dest.rebind({rng.randint(0, n): pg.Insertion(node)})
    else:
      dest.append(node)


def h_insertion(rng, root, pos, opts):
  """A batch that only inserts into a list (pg.Insertion, growing slice)."""
  lists = [(k, n) for k, n in pos if isinstance(n, pg.List)]
  if not lists:
    return None
  keys, lst = rng.choice(lists)
  n = len(lst)
  j = rng.randrange(n) if n and rng.random() < 0.85 else n
  v = fresh_value(rng, opts)
  form = rng.randint(0, 5)
  s = print_path(keys + (j,))
  if form == 0 or (form in (1, 5) and s is None):
    lst.rebind({j: pg.Insertion(v)})
  elif form == 1:
    root.rebind({s: pg.Insertion(v)})
  elif form == 2:
    lst[j:j] = [v, fresh_value(rng, opts)]
  elif form == 3:
    lst[j:j + 1] = [v, fresh_value(rng, opts)]
  elif form == 4:
    lst.insert(j, v)
  else:
    # together with a plain update in a container that is not below the list
    others = [(k2, n2) for k2, n2 in pos if isinstance(n2, pg.Dict)
              and tk(k2[:len(keys)]) != tk(keys)]
    batch = {s: pg.Insertion(v)}
    if others:
      k2, _ = rng.choice(others)
      s2 = print_path(k2 + ('hk',))
      if s2 is not None:
        batch[s2] = rng.choice(LEAVES[:8])
    root.rebind(batch)
  return root


def h_json(rng, root, pos, opts):
  """JSON round trip of the value or of a part (kept when it reproduces it)."""
  conts = [(k, n) for k, n in pos if k and isinstance(n, (pg.Dict, pg.List, pg.Object))]
  if conts and rng.random() < 0.4:
    keys, node = rng.choice(conts)
  else:
    keys, node = (), root
  # (the round trip itself is another property's concern: it is used only when
  # it reproduces the value; converting does not change `node`)
  if rng.random() < 0.5:
    o = outcome(lambda: pg.from_json(node.to_json()))
  else:
    o = outcome(lambda: pg.from_json_str(node.to_json_str()))
  if o[0] == 'raise' or to_model(o[1]) != to_model(node):
    return None
  new = o[1]
  if not keys:
    return new
  parent = nav(root, keys[:-1])
  if isinstance(parent, pg.Object) or rng.random() < 0.5:
    parent.rebind({KeyPath([keys[-1]]): new})
  else:
    parent[keys[-1]] = new
  return root


def h_move(rng, root, pos, opts):
  """A sub-tree is stored at another place (detached first, or copied by the
  library because it still has a parent)."""
  conts = [(k, n) for k, n in pos if k and isinstance(n, (pg.Dict, pg.List, pg.Object))]
  if not conts:
    return None
  keys, node = rng.choice(conts)
  dests = [n for _, n in pos if isinstance(n, (pg.Dict, pg.List, pg.Object))
           and not is_within(n, node)]
  if not dests:
    return None
  dest = rng.choice(dests)
  if rng.random() < 0.5:
    detach(root, keys)
  place(rng, dest, node)
  return root


def h_graft(rng, root, pos, opts):
  """A sub-tree of ANOTHER tree is stored in this one."""
  other = fresh_value(rng, dict(opts, maxdepth=3), container=True)
  conts = [(k, n) for k, n in live_positions(other)
           if k and isinstance(n, (pg.Dict, pg.List, pg.Object))]
  if conts and rng.random() < 0.7:
    keys, node = rng.choice(conts)
    if rng.random() < 0.5:
      detach(other, keys)
  else:
    node = other
  dests = [n for _, n in pos if isinstance(n, (pg.Dict, pg.List, pg.Object))]
  place(rng, rng.choice(dests), node)
  return root


def h_reroot(rng, root, pos, opts):
  """The value becomes a member of a new root, or a part becomes the root."""
  conts = [(k, n) for k, n in pos if k and isinstance(n, (pg.Dict, pg.List, pg.Object))]
  if conts and rng.random() < 0.5:
    keys, node = rng.choice(conts)
    detach(root, keys)
    return node
  r = rng.random()
  if r < 0.4:
    return pg.Dict({gen_keys(rng, 1, True)[0]: root, 'w': 1})
  if r < 0.8:
    return pg.List([rng.choice(LEAVES[:8]), root])
  return M.Any2(x=root)


def h_clone(rng, root, pos, opts):
  import copy  # pylint: disable=import-outside-toplevel
  r = rng.random()
  return root.clone(deep=True) if r < 0.5 else copy.deepcopy(root) if r < 0.8 else root.clone()


def h_listop(rng, root, pos, opts):
  lists = [(k, n) for k, n in pos if isinstance(n, pg.List) and len(n)]
  if not lists:
    return None
  _, lst = rng.choice(lists)
  j = rng.randrange(len(lst))
  op = rng.randint(0, 4)
  if op == 0:
    lst.pop(j)
  elif op == 1:
    del lst[j]
  elif op == 2:
    lst.reverse()
  elif op == 3:
    lst.rebind({j: pg.MISSING_VALUE})
  else:
    lst.extend([fresh_value(rng, opts)])
  return root


def h_replace(rng, root, pos, opts):
  cands = [k for k, _ in pos if k]
  if not cands:
    return None
  keys = rng.choice(cands)
  parent, v = nav(root, keys[:-1]), fresh_value(rng, opts)
  s = print_path(keys)
  if s is not None and rng.random() < 0.5:
    root.rebind({s: v})
  elif isinstance(parent, pg.Object):
    parent.rebind({keys[-1]: v})
  else:
    parent[keys[-1]] = v
  return root


HISTORY_OPS = [('insertion', h_insertion), ('insertion', h_insertion), ('json', h_json),
               ('json', h_json), ('move', h_move), ('graft', h_graft), ('reroot', h_reroot),
               ('clone', h_clone), ('listop', h_listop), ('replace', h_replace)]


def history(ctx, rng, root, opts):
  """Applies 1-5 operations; (root, names of the applied ones) or (None, ...)."""
  names = []
  for _ in range(rng.randint(1, 5)):
    name, fn = rng.choice(HISTORY_OPS)
    pos = live_positions(root)
    if len(pos) > 90:
      break
    ctx.counters['history_steps'] += 1
    o = outcome(lambda: fn(rng, root, pos, opts))  # pylint: disable=cell-var-from-loop
    if o[0] == 'raise':
      ctx.counters['history_op_raised'] += 1
      ctx.counters['history_op_raised:' + name] += 1
      ctx.notes.setdefault('history_op_raised', f'{name}: {o[1]!r:.200}')
      return None, names
    if o[1] is None:
      continue
    if not isinstance(o[1], (pg.Dict, pg.List, pg.Object)):
      return None, names
    root = o[1]
    names.append(name)
    ctx.counters['history_op:' + name] += 1
  return root, names


def tree_case(ctx, i):
  try:
    tree_case_(ctx, i)
  except EndCase:
    ctx.label = None


def tree_case_(ctx, i):
  """Flavours: a freshly built plain / symbolic / mixed value; a plain value
  with ALIASED members (one object at several paths); a symbolic value with
  pg.Inferential members; a symbolic value that went through a HISTORY of
  writes (insertion batches, JSON round trips, moves, re-rooting) first."""
  rng, c = ctx.rng, ctx.counters
  root_sym = rng.random() < 0.5
  flat_mode = rng.random() < 0.5          # shape eligible for flatten/canonicalize
  r = rng.random()
  flavour = ('fresh' if r < 0.4 else
             'alias' if not root_sym else 'inferential' if r < 0.7 else 'history')
  opts = dict(maxdepth=rng.randint(2, 4), objects=True,
              int_keys=not flat_mode, sym_subtree=0.2,
              root_kinds=['D', 'D', 'L'] if flat_mode or not root_sym else ['D', 'L', 'O'])
  if flavour == 'inferential':
    opts['inferential'] = rng.choice('DLO')
    if opts['inferential'] == 'O':
      opts['root_kinds'] = ['D', 'L', 'O', 'O']
  elif flavour == 'history':
    opts['json_leaves'] = True
  d = gen_tree(rng, 0, root_sym, Budget(40), opts, root=True)
  n_alias = graft_aliases(rng, d) if flavour == 'alias' else 0
  root = build_root(ctx, d)
  if root is None:
    return
  if flavour == 'history':
    root, ops = history(ctx, rng, root, opts)
    if root is None:
      return
    d = describe(root)
    c['history_trees'] += 1
    ctx.seen('history_ops', tuple(ops))
  c['flavour:' + flavour] += 1
  c['aliased_occurrences'] += n_alias
  check_tree(ctx, i, d, root, flavour, opts)


def check_tree(ctx, i, d, root, flavour, opts):
  rng, c = ctx.rng, ctx.counters
  pos = positions(d)
  case = {'value': show_desc(d), 'flavour': flavour}
  expected = {}
  for keys, dn in pos:
    expected[tk(keys)] = (keys, nav(root, keys))
  is_sym = isinstance(root, pg.Symbolic)
  holder = {'D': 'Dict', 'L': 'List', 'O': 'Object'}.get(opts.get('inferential'))
  # positions of pg.Inferential members (all held by containers of one class)
  inf_pos = {t for t, (keys, node) in expected.items()
             if keys and isinstance(node, pg.symbolic.Inferential)} if holder else set()
  c['inferential_members'] += len(inf_pos)
  counts = {}
  for keys, node in expected.values():
    if isinstance(node, (dict, list, pg.Object)):
      counts[id(node)] = counts.get(id(node), 0) + 1
  shared = {n for n, k in counts.items() if k > 1}
  c['shared_containers'] += len(shared)

  def violation(clause, mech, detail):
    ctx.violation(clause, mech, f'value={show_desc(d)[:1500]}\n{detail}', case)

  def remap(clause, mech, keys):
    """A reported path that is at or below a pg.Inferential member does not lead
    back to the reported node: one key per class of the holding container."""
    if clause in ('visit-extra', 'visit-path', 'visit-parent', 'visit-duplicate') and any(
        tk(keys[:n]) in inf_pos for n in range(1, len(keys) + 1)):
      return 'visit-path', 'inferential-in-' + holder
    return clause, mech

  def bad(clause, mech, detail):
    violation(clause, mech, detail)
    if mech.startswith('inferential-in-'):
      raise EndCase()       # every later observation repeats it

  def call(label, fn):
    """A traversal entry point; with inferential members present an exception
    is keyed by the class of the holding container."""
    ctx.label = label
    if not inf_pos:
      out = fn()
    else:
      o = outcome(fn)
      if o[0] == 'raise':
        ctx.label = None
        bad('visit-raises', 'inferential-in-' + holder, f'{label} raised {o[1]!r}')
      out = o[1]
    ctx.label = None
    return out

  def logcheck(variant, log, exp, offset=()):
    check_log(ctx, bad, variant, root, log, exp, offset, shared, remap if inf_pos else None)

  # -- the path each symbolic node reports itself -----------------------------
  # relative to the topmost symbolic container it is in
  start = {}
  for keys, dn in pos:
    node = expected[tk(keys)][1]
    if not isinstance(node, pg.Symbolic):
      continue
    st = start.get(tk(keys[:-1])) if keys else None
    if st is None:
      st = len(keys)
    if True:
      start[tk(keys)] = st
      c['sym_path_checks'] += 1
      o = outcome(lambda: node.sym_path.keys)  # pylint: disable=cell-var-from-loop
      if o[0] == 'raise' or tk(o[1]) != tk(keys[st:]):
        bad('visit-path', 'sym_path', f'the node at {show(keys)} reports sym_path '
            f'{o[1]!r}; its topmost symbolic container is at {show(keys[:st])}')
        break

  # -- pg.traverse: pre-order and post-order logs -----------------------------
  pre, post = [], []
  ret = call('pg.traverse', lambda: pg.traverse(
      root, lambda k, v, p: pre.append((k, v, p)) or TA.ENTER,
      lambda k, v, p: post.append((k, v, p)) or TA.ENTER))
  logcheck('pg.traverse[pre]', pre, expected)
  logcheck('pg.traverse[post]', post, expected)
  c['visit_logs'] += 1
  if ret is not True:
    bad('visit-result', 'pg.traverse', f'returned {ret!r} although no visitor stopped')
  for name, log, parent_first in (('pre', pre, True), ('post', post, False)):
    idx = {tk(k.keys): n for n, (k, _, _) in enumerate(log)}
    for keys, _ in pos[1:]:
      a, b = idx.get(tk(keys[:-1])), idx.get(tk(keys))
      if a is not None and b is not None and (a < b) != parent_first:
        bad('visit-order', f'pg.traverse[{name}]', f'{show(keys)} vs its parent')
        break

  # -- root_path offset -------------------------------------------------------
  offset = tuple(any_key(rng) for _ in range(rng.randint(1, 2)))
  log = []
  call('pg.traverse[root_path]', lambda: pg.traverse(
      root, lambda k, v, p: log.append((k, v, p)) or TA.ENTER,
      root_path=KeyPath(list(offset))))
  logcheck('pg.traverse[root_path]', log, expected, offset)

  # -- CONTINUE skips exactly the sub-tree ------------------------------------
  conts = [keys for keys, dn in pos if dn['t'] != 'v' and keys and rng.random() < 0.3]
  skip = {tk(k) for k in conts}
  log = []
  ret = call('pg.traverse[CONTINUE]', lambda: pg.traverse(root, lambda k, v, p: (
      log.append((k, v, p)), TA.CONTINUE if tk(k.keys) in skip else TA.ENTER)[1]))
  below = lambda keys: any(tk(keys[:n]) in skip for n in range(len(keys)))
  exp2 = {t: e for t, e in expected.items() if not below(e[0])}
  logcheck('pg.traverse[CONTINUE]', log, exp2)
  if ret is not True:
    bad('visit-result', 'pg.traverse[CONTINUE]', f'returned {ret!r}')

  # -- lookups ----------------------------------------------------------------
  # Printed form of every position; None where print/parse does not round trip
  # (reported once, and the checks that go through printed paths are skipped).
  reported = []

  def report_once(clause, mech, detail):
    if not reported:
      reported.append(1)
      bad(clause, mech, detail)

  printed = {tk(keys): printable(ctx, keys, report_once) for keys, _ in pos}
  strings_ok = all(v is not None for v in printed.values())

  by_key = {tk(k.keys): k for k, _, _ in pre}
  for keys, dn in pos if len(pos) <= 30 else rng.sample(pos, 30):
    node = expected[tk(keys)][1]
    kp = KeyPath(list(keys))
    s = printed[tk(keys)]
    rp = by_key.get(tk(keys))
    look = [('KeyPath.query', lambda: kp.query(root)),
            ('KeyPath.get', lambda: kp.get(root, Ellipsis)),
            ('KeyPath.exists', lambda: node if kp.exists(root) is True else 'exists() is False')]
    if rp is not None:
      look.append(('KeyPath.query', lambda: rp.query(root)))
    if s is not None:
      look.append(('KeyPath.query[parsed]', lambda: KeyPath.parse(s).query(root)))
    if is_sym:
      look.append(('sym_get', lambda: root.sym_get(kp)))
      look.append(('sym_has', lambda: node if root.sym_has(kp) is True else 'sym_has() is False'))
      if s is not None:
        look.append(('sym_get[str]', lambda: root.sym_get(s)))
      if len(keys) == 1 and isinstance(keys[0], int):
        look.append(('sym_get[int]', lambda: root.sym_get(keys[0])))
    for mech, fn in look:
      c['lookups'] += 1
      o = outcome(fn)
      if o[0] == 'raise' or o[1] is not node:
        # first disagreeing read path of the position; key = entry point
        bad('lookup', family(mech), f'{mech} for position {show(keys)}: {o[1]!r:.100}, '
            f'item access gives {node!r:.80}')
        break
  # Absent positions below containers (a list index past either end).
  for keys, dn in [p_ for p_ in pos if p_[1]['t'] != 'v'][:8]:
    mech = 'absent-path'
    if dn['t'] == 'L':
      k = len(dn['items']) + rng.randint(0, 2)
      if rng.random() < 0.4:
        k, mech = -k - 1, 'absent-negative-index'
    elif dn['t'] == 'O':
      k = 'nofield'
    else:
      k = 'absent' + str_key(rng)
      if tk([k]) in [tk([x]) for x, _ in dn['items']]:
        continue
    kp = KeyPath(list(keys) + [k])
    c['lookups'] += 1
    c['absent_lookups'] += 1
    o = (outcome(lambda: kp.query(root)), outcome(lambda: kp.exists(root)),
         outcome(lambda: kp.get(root, Ellipsis)))
    if not (o[0][0] == 'raise' and isinstance(o[0][1], KeyError)
            and o[1] == ('ok', False) and o[2] == ('ok', Ellipsis)):
      if mech == 'absent-negative-index':
        mech += '/' + cls_name(nav(root, keys))
      bad('lookup', mech, f'absent path {show(kp.keys)}: query/exists/get -> {o!r:.300}')

  # -- pg.query ---------------------------------------------------------------
  def check_query(entry, res, exp_keys):
    """res: {str: value}; exp_keys: type-aware key tuples that must be selected."""
    c['query_checks'] += 1
    log = []
    for s, v in res.items():
      o = outcome(lambda: KeyPath.parse(s))
      if not isinstance(s, str) or o[0] == 'raise':
        bad('visit-path', family(entry), f'{entry}: result key {s!r} does not parse')
        continue
      log.append((o[1], v, Ellipsis))
    logcheck(entry, log, {t: expected[t] for t in exp_keys})

  topmost = lambda sel: {t for t in sel
                         if not any(tk(expected[t][0][:n]) in sel
                                    for n in range(len(expected[t][0])))}
  pred = rng.choice([
      ('int', lambda v: isinstance(v, int) and not isinstance(v, bool)),
      ('str', lambda v: isinstance(v, str)),
      ('dict', lambda v: isinstance(v, dict)),
      ('container', lambda v: isinstance(v, (dict, list, pg.Object))),
      ('none', lambda v: v is None)])[1]
  sel = {t for t, (keys, node) in expected.items() if pred(node)}
  chosen = {tk(keys) for keys, _ in rng.sample(pos, min(len(pos), rng.randint(1, 4)))}
  tkeys, tnode = expected[rng.choice(sorted(chosen))]
  if strings_ok:
    q = lambda **kw: call('pg.query', lambda: pg.query(root, **kw))
    check_query('pg.query[all]', q(enter_selected=True), set(expected))
    check_query('pg.query[where,enter]', q(where=pred, enter_selected=True), sel)
    check_query('pg.query[where]', q(where=pred), topmost(sel))
    check_query('pg.query[where2]', q(where=lambda v, p: pred(v)), topmost(sel))
    check_query('pg.query[custom_selector]',
                q(custom_selector=lambda k, v: tk(k.keys) in chosen), topmost(chosen))
    check_query('pg.query[custom_selector3]',
                q(custom_selector=lambda k, v, p: tk(k.keys) in chosen, enter_selected=True),
                chosen)
    check_query('pg.query[path_regex]',
                q(path_regex=re.escape(printed[tk(tkeys)]) + r'\Z', enter_selected=True),
                {tk(tkeys)})
  else:
    c['skipped_printed_path_checks'] += 1

  # -- sym_descendants --------------------------------------------------------
  if is_sym:
    def check_desc(entry, got, exp_keys):
      c['descendant_checks'] += 1
      want = sorted(id(expected[t][1]) for t in exp_keys)
      have = sorted(id(x) for x in got)
      if want != have:
        ids = {}
        for t in exp_keys:
          ids.setdefault(id(expected[t][1]), []).append(expected[t][0])
        hv = {}
        for x in got:
          hv[id(x)] = hv.get(id(x), 0) + 1
        missing = [ks_ for n, kss in ids.items() if hv.get(n, 0) < len(kss) for ks_ in kss]
        missing.sort(key=len)      # topmost first
        extra = [x for x in got if id(x) not in ids]
        if inf_pos and (extra or any(tk(ks_) in inf_pos for ks_ in missing)):
          # the inferred value was returned (and entered) instead of the member
          bad('visit-path', 'inferential-in-' + holder, f'{entry}: returned {extra[:3]!r:.200} '
              f'which are not nodes of the value; missing {missing[:4]!r}')
        clause = 'visit-missing' if missing else 'visit-extra' if extra else 'visit-duplicate'
        bad(clause, family(entry), f'{entry}: expected {len(want)} nodes, got '
            f'{len(have)}; positions concerned: {missing[:4]!r}; not in the value: '
            f'{extra[:3]!r:.200}')
    strict = set(expected) - {tk(())}
    desc = lambda *a, **kw: call('sym_descendants', lambda: root.sym_descendants(*a, **kw))
    check_desc('sym_descendants[ALL]', desc(), strict)
    check_desc('sym_descendants[ALL,self]', desc(include_self=True), set(expected))
    dsel = {t for t in strict if pred(expected[t][1])}
    check_desc('sym_descendants[where,ALL]', desc(pred), dsel)
    check_desc('sym_descendants[where,IMMEDIATE]', desc(pred, DQ.IMMEDIATE), topmost(dsel))
    has_below = lambda t: any(u != t and len(expected[u][0]) > len(expected[t][0])
                              and tk(expected[u][0][:len(expected[t][0])]) == t for u in dsel)
    check_desc('sym_descendants[where,LEAF]', desc(pred, DQ.LEAF),
               {t for t in dsel if not has_below(t)})

  # -- flatten / canonicalize -------------------------------------------------
  def int_dict_key(dn):
    if dn['t'] == 'O' or dn['t'] == 'v':
      return False        # objects are leaves of flatten
    if dn['t'] == 'D' and any(isinstance(k, int) for k, _ in dn['items']):
      return True
    return any(int_dict_key(ch) for _, ch in children(dn))

  if d['t'] in 'DL' and d['items'] and not int_dict_key(d) and strings_ok and not inf_pos:
    def leaves(dn, prefix=()):
      if dn['t'] in 'DL' and dn['items']:
        out = []
        for k, ch in children(dn):
          out.extend(leaves(ch, prefix + (k,)))
        return out
      return [prefix]
    c['flatten_inverse'] += 1
    want = to_plain(root)
    o = outcome(lambda: pg.utils.flatten(root, flatten_complex_keys=False))
    exp_leaves = leaves(d)
    flat_problem = None
    if o[0] == 'raise':
      flat_problem = f'flatten raised {o[1]!r}'
    else:
      flat = o[1]
      if not (isinstance(flat, dict) and all(isinstance(k, str) for k in flat)
              and len(flat) == len(exp_leaves)):
        flat_problem = f'{len(exp_leaves)} leaf positions, flattened form {flat!r:.300}'
      else:
        for keys in exp_leaves:
          s = printed[tk(keys)]
          if s not in flat or flat[s] is not expected[tk(keys)][1]:
            flat_problem = f'leaf {show(keys)} is not under key {s!r} of {flat!r:.300}'
            break
    if flat_problem:
      # the flattened form itself is wrong: canonicalize is not asked
      bad('flatten-inverse', 'flatten', flat_problem)
    else:
      o2 = outcome(lambda: pg.utils.canonicalize(flat))
      if o2[0] == 'raise':
        bad('flatten-inverse', 'canonicalize', f'canonicalize raised {o2[1]!r} on {flat!r:.300}')
      elif not same(to_plain(o2[1]), want):
        bad('flatten-inverse', 'canonicalize', f'flat={flat!r:.400}\nback={o2[1]!r:.400}')
      else:
        # A path-keyed dict is a mapping: the order in which its items were
        # inserted must not matter to canonicalize (list positions come from the
        # indices in the paths), and flattening the result gives it back.
        items = list(flat.items())
        rng.shuffle(items)
        flat2 = dict(items)
        c['flatten_inverse_shuffled'] += 1
        o4 = outcome(lambda: pg.utils.canonicalize(flat2))
        if o4[0] == 'raise' or not same(to_plain(o4[1]), want):
          bad('flatten-inverse', 'canonicalize[shuffled-items]',
              f'flat={flat2!r:.400}\nback={o4!r:.400}')
        else:
          o5 = outcome(lambda: pg.utils.flatten(o4[1], flatten_complex_keys=False))
          if o5[0] == 'raise' or not (isinstance(o5[1], dict) and set(o5[1]) == set(flat)
                                      and all(same(to_plain(o5[1][k]), to_plain(flat[k])) for k in flat)):
            bad('flatten-inverse', 'flatten-of-canonicalized',
                f'flat={flat2!r:.300}\nflatten(canonicalize(flat))={o5!r:.300}')
      if flat_problem is None and o2[0] != 'raise' and same(to_plain(o2[1]), want) and not any(
          isinstance(k, str) and any(ch in k for ch in SPECIAL)
          for keys in exp_leaves for k in keys):
        c['flatten_inverse'] += 1
        o3 = outcome(lambda: pg.utils.canonicalize(pg.utils.flatten(root)))
        if o3[0] == 'raise' or not same(to_plain(o3[1]), want):
          bad('flatten-inverse', 'default-options', f'no complex key, but {o3!r:.400}')
  else:
    c['flatten_not_applicable'] += 1

  ctx.seen('tree_shapes', shape(d))
  if len(pos) >= 6 and any(hostile(k) for keys, _ in pos for k in keys if isinstance(k, str)):
    ctx.mark_nontrivial(('tree', flavour, shape(d)))
  if want_sample(ctx, i, 1):
    ctx.sample({'kind': 'tree', 'flavour': flavour, 'value': show_desc(d)[:600],
                'positions': len(pos)})


# ---------------------------------------------------------------------------
# Rebinder functions.

def to_model(v):
  if isinstance(v, pg.Ref):
    return ('ref', id(v.value))
  if isinstance(v, pg.Object):
    return ('O', type(v).__name__, {k: to_model(x) for k, x in v.sym_items()})
  if isinstance(v, dict):
    return ('D', {tk([k]): to_model(x) for k, x in v.items()})
  if isinstance(v, list):
    return ('L', [to_model(x) for x in v])
  return ('v', type(v).__name__, v)


def desc_model(d, prefix, repl):
  t = tk(prefix)
  if t in repl:
    return to_model(repl[t])
  if d['t'] == 'v':
    return to_model(d['v'])
  if d['t'] == 'D':
    return ('D', {tk([k]): desc_model(ch, prefix + (k,), repl) for k, ch in d['items']})
  if d['t'] == 'L':
    return ('L', [desc_model(ch, prefix + (k,), repl) for k, ch in enumerate(d['items'])])
  return ('O', d['cls'], {k: desc_model(ch, prefix + (k,), repl) for k, ch in d['items']})


def rebind_case(ctx, i):
  try:
    rebind_case_(ctx, i)
  except EndCase:
    pass


def rebind_case_(ctx, i):
  rng, c = ctx.rng, ctx.counters
  opts = dict(maxdepth=rng.randint(2, 4), objects=True, int_keys=True,
              sym_subtree=0.0, root_kinds=['D', 'D', 'L', 'O'])
  if rng.random() < 0.25:
    opts['inferential'] = rng.choice('DLO')
  d = gen_tree(rng, 0, True, Budget(30), opts, root=True)
  root = build_root(ctx, d)
  if root is None:
    return
  pos = positions(d)
  holder = {'D': 'Dict', 'L': 'List', 'O': 'Object'}.get(opts.get('inferential'))
  inf_pos = {tk(keys) for keys, _ in pos
             if keys and isinstance(nav(root, keys), pg.symbolic.Inferential)} if holder else set()
  c['inferential_members'] += len(inf_pos)
  # rebind(fn) addresses its updates through printed paths
  reported = []
  once = lambda cl, m, dt: reported or (reported.append(1), ctx.violation(
      cl, m, f'value={show_desc(d)[:800]}\n{dt}', {'value': show_desc(d)}))
  if any(printable(ctx, keys, once) is None for keys, _ in pos):
    c['skipped_printed_path_checks'] += 1
    return
  before = {tk(keys): (keys, nav(root, keys)) for keys, _ in pos}
  # (the fields of an inferential object -- ContextualAttribute.type -- are typed:
  # what may be written there is not this property's concern)
  cands = [keys for keys, _ in pos if keys and not isinstance(
      before[tk(keys[:-1])][1], pg.symbolic.Inferential)]
  n_sel = 0 if rng.random() < 0.1 else rng.randint(1, 4)
  picked = rng.sample(cands, min(n_sel, len(cands)))
  by_identity = rng.random() < 0.3
  if by_identity:
    picked = [k for k in picked if before[tk(k)][1] is not None
              and isinstance(before[tk(k)][1], (dict, list, pg.Object))]
  sel = {tk(k) for k in picked}
  eff = {t for t in sel if not any(tk(before[t][0][:n]) in sel
                                   for n in range(len(before[t][0])))}
  new_values = {}
  for n, t in enumerate(sorted(sel)):
    r = rng.random()
    new_values[t] = (f'NEW{n}' if r < 0.5 else 1000 + n if r < 0.7
                     else {'n': n, 'a.b': [n]} if r < 0.85 else [n, {'k': n}])
  ids = {id(before[t][1]): t for t in sel} if by_identity else None
  if by_identity and len(ids) != len(sel):
    by_identity, ids = False, None      # one object at two selected positions
  calls = []

  def pick(k, v):
    calls.append((k, v, Ellipsis))
    t = ids.get(id(v)) if by_identity else (tk(k.keys) if tk(k.keys) in sel else None)
    return v if t is None else new_values[t]

  fn = (lambda k, v: pick(k, v)) if rng.random() < 0.5 else (lambda k, v, p: pick(k, v))
  case = {'value': show_desc(d), 'selected': [show(k) for k in picked],
          'by': 'identity' if by_identity else 'path'}

  def bad(clause, detail, mech='rebind[fn]'):
    ctx.violation(clause, mech, f'value={show_desc(d)[:1200]}\nselected='
                  f'{[show(before[t][0]) for t in sorted(eff)]}\n{detail}', case)
    if mech != 'rebind[fn]':
      raise EndCase()

  def remap(clause, mech, keys):
    if clause in ('visit-extra', 'visit-path', 'visit-parent', 'visit-duplicate') and any(
        tk(keys[:n]) in inf_pos for n in range(1, len(keys) + 1)):
      return 'visit-path', 'inferential-in-' + holder
    return clause, mech

  c['rebind_fn'] += 1
  o = outcome(lambda: root.rebind(fn, raise_on_no_change=False))
  if o[0] == 'raise':
    # with inferential members: keyed by the class of the container holding them
    bad('rebinder-raises', f'rebind(fn) raised {o[1]!r}',
        'inferential-in-' + holder if inf_pos else 'rebind[fn]')
    return
  if o[1] is not root:
    bad('rebinder-result', f'rebind returned {o[1]!r:.100}, not the object itself')
  # The rebinder saw every position that is not below a selected one.
  below = lambda keys: any(tk(keys[:n]) in eff for n in range(len(keys)))
  exp_seen = {t: e for t, e in before.items() if not below(e[0])}
  check_log(ctx, lambda cl, m, dt: bad(cl, dt, m if m.startswith('inferential-in-')
                                       else 'rebind[fn]'),
            'rebind[fn]', root, calls, exp_seen, remap=remap if inf_pos else None)
  want = desc_model(d, (), {t: new_values[t] for t in eff})
  got = to_model(root)
  if got != want:
    sel_ok = True
    for t in eff:
      o2 = outcome(lambda: nav(root, before[t][0]))  # pylint: disable=cell-var-from-loop
      if o2[0] == 'raise' or to_model(o2[1]) != to_model(new_values[t]):
        sel_ok = False
    bad('rebinder-unselected-changed' if sel_ok else 'rebinder-selected-not-updated',
        f'after rebind: {root!r:.600}')
  else:
    # Nodes that are neither selected nor below a selected node are the same
    # objects as before.
    for t, (keys, node) in before.items():
      if below(keys) or t in eff:
        continue
      if nav(root, keys) is not node:
        bad('rebinder-unselected-changed', f'node at {show(keys)} was replaced by a copy')
        break
  if eff:
    ctx.mark_nontrivial(('rebind', shape(d), tuple(sorted(eff))))
  if want_sample(ctx, i, 3):
    ctx.sample({'kind': 'rebind', **case})


# ---------------------------------------------------------------------------
# KeyPathSet histories.

class EndCase(Exception):
  pass


def set_case(ctx, i):
  flags = {}
  try:
    set_history(ctx, i, flags)
  except EndCase:
    pass
  except Exception as e:  # pylint: disable=broad-except
    if not flags.get('dollar'):
      raise
    # A path key '$' can corrupt the set so that later calls fail.
    ctx.violation('set-model', 'dollar-key', f'{e!r}', {'alphabet': flags.get('alphabet')})


def set_history(ctx, i, flags):
  rng, c = ctx.rng, ctx.counters
  alphabet = [rng.choice(['a', 'b', 'c', 0, 1, '0', -1])
              for _ in range(rng.randint(2, 3))]
  alphabet += [any_key(rng) for _ in range(rng.randint(1, 3))]
  dollar = rng.random() < 0.1
  alphabet = [k for k in alphabet if k != '$']
  if dollar:
    alphabet.append('$')
  flags.update(dollar=dollar, alphabet=repr(alphabet))

  def gen_path(maxlen=3):
    return tuple(rng.choice(alphabet) for _ in range(rng.randint(0, maxlen)))

  def gen_paths():
    return {tk(p): p for p in [gen_path() for _ in range(rng.randint(0, 5))]}

  reported = []

  def as_arg(keys):
    """A path as KeyPath, printed string (when it round-trips) or bare int."""
    r = rng.random()
    if len(keys) == 1 and isinstance(keys[0], int) and r < 0.3:
      return keys[0]
    if r < 0.3:
      once = lambda cl, m, dt: reported or (reported.append(1), ctx.violation(cl, m, dt, case))
      s = printable(ctx, keys, once)
      if s is not None:
        return s
    return KeyPath(list(keys))

  trace = []
  changed = 0
  case = {'alphabet': repr(alphabet), 'history': trace}

  def bad(clause, mech, detail):
    if dollar:
      clause, mech = 'set-model', 'dollar-key'
    ctx.violation(clause, mech, f'alphabet={alphabet!r}\nhistory={trace[-12:]!r}\n{detail}', case)
    if dollar:
      raise EndCase()     # the state cannot be re-synchronised reliably

  # three sets with models {type-aware keys: keys}
  models = [gen_paths() for _ in range(3)]
  ctx.label = 'KeyPathSet()'
  sets = []
  for m in models:
    form = rng.randint(0, 2)
    vals = [as_arg(p) for p in m.values()]
    sets.append(KeyPathSet(vals) if form == 0 else
                KeyPathSet.from_value(rng.choice([list, tuple])(vals)) if form == 1 else
                KeyPathSet(iter(vals)))
  ctx.label = None

  def check_state(mech, s, m, full=True, operand=False):
    """Returns True when the set agrees with its model on every read path.

    operand=True: `s` is an operand that the operation must leave unchanged."""
    c['set_state_checks'] += 1
    if operand:
      report = lambda clause, mech, detail: bad('set-operand-changed', mech, detail)
    else:
      report = bad
    return state_ok(report, mech, s, m, full)

  def state_ok(bad, mech, s, m, full):  # pylint: disable=redefined-outer-name
    ctx.label = 'KeyPathSet[read]'
    ok = read_paths_ok(bad, mech, s, m, full)
    ctx.label = None
    return ok

  def read_paths_ok(bad, mech, s, m, full):  # pylint: disable=redefined-outer-name
    o = outcome(lambda: list(s))
    if o[0] == 'raise':
      bad('set-contents', mech, f'iteration raised {o[1]!r}')
      return False
    got = [tk(p.keys) for p in o[1]]
    if sorted(got) != sorted(m):
      bad('set-contents', mech, f'iteration gives {[p.keys for p in o[1]]!r}, '
          f'model {sorted(m.values(), key=repr)!r}')
      return False
    if bool(s) != bool(m):
      bad('set-bool', mech, f'bool() is {bool(s)} for a set with {len(m)} paths')
      return False
    if not full:
      return True
    fresh = KeyPathSet([KeyPath(list(p)) for p in m.values()])
    if not (s == fresh and fresh == s and not s != fresh):
      bad('set-eq', mech, f'not equal to a new set of the same paths {sorted(m.values(), key=repr)!r}')
      return False
    probes = list(m.values())[:3] + [gen_path() for _ in range(3)]
    for p in probes:
      arg = as_arg(p)
      if (arg in s) != (tk(p) in m):
        bad('set-contains', mech, f'{show(p)} in set is {arg in s}')
        return False
      hp = any(is_prefix(p, q) for q in m.values())
      # (has_prefix of the empty path on an empty set is left open.)
      if p and s.has_prefix(as_arg(p)) != hp:
        bad('set-has-prefix', mech, f'has_prefix({show(p)}) is {not hp}')
        return False
      sub = s.subtree(as_arg(p))
      exp_sub = {tk(q[len(p):]) for q in m.values() if is_prefix(p, q)}
      if hp:
        if sub is None:
          bad('set-subtree', mech, f'subtree({show(p)}) is None')
          return False
        if sorted(tk(x.keys) for x in sub) != sorted(exp_sub):
          bad('set-subtree', mech, f'subtree({show(p)}) gives {[x.keys for x in sub]!r}')
          return False
      elif sub is not None and list(sub):
        # "If there is no child path under the given root path, None will be
        # returned" -- an empty set is accepted as well.
        bad('set-subtree', mech, f'subtree({show(p)}) is not empty')
        return False
    return True

  def heal(j):
    sets[j] = KeyPathSet([KeyPath(list(p)) for p in models[j].values()])
    c['heals'] += 1

  for j in range(3):
    if not check_state('KeyPathSet()', sets[j], models[j]):
      heal(j)

  for _ in range(rng.randint(12, 30)):
    op = rng.choice(['add', 'add', 'add', 'remove', 'remove', 'update', 'union', '__add__',
                     'difference', 'difference_update', 'intersection',
                     'intersection_update', 'rebase', 'KeyPath.__add__', 'copy', 'clear',
                     'from_value'])
    a, b = rng.sample(range(3), 2)
    s, m = sets[a], models[a]
    before = [set(x) for x in models]
    mech = op if op == 'KeyPath.__add__' else 'KeyPathSet.' + op
    c['set_steps'] += 1
    c['set_op:' + op] += 1
    result_ok = True
    ctx.label = mech
    if op in ('add', 'remove'):
      p = rng.choice(list(m.values())) if m and rng.random() < 0.5 else gen_path()
      arg = as_arg(p)
      trace.append(f's{a}.{op}({type(arg).__name__} {show(p)})')
      exp = (tk(p) not in m) if op == 'add' else (tk(p) in m)
      if op == 'add':
        m[tk(p)] = p
      else:
        m.pop(tk(p), None)
      got = outcome(lambda: getattr(s, op)(arg))
      if got != ('ok', exp):
        bad('set-result', mech, f'{op}({show(p)}) returned {got!r}, expected {exp}')
        result_ok = False
    elif op in ('update', 'difference_update', 'intersection_update'):
      trace.append(f's{a}.{op}(s{b})')
      if op == 'update':
        m.update(models[b])
      elif op == 'difference_update':
        for t in models[b]:
          m.pop(t, None)
      else:
        for t in list(m):
          if t not in models[b]:
            del m[t]
      got = outcome(lambda: getattr(s, op)(sets[b]))
      if got[0] == 'raise':
        bad('set-result', mech, f'raised {got[1]!r}')
        result_ok = False
    elif op in ('union', '__add__', 'difference', 'intersection'):
      dst = rng.randrange(3)
      trace.append(f's{dst} = s{a}.{op}(s{b})')
      if op in ('union', '__add__'):
        nm = {**m, **models[b]}
      elif op == 'difference':
        nm = {t: p for t, p in m.items() if t not in models[b]}
      else:
        nm = {t: p for t, p in m.items() if t in models[b]}
      got = outcome(lambda: (s + sets[b]) if op == '__add__' else getattr(s, op)(sets[b]))
      if got[0] == 'raise' or not isinstance(got[1], KeyPathSet):
        bad('set-result', mech, f'returned {got!r}')
        result_ok = False
      else:
        # operands first (they must be unchanged), then the result
        for j in sorted({a, b}):
          if not check_state(mech, sets[j], models[j], full=False, operand=True):
            heal(j)
        sets[dst], models[dst] = got[1], nm
        a = dst
    elif op == 'rebase':
      root = gen_path(2)
      arg = as_arg(root)
      trace.append(f's{a}.rebase({type(arg).__name__} {show(root)})')
      models[a] = {tk(root + p): root + p for p in m.values()}
      got = outcome(lambda: s.rebase(arg))
      if got[0] == 'raise':
        bad('set-result', mech, f'raised {got[1]!r}')
        result_ok = False
    elif op == 'KeyPath.__add__':
      root = gen_path(2)
      dst = rng.randrange(3)
      trace.append(f's{dst} = KeyPath({list(root)!r}) + s{a}')
      nm = {tk(root + p): root + p for p in m.values()}
      got = outcome(lambda: KeyPath(list(root)) + s)
      if got[0] == 'raise' or not isinstance(got[1], KeyPathSet):
        bad('set-result', mech, f'returned {got!r}')
        result_ok = False
      else:
        if not check_state(mech, s, m, full=False, operand=True):
          heal(a)
        sets[dst], models[dst] = got[1], nm
        a = dst
    elif op == 'copy':
      dst = rng.randrange(3)
      trace.append(f's{dst} = s{a}.copy()')
      cp = s.copy()
      if dst != a:
        sets[dst], models[dst] = cp, dict(m)
        # independence: a write to the copy leaves the original alone
        p = gen_path()
        cp.add(KeyPath(list(p)))
        models[dst][tk(p)] = p
        if not check_state(mech, s, m, full=False, operand=True):
          heal(a)
        a = dst
    elif op == 'clear':
      trace.append(f's{a}.clear()')
      m.clear()
      s.clear()
    else:
      vals = [as_arg(p) for p in m.values()]
      trace.append(f's{a} = KeyPathSet.from_value(<{len(vals)} paths of s{a}>)')
      sets[a] = KeyPathSet.from_value(rng.choice([list, tuple])(vals))
      if KeyPathSet.from_value(sets[a]) is not sets[a]:
        bad('set-result', mech, 'from_value(KeyPathSet) is not the set itself')
    ctx.label = None
    ok = result_ok and check_state(mech, sets[a], models[a])
    # the other operand of an in-place binary operation stays as it was
    if op in ('update', 'difference_update', 'intersection_update'):
      if not check_state(mech, sets[b], models[b], full=False, operand=True):
        heal(b)
    if not ok:
      heal(a)
    if [set(x) for x in models] != before:
      changed += 1
  if changed >= 5:
    ctx.mark_nontrivial(('set', tuple(t.split('(')[0] for t in trace),
                         tuple(sorted(models[0])), dollar))
  ctx.seen('set_states', tuple(sorted(map(repr, models[0]))))
  if want_sample(ctx, i, 2):
    ctx.sample({'kind': 'set', 'alphabet': repr(alphabet), 'history': trace[:10]})


# ---------------------------------------------------------------------------

def want_sample(ctx, i, kind):
  """Two samples per shard; the kinds alternate over the shards."""
  return i < 20 and kind in ((0, 1), (2, 3), (1, 2), (3, 0))[ctx.shard % 4]


def setup(ctx):
  if ctx.shard == 0:
    for s, keys in DOC_EXAMPLES:
      ctx.counters['doc_examples'] += 1
      o = outcome(lambda: KeyPath.parse(s))  # pylint: disable=cell-var-from-loop
      if o[0] == 'raise' or tk(o[1].keys) != tk(keys):
        ctx.violation('roundtrip', 'documented-example',
                      f'parse({s!r}) -> {o!r}, documented {keys!r}', {'str': s})


def cases(ctx):
  return ctx.params['cases']


def run_case(ctx, i):
  k = i % 20
  if k < 16:
    path_case(ctx, i)
  elif k < 18:
    tree_case(ctx, i)
  elif k == 18:
    set_case(ctx, i)
  else:
    rebind_case(ctx, i)
