"""C11 — search-space enumeration is exact (iter_dna / space_size / next_dna /
validate / DNA(..., spec=) / from_numbers / random_dna / Sweeping) against the
independent reference `monitors/genoref.py`."""
import math
import random as pyrandom
import sys
import traceback

import pyglove as pg
from pgverif.gen import spaces as S
from pgverif.monitors import genoref as G

TIERS = {
    # max_dnas: exhaustive bound on the members of a description; random:
    # larger random descriptions per shard, iterated in full up to random_max
    # members, else on a prefix; members: reference members through DNA() /
    # validate / binding / from_numbers; corrupt: members corrupted, with one
    # corruption of each of <= corrupt_kinds (name, kind) classes, <= mutate of
    # them also as a change in place of a bound member; custom_embed: in how
    # many of the 7 embeddings a sequence of the custom family is placed; draws:
    # random_dna draws; sweep_full: Sweeping compared to its end up to this size.
    'quick': dict(shards=8, max_dnas=6, random=5, random_max=40, prefix=16,
                  members=2, corrupt=1, corrupt_kinds=6, flat_kinds=3,
                  draws=2, gen_draws=1, next_picks=1, first_iter=1,
                  sweep_full=6, sweep_prefix=3, validate_iterated=16,
                  reuse_tail=1, stub_draws=1, regen=0.4, mutate=1, custom_embed=3,
                  timeout_s=600),
    'thorough': dict(shards=16, max_dnas=64, random=12, random_max=200,
                     prefix=30, members=4, corrupt=1, corrupt_kinds=None,
                     flat_kinds=None, draws=6, gen_draws=2, next_picks=2,
                     first_iter=3, sweep_full=30, sweep_prefix=6,
                     validate_iterated=30, reuse_tail=3, stub_draws=2, regen=1.0,
                     mutate=None, custom_embed=None,
                     timeout_s=3000, case_timeout_s=300),
}
EXHAUSTIVE = {'quick': True, 'thorough': True}
RULE = ('case = one search-space description. Exhaustive part (same for every '
        'seed): EVERY description of the bounded family of gen/spaces.exhaustive() '
        '(spaces of <= 2 elements, choices of k <= 3 picks of n <= 4 constant '
        'candidates in all four distinct/sorted modes; conditional choices k <= 3, '
        'n <= 3 with every assignment of 6 representative sub-spaces, nesting '
        'depth <= 2) whose reference size is <= max_dnas (quick 6, thorough 64), '
        'plus all 30 single flat choices whatever their size (<= 64 members), plus '
        '12 fixed descriptions with float / custom leaves and the constant root '
        'space; partitioned over the '
        'shards by index; followed by `random` seeded larger descriptions per '
        'shard (floats of one random scale and range class, custom points, '
        'depth <= 3) and by the fixed float family (every scale None / linear / '
        'log / rlog x groups of <= 3 ranges of one class: pinned min == max on '
        'awkward doubles, 1-3 ulps wide, ordinary, huge, signed, and hi - lo not '
        'representable; alone, next to a choice or in a conditional sub-space; '
        'partitioned likewise), by the fixed custom family (enumerable custom '
        'points = custom points with a successor function over a finite '
        'sequence of genomes: groups of 3 of 16 hostile but legal genomes - '
        'empty, blank, "0", "None", "False", "[]", "-1", "nan", NUL, newline, '
        'non-ASCII, 5000 characters... - as an increasing sequence and in a '
        'user order, each in 3 (quick) / all (thorough) of 7 embeddings, taken in turn: alone, right / left of a choice, '
        'two custom points in one space, in a candidate of a single / multi '
        'choice, in a candidate and again right of it; four one-genome '
        'sequences alone and right of a choice) and by the fixed '
        'infinite family (1..4 infinite elements - floats, custom points with '
        'and without successor function, choices with an infinite candidate - '
        'directly in ONE space, the root or a candidate, a finite choice '
        'before / between / after them). Random descriptions make custom '
        'points enumerable with probability 0.6 and have up to 5 root elements. '
        'For each space that can be iterated to its end (choices and '
        'enumerable custom points): full iteration vs '
        'the reference enumeration (set, order, count, strict increase, end), '
        'space_size (for every description, iterable or not: the number of '
        'members, -1 as soon as one float or custom point is reachable), '
        'next_dna from rebuilt DNAs (as built or sealed), first_dna + DNA.iter_dna, '
        'Sweeping as a history of setup() calls on ONE generator object (the '
        'main sweep on the fresh generator or after a use of 0, 1, 2 or all '
        'proposals, then further short uses; targets: the same spec object, an '
        'equal copy, another spec, an earlier object; every use must propose the '
        'reference enumeration of its target from the beginning), '
        'shape + validate of iterated DNAs, DNA() / validate / binding / '
        'from_numbers on reference members and on one-step corruptions (one per '
        'class of corruption and kind of decision point; extra children come as '
        '1, 2 or 3 children at any position below leaves - constant candidates, '
        'floats, custom points, the constant root - and below inner nodes; a '
        'float may become NaN), each corruption also as a change in place '
        '(rebind) of a member DNA that is bound to the spec, followed by '
        'validate and by use_spec on the same spec object or an equal spec, '
        'random_dna membership (reference membership lo <= v <= hi, never the '
        'library validate) with a seeded random.Random and, for floats, with '
        'random.Random subclasses whose uniform() / random() return the extremes '
        '(lo, hi, both in turn, random() = 0.0, random() = 1 - 2**-53); '
        'pg.random_dna and a geno.Random generator, also set up again on '
        'another spec and back. '
        'Non-trivial = at least 2 members and a multi-choice or a conditional '
        'sub-space; distinct by description.')
REQUIRED_COUNTERS = ['iter_full', 'size_checks', 'lt_checks', 'next_checks',
                     'member_validate', 'member_bind', 'nonmember_validate',
                     'nonmember_bind', 'random_dna_checks', 'sweeping_checks',
                     'sweeping_full', 'sweeping_reuse_checks',
                     'random_dna_extreme_rng', 'random_generator_reused',
                     'enumerable_custom_specs', 'size_checks_infinite',
                     'nonmember_mutated_bind', 'next_checks_sealed']
ASSUMPTIONS = [
    'the reference enumerates depth first in decision order; membership = arity, index range, distinct, sorted, conditional sub-space, float range, str genome',
    'a DNA-shaped input is judged on the (value, children) shape that pg.DNA reports after construction, so inputs that normalise to a member count as members; corrupted trees that normalise to another non-member are keyed reshaped:tree',
    'rejection = any exception from validate/binding; acceptance = normal return',
    'NaN is a member of no float range (it satisfies neither lo <= v nor v <= hi); bool indices are not generated (left open by the property)',
    'an enumerable custom point is one whose user-given successor function walks a finite sequence of pairwise different strings; its members are still all strings (validate / binding are never asked to reject a string), its iteration is that sequence, and a space of choices and such points iterates their product in decision order; strict increase (DNA.__lt__) is demanded only when every such sequence increases, else the order is the user\'s and only set, count, pairwise difference and end are judged',
    'every space with a reachable float or custom point reports size -1, whether it can be iterated or not (documented: "-1 for infinity")',
    'sealing a DNA and changing a DNA in place with rebind are public operations on symbolic objects: a sealed member has the same successor, a bound DNA changed into a non-member must be rejected by the next use_spec / validate',
    'the scale of a float is a hint: it never changes the set of members; a generator whose uniform(a, b) returns a or b, or whose random() returns 0.0 or 1 - 2**-53, is an admissible random.Random',
    'setup(spec) starts a generator afresh whatever it was set up on and however much it proposed before: after it a Sweeping generator proposes the enumeration of spec from its first DNA',
    'random specs larger than random_max members are iterated on a prefix only; Sweeping is followed to its end for spaces of <= sweep_full members, else on its first sweep_prefix proposals',
    'quick tries <= corrupt_kinds classes of corruption per description (all classes on the leaf family), thorough all of them',
]

_FAMILY = {}


def is_flat_single(desc):
  return len(desc['elems']) == 1 and not any(
      c['elems'] for c in desc['elems'][0]['cands'])


def leaf_family():
  """Fixed descriptions with float / custom leaves at the root, next to a
  choice, below a single choice and below a multi-choice."""
  out = []
  for leaf in (lambda: S.floatv(-1.0, 1.5), S.custom):
    one2 = S.choice(1, S.consts(2))
    out += [
        S.space(leaf()),
        S.space(leaf(), one2),
        S.space(S.choice(2, S.consts(3), True, True), leaf()),
        S.space(S.choice(1, [S.CONST, S.space(leaf())])),
        S.space(S.choice(1, [S.space(leaf(), one2), S.CONST])),
        S.space(S.choice(2, [S.CONST, S.space(leaf())], False, False)),
    ]
  # the constant root: its only member is the empty DNA
  out.append(S.space())
  return [S.relocate(d) for d in out]


# --------------------------------------------------------------------------
# Float decision points: every scale, pinned / few-ulp / ordinary / huge ranges.
# --------------------------------------------------------------------------

SCALES = (None, 'linear', 'log', 'rlog')
FMAX = sys.float_info.max
TINY = 5e-324                      # smallest positive double


def floatv(lo, hi, scale=None):
  """Float description with the `scale` option (read by `build` below and by
  nothing in the reference: the scale is a hint and never changes the set)."""
  e = S.floatv(lo, hi)
  e['scale'] = scale
  return e


def ulps(x, k):
  for _ in range(abs(k)):
    x = math.nextafter(x, math.inf if k > 0 else -math.inf)
  return x


def build(desc):
  """`gen/spaces.build` with the `scale` option of float elements."""
  if desc['t'] == 'space':
    return pg.geno.Space([build(e) for e in desc['elems']])
  if desc['t'] == 'float':
    loc = pg.KeyPath.parse(desc['loc']) if desc['loc'] else pg.KeyPath()
    return pg.geno.floatv(desc['lo'], desc['hi'], scale=desc.get('scale'),
                          location=loc, name=desc['name'])
  if desc['t'] == 'custom':
    if desc.get('values') is None:
      return S.build(desc)
    loc = pg.KeyPath.parse(desc['loc']) if desc['loc'] else pg.KeyPath()
    vals = list(desc['values'])
    return pg.geno.custom(hyper_type='Gen', next_dna_fn=successor_fn(vals),
                          random_dna_fn=lambda r, previous_dna=None: pg.DNA(r.choice(vals)),
                          location=loc, name=desc['name'])
  cands = [build(c) for c in desc['cands']]
  loc = pg.KeyPath.parse(desc['loc']) if desc['loc'] else pg.KeyPath()
  lits = list(desc['lits']) if desc['lits'] is not None else None
  if desc['k'] == 1:
    return pg.geno.oneof(cands, literal_values=lits, location=loc,
                         name=desc['name'])
  return pg.geno.manyof(desc['k'], cands, distinct=desc['distinct'],
                        sorted=desc['sorted'], literal_values=lits,
                        location=loc, name=desc['name'])


def width_overflows(e):
  """hi - lo is not a finite double (the range itself is finite)."""
  return math.isinf(e['hi'] - e['lo'])


def float_key(desc):
  """Class of the float decision points of a description for mechanism keys:
  the scale option, or `width-overflow` when hi - lo is not representable.
  Workloads give all floats of one description the same class."""
  fl = G.float_elems(desc)
  if not fl:
    return None
  classes = {'width-overflow' if width_overflows(e) else (e.get('scale') or 'default')
             for e in fl}
  return 'float[%s]' % (classes.pop() if len(classes) == 1 else 'mixed')


def show(desc):
  fl = G.float_elems(desc)
  scales = sorted({str(e.get('scale')) for e in fl})
  out = S.show(desc) + (' scale=' + '/'.join(scales) if fl and scales != ['None'] else '')
  vals = [e['values'] for e in G.custom_elems(desc) if e.get('values') is not None]
  if vals:
    out += ' custom-values=' + '/'.join(
        '[' + ','.join(string_name(v) for v in vs) + ']' for vs in vals)
  return out


def float_ranges():
  """(class, positive-only?, [(lo, hi), ...]) of the fixed float family."""
  pinned = [0.1, 0.3, 3.0, 5.7, 10.0, 100.0, 1e-5, 1e300, TINY, 0.7, 1.0, FMAX]
  tiny = [(0.1, 1), (3.0, 3), (1e10, 2), (5.7, 1), (100.0, 2), (1e-300, 1)]
  return [
      ('pinned', True, [(v, v) for v in pinned]),
      ('few-ulps', True, [(x, ulps(x, k)) for x, k in tiny]),
      ('ordinary', True, [(0.1, 1.0), (3.0, 5.7), (0.5, 0.75)]),
      ('huge', True, [(1e-300, 1e300), (TINY, FMAX), (1e-6, 1e3)]),
      ('pinned', False, [(0.0, 0.0), (-0.1, -0.1), (-5.7, -5.7)]),
      ('few-ulps', False, [(-TINY, TINY), (ulps(-0.1, -2), -0.1), (0.0, TINY)]),
      ('huge', False, [(-1e300, 1e300), (-FMAX / 2, FMAX / 2), (-FMAX, 0.0)]),
      ('width-overflow', False, [(-1e308, 1e308), (-FMAX, FMAX)]),
  ]


def float_family():
  """Fixed descriptions: every scale x groups of <= 3 float ranges of one
  class, alone / next to a choice / in a conditional sub-space of a sorted
  non-distinct multi-choice (the embedding rotates)."""
  out = []
  for scale in SCALES:
    for cls, positive, ranges in float_ranges():
      if not positive and scale in ('log', 'rlog'):
        continue                  # documented: min_value must be positive
      for at in range(0, len(ranges), 3):
        fs = [floatv(lo, hi, scale) for lo, hi in ranges[at:at + 3]]
        # (width-overflow: never conditional, so that every draw has the float)
        how = len(out) % (2 if cls == 'width-overflow' else 3)
        if how == 0:
          d = S.space(*fs)
        elif how == 1:
          d = S.space(S.choice(1, S.consts(2)), *fs)
        else:
          d = S.space(S.choice(2, [S.space(*fs), S.CONST, S.CONST], False, True))
        d = S.relocate(d)
        d['float_family'] = True
        out.append(d)
  return out


def vary_floats(desc, rng):
  """Gives the floats of a random description (fresh dicts) one scale and one
  class of range."""
  fl = G.float_elems(desc)
  if not fl:
    return
  scale = rng.choice(SCALES)
  cls = rng.choice(['keep', 'pinned', 'pinned', 'few-ulps', 'ordinary', 'huge'])
  positive = scale in ('log', 'rlog')
  for e in fl:
    e['scale'] = scale
    if cls == 'keep' and not (positive and e['lo'] <= 0):
      continue
    x = rng.choice([round(rng.uniform(0.01, 100.0), rng.choice([1, 1, 2, 3])),
                    10.0 ** rng.randint(-8, 8), rng.uniform(1e-3, 1e3),
                    float(rng.randint(1, 12))])
    if not positive and rng.random() < 0.3:
      x = -x
    if cls == 'pinned':
      lo, hi = x, x
    elif cls == 'few-ulps':
      lo, hi = x, ulps(x, rng.randint(1, 3))
    elif cls == 'huge':
      lo, hi = (abs(x) * 1e-290, abs(x) * 1e290) if positive else (-abs(x) * 1e290, abs(x) * 1e290)
    else:
      lo, hi = x, x + abs(x) * rng.choice([0.5, 1.0, 9.0])
    e['lo'], e['hi'] = float(lo), float(hi)


class SafeRandom(pyrandom.Random):
  """Harness-side sampler of float members: stays inside [a, b] also when
  b - a is not representable."""

  def uniform(self, a, b):
    r = self.random()
    return min(max(a * (1.0 - r) + b * r, a), b)


class ExtremeRandom(pyrandom.Random):
  """A `random.Random` whose float draws are extreme but admissible.

  mode `lo` / `hi` / `alt`: uniform(a, b) returns a / b / both in turn (both
  ends are admissible results of uniform); mode `r0` / `r1`: uniform is the
  stdlib formula a + (b - a) * random() with random() = 0.0 / the largest
  value below 1.0.  random() follows the mode as well; integer draws
  (getrandbits and all that is built on it) stay those of the seeded stdlib
  generator."""
  MODES = ('lo', 'hi', 'alt', 'r0', 'r1')
  BELOW_ONE = 1.0 - 2.0 ** -53

  def __init__(self, seed, mode):
    super().__init__(seed)
    self.mode = mode
    self.flip = 0

  def getrandbits(self, k):
    return super().getrandbits(k)

  def _low(self):
    if self.mode == 'alt':
      self.flip ^= 1
      return self.flip == 1
    return self.mode in ('lo', 'r0')

  def random(self):
    return 0.0 if self._low() else self.BELOW_ONE

  def uniform(self, a, b):
    if self.mode in ('r0', 'r1'):
      return a + (b - a) * self.random()
    return a if self._low() else b


# --------------------------------------------------------------------------
# Custom decision points: hostile but legal genomes, enumerable points.
# --------------------------------------------------------------------------

# (name for witnesses, genome): every one is a str, hence a legal custom
# decision; falsy, blank, words that read like other values, control and
# non-ASCII characters, very long.
STRINGS = [
    ('empty', ''), ('blank', ' '), ('zero', '0'), ('none-word', 'None'),
    ('false-word', 'False'), ('brackets', '[]'), ('minus-one', '-1'),
    ('number', '0.5'), ('nan-word', 'nan'), ('nul', '\x00'),
    ('newline', 'a\nb'), ('comma', 'x,y'), ('quotes', 'q\'"'),
    ('non-ascii', '\u00e9\u65e5\u672c'), ('astral', '\U0001F600'),
    ('long', 'x' * 5000), ('plain', 'abc'), ('a', 'a'), ('m', 'm'),
]
_STRING_NAMES = {v: n for n, v in STRINGS}
HOSTILE = [v for n, v in STRINGS if n not in ('plain', 'a', 'm')]
FOREIGN = []          # arguments a successor function did not expect


def string_name(v):
  return _STRING_NAMES.get(v) or 'str%d' % len(v)


def brief(m):
  """A member with its long genomes shortened (for samples and witnesses)."""
  if m is None or isinstance(m, str):
    return m
  return [x if not isinstance(x, str) or len(x) <= 20 else '<%s>' % string_name(x)
          for x in m]


def briefs(ms):
  return [brief(m) for m in ms]


def successor_fn(values):
  """The user's successor function of an enumerable custom point:
  None -> first value -> ... -> last value -> None (the end)."""
  def next_dna_fn(dna):
    if dna is None:
      return pg.DNA(values[0])
    v = dna.value
    if not isinstance(v, str) or v not in values:
      FOREIGN.append(repr(v)[:60])
      return None
    i = values.index(v)
    return pg.DNA(values[i + 1]) if i + 1 < len(values) else None
  return next_dna_fn


def customv(values=None):
  """Custom description; `values` makes the point enumerable (read by `build`
  and by the reference enumeration, not by reference membership: every str is
  a member of a custom point)."""
  e = S.custom()
  if values is not None:
    e['values'] = list(values)
  return e


def custom_family(nembed=None):
  """Fixed descriptions with enumerable custom points: groups of 3 hostile
  genomes as one increasing sequence and in a user order that is not
  increasing, each in every embedding (alone, right and left of a choice, two
  custom points in one space, in a candidate of a single and of a multi
  choice, in a candidate and again right of it; or in `nembed` of them, taken
  in turn); four sequences of one genome in the first two embeddings."""
  seqs = []
  for at in range(0, len(HOSTILE), 3):
    grp = HOSTILE[at:at + 3]
    inc = sorted(grp)
    seqs.append(inc)
    seqs.append(inc[1:] + inc[:1] if len(inc) > 1 else inc + ['m'])
  ngroups = len(seqs)
  seqs += [[v] for v in HOSTILE[:4]]          # (alone and next to a choice only)
  one2 = lambda: S.choice(1, S.consts(2))
  embed = [
      lambda v, w: S.space(customv(v)),
      lambda v, w: S.space(one2(), customv(v)),
      lambda v, w: S.space(customv(v), one2()),
      lambda v, w: S.space(customv(v), customv(w)),
      lambda v, w: S.space(S.choice(1, [S.CONST, S.space(customv(v))])),
      lambda v, w: S.space(S.choice(2, [S.space(customv(v)), S.CONST], False, False)),
      lambda v, w: S.space(S.choice(1, [S.CONST, S.space(customv(v))]), customv(w)),
  ]
  out = []
  for si, v in enumerate(seqs):
    w = seqs[(si + 1) % len(seqs)]
    if si >= ngroups:
      ems = embed[:2]
    elif nembed is None or nembed >= len(embed):
      ems = embed
    else:
      ems = [embed[(si * nembed + j) % len(embed)] for j in range(nembed)]
    for em in ems:
      d = S.relocate(em(v, w))
      d['custom_family'] = True
      out.append(d)
  return out


def infinite_family():
  """Fixed descriptions with 1..4 infinite elements (floats, custom points
  with and without successor function, choices with an infinite candidate)
  directly in ONE space: the root, or a candidate of a single / multi choice;
  a finite choice stands before, between or after them."""
  kinds = {
      'F': lambda: floatv(0.0, 1.0),
      'C': customv,
      'E': lambda: customv(['a', 'b']),
      'X': lambda: S.choice(1, [S.CONST, S.space(floatv(0.5, 2.0))]),
  }
  mixes = ['FFFF', 'CCCC', 'EEEE', 'FCFC', 'XFXE', 'EFCX']
  out = []
  for j in (1, 2, 3, 4):
    for mi, mix in enumerate(mixes):
      for nested in (0, 1):
        elems = [kinds[ch]() for ch in mix[:j]]
        at = (j + mi + nested) % (len(elems) + 1)
        elems[at:at] = [S.choice(1, S.consts(3))]
        if not nested:
          d = S.space(*elems)
        elif (j + mi) % 2:
          d = S.space(S.choice(1, [S.CONST, S.space(*elems)]))
        else:
          d = S.space(S.choice(2, [S.space(*elems), S.CONST], False, True),
                      S.choice(1, S.consts(2)))
        d = S.relocate(d)
        d['infinite_family'] = True
        out.append(d)
  return out


def vary_customs(desc, rng):
  """Makes some custom points of a random description (fresh dicts)
  enumerable: 1-4 pairwise different genomes, increasing or in user order."""
  for e in G.custom_elems(desc):
    if rng.random() < 0.6:
      vals = rng.sample(HOSTILE + ['abc', 'a', 'm'], rng.randint(1, 4))
      if rng.random() < 0.6:
        vals.sort()
      e['values'] = vals


def extras(ctx):
  key = ctx.params.get('custom_embed')
  if key not in _EXTRAS:
    _EXTRAS[key] = custom_family(key) + infinite_family()
  return _EXTRAS[key]


_EXTRAS = {}


def my_extras(ctx):
  """The custom and infinite families come last (earlier cases keep their
  index, hence their seed)."""
  return extras(ctx)[ctx.shard::ctx.nshards]


def family(ctx):
  """Every description of gen/spaces.exhaustive() with <= max_dnas members,
  plus every single flat choice (k <= 3, n <= 4, all modes) of any size, plus
  the fixed leaf family."""
  key = ctx.params['max_dnas']
  if key not in _FAMILY:
    sized = [(d, G.size(d)) for d in S.exhaustive(10 ** 9)]
    fam = [d for d, n in sized if n <= key]          # == S.exhaustive(key)
    fam += [d for d, n in sized if n > key and is_flat_single(d)]
    fam += leaf_family()
    _FAMILY[key] = fam
  return _FAMILY[key]


def setup(ctx):
  fam = family(ctx)
  ctx.notes['family_size'] = len(fam)
  ctx.notes['family_members'] = sum(G.size(d) or 0 for d in fam)
  ctx.notes['float_family_size'] = len(floats())
  ctx.notes['custom_family_size'] = len(custom_family(ctx.params.get('custom_embed')))
  ctx.notes['infinite_family_size'] = len(infinite_family())


def my_part(ctx):
  return family(ctx)[ctx.shard::ctx.nshards]


def floats():
  if not _FLOATS:
    _FLOATS.extend(float_family())
  return _FLOATS


_FLOATS = []


def my_floats(ctx):
  """The fixed float family comes after the random descriptions (so that
  those keep their case index, hence their seed)."""
  return floats()[ctx.shard::ctx.nshards]


def cases(ctx):
  n = (len(my_part(ctx)) + int(ctx.params['random']) + len(my_floats(ctx))
       + len(my_extras(ctx)))
  cap = ctx.params.get('cases')          # development only (PGVERIF_P_cases)
  return min(n, int(cap)) if cap else n


# --------------------------------------------------------------------------

class Raised:
  def __init__(self, e):
    self.e = e


def lib_call(ctx, label, fn, case):
  """Calls library code where no exception is expected."""
  try:
    return fn()
  except Exception as e:  # pylint: disable=broad-except
    frames = traceback.extract_tb(e.__traceback__)
    inner = frames[-1].filename if frames else ''
    if 'pyglove' in inner and '/pgverif/' not in inner:
      ctx.violation('unexpected-exception', label,
                    ''.join(traceback.format_exception(e))[-2500:], case)
      return Raised(e)
    raise


def dna_shape(d):
  """(value, children) shape of a pg.DNA through public attributes."""
  return G.Node(d.value, [dna_shape(c) for c in d.children])


def numbers(d):
  return tuple(d.to_numbers())


def same_shape(a, b):
  """Equality of two (value, children) trees in which NaN equals NaN."""
  same = (a.value == b.value or (a.value != a.value and b.value != b.value))
  return (same and type(a.value) is type(b.value)
          and len(a.children) == len(b.children)
          and all(same_shape(x, y) for x, y in zip(a.children, b.children)))


def mutation_of(base, t):
  """The rebind that turns the DNA of tree `base` into the DNA of tree `t`:
  {path: new value / new children} at the deepest node that covers the
  difference (paths are those of a pg.DNA: `children[i]...value`)."""
  path = ''
  while (same_shape(G.Node(base.value, []), G.Node(t.value, []))
         and len(base.children) == len(t.children)):
    diff = [i for i, (x, y) in enumerate(zip(base.children, t.children))
            if not same_shape(x, y)]
    if len(diff) != 1:
      break
    path += 'children[%d].' % diff[0]
    base, t = base.children[diff[0]], t.children[diff[0]]
  upd = {}
  if not same_shape(G.Node(base.value, []), G.Node(t.value, [])):
    upd[path + 'value'] = t.value
  if (len(base.children) != len(t.children) or
      any(not same_shape(x, y) for x, y in zip(base.children, t.children))):
    upd[path + 'children'] = [make_dna(ch) for ch in t.children]
  return upd


def check_mutated(ctx, rng, desc, spec, m, t, name, case):
  """A member DNA that is bound to the spec and then changed in place
  (rebind, public on every symbolic object) into the non-member `t`: binding
  it again - to the same spec object or to an equal spec built again - and
  validate must reject it like the same tree built afresh."""
  c = ctx.counters
  base = G.tree(desc, m)
  d = make_dna(base, spec)
  upd = mutation_of(base, t)
  try:
    d.rebind(upd)
  except Exception:  # pylint: disable=broad-except
    c['mutation_refused'] += 1          # e.g. the value field rejects the type
    return
  if not same_shape(dna_shape(d), t):
    c['mutation_reshaped'] += 1
    return
  how = '; '.join(sorted(upd))
  origin = (f'member {G.nested(base)!r:.300} bound with DNA(..., spec=), then '
            f'rebind of {how} into {tree_src(t):.300} ({name})')
  ok, _ = accepts(lambda: spec.validate(d))
  c['nonmember_mutated_validate'] += 1
  if ok:
    ctx.violation('nonmember-accepted', 'validate[bound-then-mutated]',
                  f'validate accepted: {origin}', case)
  rel = 'equal-spec' if rng.random() < 0.25 else 'same-spec-object'
  target = spec if rel == 'same-spec-object' else build(desc)
  ok, _ = accepts(lambda: d.use_spec(target))
  c['nonmember_mutated_bind'] += 1
  c['nonmember_mutated_bind:' + rel] += 1
  if ok:
    ctx.violation('nonmember-accepted', f'use_spec[bound-then-mutated]:{rel}',
                  f'use_spec({rel}) accepted: {origin}', case)


def point_of_first_diff(desc, ref, i):
  """Kind of the decision point that changes between ref[i-1] and ref[i]."""
  if not ref:
    return 'space'
  if i <= 0 or i >= len(ref):
    i = min(max(i, 0), len(ref) - 1)
    pts = G.walk(desc, ref[i])
    return pts[-1].kind if pts else 'space'
  a, b = ref[i - 1], ref[i]
  p = 0
  while p < min(len(a), len(b)) and a[p] == b[p]:
    p += 1
  for pt in G.walk(desc, b):
    if pt.pos == p:
      return pt.kind
  return 'space'


def wrong_size_point(desc, spec):
  """Kind of the innermost decision point whose space_size is wrong."""
  for e, s in zip(desc['elems'], spec.elements):
    exp = G.elem_size(e)
    if e['t'] == 'choice':
      for c, cs in zip(e['cands'], s.candidates):
        r = wrong_size_point(c, cs)
        if r:
          return r
    got = s.space_size
    if got != (-1 if exp is None else exp):
      return G.kind(e)
  return None


def wrong_size_node(desc, spec):
  """Innermost node of the spec tree whose space_size is not the reference's
  reported size: the kind of a decision point, or `space` for a (sub-)space
  whose elements all report the right size."""
  for e, s in zip(desc['elems'], spec.elements):
    if e['t'] == 'choice':
      for c, cs in zip(e['cands'], s.candidates):
        r = wrong_size_node(c, cs)
        if r:
          return r
    if s.space_size != G.reported_elem_size(e):
      return G.kind(e)
  if spec.space_size != G.reported_size(desc):
    return 'space'
  return None


def check_size(ctx, desc, spec, case):
  """space_size against the reference: the number of members, -1 as soon as
  one float or custom point is reachable."""
  c = ctx.counters
  want = G.reported_size(desc)
  sz = lib_call(ctx, 'space_size', lambda: spec.space_size, case)
  c['size_checks'] += 1
  if want == -1:
    c['size_checks_infinite'] += 1
    c['size_checks_infinite:direct=%d' % min(G.max_infinite_direct(desc), 4)] += 1
  if isinstance(sz, Raised) or sz == want:
    return
  if want == -1:
    ctx.violation('size', 'space_size[infinite]:' + (wrong_size_node(desc, spec) or 'space'),
                  f'space_size {sz}, reference -1 (a float or custom point is '
                  f'reachable; at most {G.max_infinite_direct(desc)} infinite '
                  f'elements directly in one space)', case)
  else:
    ctx.violation('size', 'space_size:' + (wrong_size_point(desc, spec) or 'space'),
                  f'space_size {sz}, reference {want}', case)


# --------------------------------------------------------------------------
# Corruptions.
# --------------------------------------------------------------------------

def nodes_of(node, out=None):
  out = [] if out is None else out
  out.append(node)
  for c in node.children:
    nodes_of(c, out)
  return out


def make_dna(node, spec=None):
  """pg.DNA built node by node (every (value, children) shape is expressible,
  unlike the nested-number form)."""
  kids = [make_dna(c) for c in node.children]
  if spec is None:
    return pg.DNA(node.value, kids)
  return pg.DNA(node.value, kids, spec=spec)


def tree_src(node):
  """Source text that rebuilds the DNA of a tree (for witnesses)."""
  if not node.children:
    return f'DNA({node.value!r})'
  return f'DNA({node.value!r}, [{", ".join(tree_src(c) for c in node.children)}])'


EXTRA_COUNTS = (1, 2, 3)


def corruptions(rng, desc, flat):
  """(name, kind, tree, variant) of every one-step corruption of a member,
  shuffled.

  kind = class of the decision point that owns the corrupted node (oneof,
  manyof, float, custom), `group` for a value-less node with children (root of
  a space with several elements, the picks of a multi-choice) or `constant`
  for the root of a constant space.  variant = finer class of the same
  (name, kind), e.g. how many children were added and whether the node was a
  leaf; it selects what is tried and is not part of a key."""
  pts = G.walk(desc, flat)
  base = G.tree(desc, flat)
  out = []

  def variant():
    t = G.copy_tree(base)
    return t, nodes_of(t)

  def kind_of(n):
    if n.point is None:
      return 'group' if n.children else 'constant'
    return pts[n.point].kind.split('[')[0]

  owner = {}
  all_nodes = nodes_of(base)
  for idx, n in enumerate(all_nodes):
    if n.point is not None:
      owner[n.point] = idx
  for pi, pt in enumerate(pts):
    if pi not in owner:
      continue
    ni = owner[pi]
    knd = pt.kind.split('[')[0]
    if pt.elem['t'] == 'choice':
      n = pt.n
      vals = [('index-negative', -1), ('index-negative', -n),
              ('index-too-large', n), ('index-too-large', n + 2),
              ('index-float', float(pt.value)), ('index-str', str(pt.value)),
              ('index-none', None)]
    elif pt.elem['t'] == 'float':
      lo, hi = pt.elem['lo'], pt.elem['hi']
      vals = [('float-low', lo - 0.5), ('float-high', hi + 0.5),
              ('float-low-ulp', math.nextafter(lo, -math.inf)),
              ('float-high-ulp', math.nextafter(hi, math.inf)),
              ('float-int', int(lo) if float(int(lo)) >= lo else int(hi)),
              ('float-str', repr(pt.value)), ('float-none', None),
              ('float-nan', math.nan)]
    else:
      vals = [('custom-int', 3), ('custom-float', 0.5), ('custom-none', None)]
    for name, v in vals:
      t, ns = variant()
      ns[ni].value = v
      out.append((name, knd, t, None))
  # structure: k extra children (k = 1, 2, 3; one child alone may be absorbed
  # by DNA normalisation) after, before or among the children of every node:
  # leaves (constant candidates of single and multi choices, floats, custom
  # points, the constant root) and inner nodes alike
  for ni, n in enumerate(all_nodes):
    for k in EXTRA_COUNTS:
      t, ns = variant()
      vals = rng.choice([[0] * k, list(range(k)), list(range(k, 0, -1))])
      at = rng.choice([len(n.children), len(n.children), 0,
                       rng.randint(0, len(n.children))])
      ns[ni].children[at:at] = [G.Node(v, []) for v in vals]
      out.append(('extra-child', kind_of(n), t,
                  ('one' if k == 1 else 'several',
                   'inner' if n.children else 'leaf')))
    if n.children:
      t, ns = variant()
      del ns[ni].children[rng.randrange(len(n.children))]
      out.append(('dropped-child', kind_of(n), t, None))
    if n.value is None and n.children:
      t, ns = variant()
      ns[ni].value = 0
      out.append(('stray-value', 'group', t, None))
  # sibling picks of one multi-choice
  groups = {}
  for pi, pt in enumerate(pts):
    if pt.sub is not None and pi in owner:
      groups.setdefault((id(pt.elem), pt.path[:-1]), []).append(pi)
  for grp in groups.values():
    e = pts[grp[0]].elem
    for a, b in zip(grp, grp[1:]):
      if e['sorted'] and pts[a].value != pts[b].value:
        t, ns = variant()
        na, nb = ns[owner[a]], ns[owner[b]]
        na.value, nb.value = nb.value, na.value
        na.children, nb.children = nb.children, na.children
        out.append(('unsorted-picks', 'manyof', t, None))
      if e['distinct'] and pts[a].value != pts[b].value:
        t, ns = variant()
        na, nb = ns[owner[a]], ns[owner[b]]
        nb.value, nb.children = na.value, [G.copy_tree(c) for c in na.children]
        out.append(('duplicated-pick', 'manyof', t, None))
  rng.shuffle(out)
  return out


def flat_corruptions(rng, desc, flat):
  flat = list(flat)
  out = [('extra-decision', flat + [0])]
  if flat:
    out.append(('missing-decision', flat[:-1]))
  for pt in G.walk(desc, flat):
    if pt.elem['t'] == 'choice':
      for name, v in (('index-negative', -1), ('index-too-large', pt.n)):
        c = list(flat)
        c[pt.pos] = v
        out.append((name, c))
    elif pt.elem['t'] == 'float':
      for name, v in (('float-low', pt.elem['lo'] - 1.0), ('float-high', pt.elem['hi'] + 1.0),
                      ('float-nan', math.nan)):
        c = list(flat)
        c[pt.pos] = v
        out.append((name, c))
  for i in range(len(flat) - 1):
    if flat[i] != flat[i + 1]:
      c = list(flat)
      c[i], c[i + 1] = c[i + 1], c[i]
      out.append(('swapped-decisions', c))
      c = list(flat)
      c[i + 1] = c[i]
      out.append(('repeated-decision', c))
  rng.shuffle(out)
  return out


# --------------------------------------------------------------------------

def accepts(fn):
  try:
    fn()
    return True, None
  except Exception as e:  # pylint: disable=broad-except
    return False, e


def check_members(ctx, desc, spec, members, case):
  c = ctx.counters
  for m in members:
    t = G.tree(desc, m)
    form = G.nested(t)
    d = lib_call(ctx, 'DNA()', lambda: pg.DNA(form), case)
    if isinstance(d, Raised):
      continue
    if dna_shape(d) != t:
      ctx.violation('dna-shape', 'DNA()', f'pg.DNA({form!r}) has shape '
                    f'{dna_shape(d)!r}, documented shape {t!r}', case)
      continue
    ok, e = accepts(lambda: spec.validate(d))
    c['member_validate'] += 1
    if not ok:
      ctx.violation('member-rejected', 'validate',
                    f'member {form!r} rejected: {e!r:.300}', case)
    ok, e = accepts(lambda: pg.DNA(form, spec=spec))
    c['member_bind'] += 1
    if not ok:
      ctx.violation('member-rejected', 'bind',
                    f'DNA({form!r}, spec=) rejected: {e!r:.300}', case)
    try:
      b = pg.DNA.from_numbers(list(m), spec)
      c['member_from_numbers'] += 1
      if numbers(b) != tuple(m) or dna_shape(b) != t:
        ctx.violation('member-rejected', 'from_numbers',
                      f'from_numbers({list(m)!r}) gives {b!r}', case)
    except Exception as e:  # pylint: disable=broad-except
      c['member_from_numbers'] += 1
      ctx.violation('member-rejected', 'from_numbers',
                    f'from_numbers({list(m)!r}) rejected: {e!r:.300}', case)


def check_nonmembers(ctx, rng, desc, spec, members, case, all_kinds=False):
  """validate / binding / from_numbers must reject one-step corruptions.

  Per member one corruption of every (name, kind, variant) class is tried (the
  variant, e.g. one / several extra children below a leaf / an inner node, is
  not part of the key).  A corrupted tree
  that pg.DNA normalises into another shape is judged on the shape the DNA
  reports and keyed `reshaped:tree` (it is no longer the corruption applied).
  """
  c = ctx.counters
  max_kinds = (not all_kinds and ctx.params.get('corrupt_kinds')) or 10 ** 9
  max_flat = (not all_kinds and ctx.params.get('flat_kinds')) or 10 ** 9
  max_mutated = ctx.params.get('mutate')
  max_mutated = 10 ** 9 if max_mutated is None else max_mutated
  for m in members:
    seen_kinds = set()
    tried = mutated = 0
    for name, knd, t, var in corruptions(rng, desc, m):
      cls = (name, knd, var)
      if cls in seen_kinds:
        continue
      if tried >= max_kinds:
        break
      try:
        d = make_dna(t)
      except Exception:  # pylint: disable=broad-except
        c['corruption_not_constructible'] += 1
        seen_kinds.add(cls)
        continue
      shape = dna_shape(d)
      if G.tree_is_member(desc, shape):
        c['corruption_is_member'] += 1
        continue
      seen_kinds.add(cls)
      tried += 1
      key = (name, knd)
      if not same_shape(shape, t):
        c['corruption_reshaped'] += 1
        key = ('reshaped', 'tree')
      c['corruption:' + key[0]] += 1
      if var is not None and key[0] == name:
        c['corruption:%s:%s' % (name, '-'.join(var))] += 1
      ctx.seen('corruption_kinds', key)
      ctx.seen('corruption_classes', (key, var))
      src = tree_src(t)
      origin = f'corruption {name} of member {G.nested(G.tree(desc, m))!r}'
      ok, _ = accepts(lambda: spec.validate(d))
      c['nonmember_validate'] += 1
      if ok:
        ctx.violation('nonmember-accepted', f'validate:{key[0]}:{key[1]}',
                      f'validate accepted {src} = {d!r:.600} ({origin:.600})', case)
      ok2, _ = accepts(lambda: make_dna(t, spec))
      c['nonmember_bind'] += 1
      if ok2:
        ctx.violation('nonmember-accepted', f'bind:{key[0]}:{key[1]}',
                      f'{src[:-1]:.600}, spec=) accepted ({origin:.600})', case)
      # the same non-member reached by changing a bound member in place
      # (judged only where the tree built afresh is rejected by both)
      if key[0] == name and not ok and not ok2 and mutated < max_mutated:
        mutated += 1
        check_mutated(ctx, rng, desc, spec, m, t, name, case)
    seen = set()
    for name, flat in flat_corruptions(rng, desc, m):
      if name in seen or G.is_member(desc, flat):
        continue
      if len(seen) >= max_flat:
        break
      seen.add(name)
      ok, _ = accepts(lambda: pg.DNA.from_numbers(flat, spec))
      c['nonmember_from_numbers'] += 1
      if ok:
        ctx.violation('nonmember-accepted', f'from_numbers:{name}',
                      f'from_numbers({flat!r}) accepted', case)


def other_specs():
  """A few fixed finite specs (built once per shard) a generator is set up on
  between two uses: (description, spec object, reference enumeration)."""
  if not _OTHERS:
    for d in (S.space(S.choice(1, S.consts(3))),
              S.space(S.choice(2, S.consts(3), True, True)),
              S.space(S.choice(1, [S.CONST, S.space(S.choice(1, S.consts(2)))]),
                      S.choice(1, S.consts(2)))):
      d = S.relocate(d)
      _OTHERS.append((d, build(d), list(G.enumerate_flat(d))))
  return _OTHERS


_OTHERS = []


def check_random(ctx, rng, desc, spec, case):
  c = ctx.counters
  r = pyrandom.Random(rng.randrange(1 << 30))
  fkey = float_key(desc)
  sfx = (':' + fkey) if fkey else ''

  def judge(entry, d, target=desc):
    """Reference membership (genoref) of one returned DNA."""
    c['random_dna_checks'] += 1
    flat = numbers(d)
    why = G.why_not(target, flat)
    if why is None and G.tree(target, flat) != dna_shape(d):
      why = ('shape', 'tree')
    if why is not None:
      knd = fkey if (why[1] == 'float' and target is desc) else why[1]
      ctx.violation('random-nonmember', f'{entry}:{knd}:{why[0]}',
                    f'{entry} returned {d!r} = {flat!r}: {why}', case)

  for j in range(ctx.params['draws']):
    # the first draw is taken unbound, so that a non-member is seen as such
    # and not only through the binding check inside random_dna
    kw = {'attach_spec': False} if j == 0 else {}
    d = lib_call(ctx, 'random_dna' + sfx, lambda: spec.random_dna(r, **kw), case)
    if isinstance(d, Raised):
      break
    judge('random_dna', d)
  # float draws at the ends of their ranges: generators whose uniform() /
  # random() return the extremes a random.Random may return
  if fkey:
    bound = rng.sample(ExtremeRandom.MODES, ctx.params.get('stub_draws', 1))
    for mode in ExtremeRandom.MODES:
      x = ExtremeRandom(rng.randrange(1 << 30), mode)
      # unbound first (see above); stub_draws of the modes draw once more, bound
      for kw in [{'attach_spec': False}] + [{}] * (mode in bound):
        # (a bound draw that raises is labelled by the entry point alone)
        d = lib_call(ctx, ('random_dna[extreme-rng]' if kw else 'random_dna') + sfx,
                     lambda: spec.random_dna(x, **kw), case)
        if isinstance(d, Raised):
          break
        c['random_dna_extreme_rng'] += 1
        c['random_dna_extreme_rng:' + mode] += 1
        judge('random_dna[extreme-rng]', d)
  # the functional entry point and the Random generator
  d = lib_call(ctx, 'pg.random_dna' + sfx, lambda: pg.random_dna(spec, r), case)
  if not isinstance(d, Raised):
    judge('pg.random_dna', d)
  a = pg.geno.Random(seed=rng.randrange(1000))
  def gen():
    a.setup(spec)
    return [a.propose() for _ in range(ctx.params.get('gen_draws', 3))]
  ds = lib_call(ctx, 'geno.Random' + sfx, gen, case)
  if isinstance(ds, Raised):
    return
  for d in ds:
    judge('geno.Random', d)
  # the same generator object set up on another spec, then on this one again
  if rng.random() >= ctx.params.get('regen', 1.0):
    return
  od, ospec, _ = rng.choice(other_specs())
  def regen():
    a.setup(ospec)
    first = a.propose()
    a.setup(spec)
    return first, a.propose()
  ds = lib_call(ctx, 'geno.Random:re-setup' + sfx, regen, case)
  if not isinstance(ds, Raised):
    c['random_generator_reused'] += 1
    judge('geno.Random:re-setup', ds[0], od)
    judge('geno.Random:re-setup', ds[1])


def sweep_history(ctx, rng, desc, spec, exp, sweep_all, nsweep, case):
  """One Sweeping generator object through a history of setup() calls.

  Every setup(target) is followed by n proposals, which must be the first n
  DNAs of the reference enumeration of that target (and StopIteration after
  the last).  Targets: `A` this spec object, `A2` an equal spec that is another
  object (built again from the description or a deep clone), `B` another spec.
  The history always contains the main sweep of `A` (whole sequence and its
  end when sweep_all, else nsweep proposals): first thing on the fresh
  generator, or after a warm-up use of 0, 1, 2 or all proposals; it is
  followed by 1..reuse_tail further short uses.  Mechanism = relation of the
  target to the history: fresh generator, the object of the previous setup,
  an equal copy of it, an object set up earlier, another spec."""
  c = ctx.counters
  targets = {'A': (S.show(desc), spec, exp, sweep_all)}

  def target(name):
    if name not in targets:
      if name == 'A2':
        how = rng.choice(['built-again', 'clone-deep'])
        obj = build(desc) if how == 'built-again' else spec.clone(deep=True)
        c['sweep_equal_copy:' + how] += 1
        targets[name] = (S.show(desc), obj, exp, sweep_all)
      else:
        od, ospec, oref = rng.choice(other_specs())
        targets[name] = (S.show(od), ospec, oref, True)
    return targets[name]

  def short(name, warm):
    n = rng.choice([0, 1, 1, 2, 2, 'all', 'all+stop'] if warm else [1, 1, 2])
    if isinstance(n, str):
      _, _, ref, complete = target(name)
      n = (len(ref) + (n == 'all+stop')) if complete and len(ref) <= 6 else 3
    return (name, n)

  # (an equal copy costs as much as the spec: only for specs of <= 30 points)
  copies = ['A2'] if S.count_points(desc) <= 30 else ['A']
  pick = lambda: rng.choice(['A', 'A', 'A', 'A', 'B', 'B'] + copies)
  tail = ctx.params.get('reuse_tail', 1)
  steps = []
  if rng.random() < 0.5:
    steps += [short(pick(), True), ('A', 'main')]
    ntail = rng.randint(1, tail) if tail > 1 else int(rng.random() < 0.3)
  else:
    steps.append(('A', 'main'))
    ntail = rng.randint(1, tail)
  for _ in range(ntail):
    steps.append(short(pick(), False))

  a = pg.geno.Sweeping()
  prev, used, before = None, [], 'nothing'
  for name, n in steps:
    shown, obj, ref, complete = target(name)
    if prev is None:
      rel = 'fresh'
    elif obj is prev[1]:
      rel = 'same-object'
    elif shown == prev[0]:
      rel = 'equal-copy'
    elif any(obj is u for u in used):
      rel = 'earlier-object'
    else:
      rel = 'other-spec'
    main = n == 'main'
    if main:
      n = nsweep
    def use():
      a.setup(obj)
      out = []
      try:
        while len(out) < n:
          out.append(numbers(a.propose()))
      except StopIteration:
        out.append('stop')
      return out
    label = 'Sweeping' if rel == 'fresh' else 'Sweeping:re-setup:' + rel
    s = lib_call(ctx, label, use, case)
    c['sweeping_checks'] += 1
    if main:
      c['sweeping_full' if sweep_all else 'sweeping_prefix'] += 1
    c['sweeping_setup:' + rel] += 1
    c['sweeping_setup_after:' + before] += 1
    if isinstance(s, Raised):
      return
    c['sweeping_proposals'] += len(s)
    want = list(ref[:n])
    if complete and n > len(ref):
      want.append('stop')
    if s[:len(want)] != want:
      mech = 'Sweeping.propose' if rel == 'fresh' else 're-setup:' + rel
      ctx.violation('sweeping', mech,
                    f'history {steps!r}: after setup({name}) ({rel}, the '
                    f'generator had proposed {before} since its previous '
                    f'setup) proposed {briefs(s[:6])!r}... ({len(s)}), reference '
                    f'{briefs(want[:6])!r}... ({len(want)})', case)
      return
    if rel != 'fresh':
      c['sweeping_reuse_checks'] += 1
    got = [x for x in s if x != 'stop']
    before = ('nothing' if not got else
              'all-and-stop' if 'stop' in s else
              'all' if complete and len(got) == len(ref) else 'some')
    prev = (shown, obj)
    used.append(obj)


def check_finite(ctx, rng, desc, spec, size, case, exhaustive=False):
  """Iteration, size, order, end, next_dna, Sweeping for a space that can be
  iterated to its end (`size` members: choices and enumerable custom points)."""
  c = ctx.counters
  ordered = G.increasing_customs(desc)
  full = exhaustive or size <= ctx.params['random_max']
  limit = size if full else ctx.params.get('prefix', 60)
  ref = []
  for m in G.enumerate_members(desc):
    ref.append(m)
    if len(ref) >= limit + (0 if full else 1):
      break
  # -- iteration
  got, dnas = [], []
  def iterate():
    for d in spec.iter_dna():
      got.append(numbers(d))
      dnas.append(d)
      if len(got) >= (len(ref) + 3 if full else limit):
        break
  r = lib_call(ctx, 'iter_dna', iterate, case)
  if full:
    c['iter_full'] += 1
  else:
    c['iter_prefix'] += 1
  c['iterated_dnas'] += len(got)
  exp = ref if full else ref[:limit]
  if not isinstance(r, Raised) and got != exp:
    i = 0
    while i < min(len(got), len(exp)) and got[i] == exp[i]:
      i += 1
    mech = 'iter_dna:' + point_of_first_diff(desc, ref, i)
    detail = (f'position {i}: got {briefs(got[i:i + 3])!r}, reference {briefs(exp[i:i + 3])!r}; '
              f'{len(got)} iterated, {len(exp)} expected')
    if full and len(got) != len(set(got)):
      ctx.violation('iter-duplicate', mech, detail, case)
    elif full and set(got) == set(exp):
      ctx.violation('iter-order', mech, detail, case)
    elif full and len(got) > len(exp) and got[:len(exp)] == exp:
      ctx.violation('iter-no-end', mech, detail, case)
    else:
      ctx.violation('iter-set', mech, detail, case)
  # -- size
  check_size(ctx, desc, spec, case)
  # -- strictly increasing under the library's <, agreement with the reference
  # (the order of a custom point is its user's: judged when it increases)
  if not ordered:
    c['order_left_to_user'] += 1
  for a, b in zip(dnas, dnas[1:]) if ordered else ():
    c['lt_checks'] += 1
    try:
      ok = (a < b) and not (b < a) and a != b and not (a == b)
    except Exception as e:  # pylint: disable=broad-except
      ok = False
    if not ok:
      ctx.violation('not-increasing', 'DNA.__lt__',
                    f'{a!r:.300} then {b!r:.300}', case)
      break
  if len(dnas) >= 2 and got == exp and ordered:
    for _ in range(min(12, len(dnas))):
      i, j = rng.randrange(len(dnas)), rng.randrange(len(dnas))
      c['lt_checks'] += 1
      want = G.compare(got[i], got[j])
      try:
        have = (-1 if dnas[i] < dnas[j] else (1 if dnas[j] < dnas[i] else 0))
        eq = dnas[i] == dnas[j]
      except Exception as e:  # pylint: disable=broad-except
        have, eq = repr(e), None
      if have != want or eq != (want == 0):
        ctx.violation('lt-disagrees', 'DNA.__lt__',
                      f'{dnas[i]!r:.300} vs {dnas[j]!r:.300}: library {have}/{eq}, '
                      f'reference {want}', case)
        break
  # -- next_dna from DNAs rebuilt from raw numbers
  if full and ref:
    picks = {len(ref) - 1}
    for _ in range(ctx.params.get('next_picks', 3)):
      picks.add(rng.randrange(len(ref)))
    for j in sorted(picks):
      # (the DNA as built, or sealed: a sealed member has the same successor)
      sealed = rng.random() < 0.4
      def nxt():
        d = pg.DNA(G.nested(G.tree(desc, ref[j])))
        return spec.next_dna(d.seal() if sealed else d)
      n = lib_call(ctx, 'next_dna[sealed]' if sealed else 'next_dna', nxt, case)
      c['next_checks'] += 1
      c['next_checks_sealed'] += sealed
      if isinstance(n, Raised):
        continue
      want = ref[j + 1] if j + 1 < len(ref) else None
      have = None if n is None else numbers(n)
      if have != want:
        clause = 'next-after-last' if want is None else 'next-wrong'
        ctx.violation(clause, 'next_dna:' + point_of_first_diff(desc, ref, j + 1),
                      f'next_dna({brief(ref[j])!r}) = {brief(have)!r}, reference {brief(want)!r}', case)
    # first_dna and DNA.next_dna()/iter_dna() on a bound DNA
    def first():
      f = spec.first_dna()
      rest = []
      for d in f.iter_dna():
        rest.append(numbers(d))
        if len(rest) >= nfirst:
          break
      return numbers(f), rest
    nfirst = ctx.params.get('first_iter', 5)
    r = lib_call(ctx, 'first_dna', first, case)
    c['next_checks'] += 1
    if not isinstance(r, Raised) and (r[0] != ref[0] or r[1] != ref[1:1 + nfirst]):
      ctx.violation('next-wrong', 'first_dna', f'{brief(r[0])!r}, {briefs(r[1])!r} vs '
                    f'{briefs(ref[:1 + nfirst])!r}', case)
  # -- Sweeping: the whole sequence and its end for spaces of <= sweep_full
  # members, else the first sweep_prefix proposals; on a fresh generator or on
  # one that was used before (see sweep_history)
  sweep_all = full and size <= ctx.params.get('sweep_full', 10 ** 9)
  nsweep = len(exp) + 2 if sweep_all else min(len(exp), ctx.params.get('sweep_prefix', 8))
  sweep_history(ctx, rng, desc, spec, list(exp), sweep_all, nsweep, case)
  return (ref, dnas if got == exp else None) if full else (None, None)


def run_case(ctx, i):
  rng = ctx.rng
  c = ctx.counters
  part = my_part(ctx)
  nrandom = int(ctx.params['random'])
  if i < len(part):
    desc = part[i]
    c['exhaustive_cases'] += 1
  elif i >= len(part) + nrandom + len(my_floats(ctx)):
    desc = my_extras(ctx)[i - len(part) - nrandom - len(my_floats(ctx))]
    c['exhaustive_cases'] += 1
    c['custom_family_cases' if desc.get('custom_family') else 'infinite_family_cases'] += 1
  elif i >= len(part) + nrandom:
    desc = my_floats(ctx)[i - len(part) - nrandom]
    c['exhaustive_cases'] += 1
    c['float_family_cases'] += 1
  else:
    c['random_cases'] += 1
    fl = rng.choice([0.0, 0.0, 0.15, 0.3, 0.5])
    desc = S.random_space(rng, max_depth=rng.choice([1, 2, 3]), max_elems=rng.choice([3, 3, 5]),
                          max_k=3, max_n=4, floats=fl, customs=fl / 3)
    vary_floats(desc, rng)
    vary_customs(desc, rng)
  case = {'space': show(desc)}
  spec = lib_call(ctx, 'build-spec', lambda: build(desc), case)
  if isinstance(spec, Raised):
    return
  size = G.size(desc)             # None: reported as infinite
  nenum = G.enum_size(desc)       # None: cannot be iterated
  members = dnas = None
  del FOREIGN[:]
  if nenum is not None:
    c['finite_specs' if size is not None else 'enumerable_custom_specs'] += 1
    members, dnas = check_finite(ctx, rng, desc, spec, nenum, case,
                                 exhaustive=i < len(part) or bool(desc.get('custom_family')))
    for v in {v for e in G.custom_elems(desc) for v in e.get('values') or ()}:
      ctx.seen('custom_genomes_enumerated', string_name(v))
  else:
    c['infinite_specs'] += 1
    check_size(ctx, desc, spec, case)
  # every iterated DNA (they equal the reference members here) has the
  # documented shape and is accepted by validate
  if dnas is not None:
    step = max(1, -(-len(dnas) // ctx.params.get('validate_iterated', 10 ** 9)))
    for m, d in list(zip(members, dnas))[::step]:
      c['member_validate'] += 1
      c['iterated_validated'] += 1
      if dna_shape(d) != G.tree(desc, m):
        ctx.violation('dna-shape', 'iter_dna', f'iterated {d!r} has shape '
                      f'{dna_shape(d)!r}, documented {G.tree(desc, m)!r}', case)
        break
      ok, e = accepts(lambda: spec.validate(d))
      if not ok:
        ctx.violation('member-rejected', 'validate',
                      f'iterated member {d!r} rejected: {e!r:.300}', case)
        break
  # members for DNA()/validate/binding/from_numbers: reference-sampled
  nm = ctx.params['members']
  if members is not None and len(members) <= nm:
    sample = list(members)
  elif members is not None:
    sample = [members[0], members[-1]] + [rng.choice(members) for _ in range(nm - 2)]
  else:
    safe = SafeRandom(rng.randrange(1 << 30))
    sample = [G.random_member_from(desc, safe, HOSTILE + ['abc'])
              for _ in range(nm)]
  check_members(ctx, desc, spec, sample, case)
  check_nonmembers(ctx, rng, desc, spec,
                   [rng.choice(sample) for _ in range(ctx.params['corrupt'])], case,
                   all_kinds=(size is None and i < len(part)
                              and not desc.get('float_family')))
  check_random(ctx, rng, desc, spec, case)
  c['custom_fn_foreign_argument'] += len(FOREIGN)
  if (size is None or size >= 2) and (
      any(e['t'] == 'choice' and (e['k'] > 1 or any(cd['elems'] for cd in e['cands']))
          for e in desc['elems'])):
    ctx.mark_nontrivial(show(desc))
  ctx.seen('sizes', size)
  if i < 2:
    ctx.sample({'space': show(desc), 'size': size,
                'first_members': [brief(m) for m in sample[:3]]})
