"""C12 — DNA views are lossless and stay aligned with the specification.

Three families of monitors, all against the independent reference
`monitors/genoref.py` (decision-point map of a member, documented tree shape):

* content / round trip (on DNAs built from raw reference members): every view
  (`to_numbers` flat and nested, `to_dict` over the full parameter product,
  JSON compact / verbose / text / raw) shows what the reference says was decided
  where, and reconstructs an equal DNA together with the specification;
* lookups by id (str, KeyPath), name, decision point and multi-choice parent
  return the decision made there (None when inactive);
* alignment: every DNA handed out by the library (iteration, random
  generation, parsing, cloning, JSON + re-binding, every mutator and
  recombinator of pyglove.ext.evolution, in chains) has each node bound to the
  decision point of its own position: same per-node `spec`, same views as a
  DNA rebuilt from its raw numbers. This includes histories of requests on
  one long-lived spec object and on its parts used as specs of their own
  (`run_history`): the producers are asked in any order, with attach_spec both
  ways, after the enclosing space has iterated the part internally.
"""
import copy
import itertools
import random as pyrandom
import traceback

import pyglove as pg
from pgverif.gen import spaces as S
from pgverif.monitors import genoref as G

TIERS = {
    'quick': dict(shards=8, cases=10, dnas=6, handed=3, per_member_sources=14,
                  chains=3, proposals=7, max_points=10, histories=1,
                  hist_ops=12, hist_parts=4, timeout_s=900,
                  case_timeout_s=300),
    'thorough': dict(shards=16, cases=64, dnas=8, handed=4, per_member_sources=24,
                     chains=5, proposals=10, max_points=18, all_views_per_case=True,
                     histories=2, hist_ops=24, hist_parts=5, timeout_s=7200,
                     case_timeout_s=600),
}
RULE = ('case = one random search-space description of gen/spaces.random_space '
        '(<= 3 top-level elements, nesting depth <= 3, <= max_points decision points, '
        'choices of k <= 3 of n <= 4 in all distinct/sorted modes, floats, custom '
        'points, unique names on about half of the points, pairwise distinct literal '
        'values of five kinds on about half of the choices); half of the specs are '
        'constructed by gen/spaces.build_reusing from library objects that belonged to '
        'another spec before (candidates / elements taken from a one-of, many-of, '
        'subchoice or space donor where they sat at other positions, as they are or '
        'cloned / deep-copied / JSON-copied, ids of the donor read or not), the '
        'reference decision-point map being derived from the description alone. '
        'Per case: `dnas` '
        'reference members rebuilt from raw numbers are pushed through the views - '
        'to_numbers flat/nested, JSON compact/verbose/text/raw, to_dict over 3 key '
        'types x 5 value types x 3 multi-choice modes x include-inactive (all 90 views '
        'on the first two members, a rotating third on the others) plus 5 filters - '
        'and compared with the reference decision-point map; reconstructed with '
        'from_numbers / DNA() / from_json and with from_dict (every view once per case '
        'in thorough, every second view per case in quick, the 9 most default views '
        'always); looked up by id, KeyPath, name, decision point and multi-choice '
        'parent. Then DNAs handed out by the library (iter_dna, first/next_dna, '
        'Sweeping, random_dna with and without previous_dna, geno.Random, parse, '
        'from_numbers, from_dict, from_fn, clone/copy deep and shallow, JSON + use_spec, '
        're-binding from a second build of the spec), `chains` chains of 1-4 evolution '
        'operators (2 mutators, 9 recombinators; outputs healed between steps) and '
        'the proposals of a short Evolution run are compared node by node (node.spec '
        'vs the reference point of that position) and view by view (5 fixed views + 1 '
        'random, the full product on 5 %) with a DNA rebuilt from their raw numbers. '
        'Finally `histories` histories of `hist_ops` requests on ONE long-lived spec '
        'object (the one all sources above used, or a build that never handed out a '
        'DNA) and on <= hist_parts of its parts used as specs of their own (elements '
        'of the space and of nested sub-spaces, sub-choices of a multi-choice, '
        'candidate sub-spaces): first_dna / next_dna / iter_dna / random_dna with '
        'attach_spec left out, True or False, DNA.next_dna / DNA.iter_dna, in random '
        'order, so that parts are asked after the enclosing space iterated them '
        'internally and after an attach_spec=False request; every result is compared '
        'with the reference enumeration of the part (first member, successor, '
        'membership) and, unless attach_spec=False (binding left open), aligned like '
        'every other handed-out DNA, ids relative to the whole spec. '
        'Non-trivial = the space has a multi-choice or a conditional sub-space and at '
        'least one handed-out DNA was compared; distinct by description.')
REQUIRED_COUNTERS = ['to_dict_content_checks', 'from_dict_roundtrips',
                     'specs_built:reused-objects', 'reused_at_other_position',
                     'numbers_roundtrips', 'json_roundtrips', 'lookup_checks',
                     'alignment_checks', 'node_binding_checks',
                     'operator_outputs_checked', 'history_sub_spec_requests',
                     'history_requests_after_enclosing_use',
                     'history_requests_after_unattached']
ASSUMPTIONS = [
    'decision-point names are unique per declared point (the library itself repeats a name on the subchoices of a multi-choice and on the copies of a conditional sub-space below a multi-choice); for a name shared by several points only the set and order of the active decisions is checked',
    'literal values are pairwise distinct, never of the form i/n; use_ints_as_literals is passed for the literal view when a choice has int literals',
    'dict views are compared as dicts (key order is left open); DNA-valued entries by (value, children) shape; DNASpec keys by identity with the decision point of the bound spec that has that id',
    'filtered views are lossy by construction: only their content and alignment are checked, not reconstruction',
    'operators are only a source of DNAs: an operator that raises or returns a non-member is counted and skipped (C14)',
    'a DNA is equal to another iff the library == says so AND the (value, children) shapes with value types agree',
    'a part of a spec (element, sub-choice, candidate sub-space) asked for DNAs on its own spans the space of its own description (a sub-choice: one choice among its candidates) and keeps the decision-point ids it has inside the whole spec; whether a DNA requested with attach_spec=False is bound is left open, its value is not',
]

KEY_TYPES = ['id', 'name_or_id', 'dna_spec']
VALUE_TYPES = ['value', 'dna', 'choice', 'literal', 'choice_and_literal']
MC_KEYS = ['subchoice', 'parent', 'both']
DEFAULT_VIEW = dict(kt='id', vt='value', mck='subchoice', inactive=False)


def _views():
  out = []
  for kt, vt, mck, ina in itertools.product(KEY_TYPES, VALUE_TYPES, MC_KEYS,
                                            [False, True]):
    v = dict(kt=kt, vt=vt, mck=mck, inactive=ina)
    nd = sum(1 for k in v if v[k] != DEFAULT_VIEW[k])
    out.append((nd, KEY_TYPES.index(kt), VALUE_TYPES.index(vt),
                MC_KEYS.index(mck), ina, v))
  out.sort(key=lambda t: t[:5])
  return [t[5] for t in out]


VIEWS = _views()          # minimal (most default) views first


def view_name(v, extra=None):
  parts = [f'{k}={v[k]}' for k in ('kt', 'vt', 'mck')
           if v[k] != DEFAULT_VIEW[k]]
  if v['inactive']:
    parts.append('inactive')
  if extra:
    parts.append(extra)
  return ','.join(parts) or 'default'


# Filters: (name, on a library decision point, on a reference Point).
FILTERS = [
    ('categorical', lambda dp: dp.is_categorical,
     lambda p: p.elem['t'] == 'choice'),
    ('non-categorical', lambda dp: not dp.is_categorical,
     lambda p: p.elem['t'] != 'choice'),
    ('named', lambda dp: dp.name is not None, lambda p: p.name is not None),
    ('top-level', lambda dp: dp.parent_choice is None,
     lambda p: not any(t[0] == 'c' for t in p.path)),
    ('wide', lambda dp: dp.is_categorical and len(dp.candidates) >= 3,
     lambda p: p.elem['t'] == 'choice' and len(p.elem['cands']) >= 3),
]


def cases(ctx):
  return int(ctx.params['cases'])


# --------------------------------------------------------------------------
# Small helpers.
# --------------------------------------------------------------------------

class Raised:
  def __init__(self, e):
    self.e = e

  def __repr__(self):
    return f'<raised {type(self.e).__name__}: {str(self.e)[:160]}>'


def is_lib_error(e):
  frames = traceback.extract_tb(e.__traceback__)
  inner = frames[-1].filename if frames else ''
  return 'pyglove' in inner and '/pgverif/' not in inner


def guarded(fn):
  """Value of fn(), or Raised when *library* code raised; harness bugs escape."""
  try:
    return fn()
  except Exception as e:  # pylint: disable=broad-except
    if is_lib_error(e):
      return Raised(e)
    raise


def dna_shape(d):
  return G.Node(d.value, [dna_shape(c) for c in d.children])


def same_dna(a, b):
  """Equality of two DNAs: shape (with value types) and the library's ==."""
  sa, sb = dna_shape(a), dna_shape(b)
  try:
    lib = bool(a == b) and not bool(a != b)
  except Exception:  # pylint: disable=broad-except
    lib = False
  return sa == sb and lib


def ref_nodes(node, out=None):
  """Reference nodes in DFS order."""
  out = [] if out is None else out
  out.append(node)
  for c in node.children:
    ref_nodes(c, out)
  return out


def lib_nodes(d, out=None):
  out = [] if out is None else out
  out.append(d)
  for c in d.children:
    lib_nodes(c, out)
  return out


class Space:
  """One built specification with its canonical decision-point objects."""

  prefix = ()             # id path of the spec inside the spec it is a part of
  level = 'root'

  def __init__(self, desc, reuse_rng=None, stats=None):
    self.desc = desc
    # how the spec was constructed (a harness fact, part of the mechanism keys
    # of the decision-id monitors)
    self.construction = 'fresh' if reuse_rng is None else 'reused-objects'
    if reuse_rng is None:
      self.spec = S.build(desc)
    else:
      self.spec = S.build_reusing(desc, reuse_rng, stats)
    self.all_points = G.all_points(desc)
    self.canon = {}
    for dp in self.spec.decision_points:
      self.canon[dp.id.path] = dp
      if dp.is_categorical and dp.is_subchoice:
        self.canon[dp.parent_spec.id.path] = dp.parent_spec
    self.int_lits = _has_int_lits(desc)
    # name -> ids of the points / multi-choices carrying it (declaration order)
    self.name_ids = {}
    for p in self.all_points:
      if p.name is not None:
        ids = self.name_ids.setdefault(p.name, [])
        if p.parent_id not in ids:
          ids.append(p.parent_id)

  def key_norm(self, k):
    if isinstance(k, str):
      return k
    if isinstance(k, pg.DNASpec):
      path = k.id.path
      if self.canon.get(path) is k:
        return ('dp', path)
      return ('foreign-dp', path, type(k).__name__)
    return ('odd-key', repr(k)[:80])


def _has_int_lits(desc):
  for e in desc['elems']:
    if e['t'] != 'choice':
      continue
    if e['lits'] and any(isinstance(x, int) for x in e['lits']):
      return True
    if any(_has_int_lits(c) for c in e['cands']):
      return True
  return False


class Member:
  """Reference facts about one member of a space."""

  def __init__(self, sp, flat):
    self.flat = tuple(flat)
    self.points = G.walk(sp.desc, flat, sp.prefix)
    self.tree = G.tree(sp.desc, flat)
    self.nested = G.nested(self.tree)
    self.node_of = {}
    for n in ref_nodes(self.tree):
      if n.point is not None:
        self.node_of[n.point] = n
    self.active = {}
    for i, p in enumerate(self.points):
      self.active[p.id] = i

  def has_chain(self):
    """A value whose only child is a value with children (a 3-level chain)."""
    for n in ref_nodes(self.tree):
      if (n.value is not None and len(n.children) == 1
          and n.children[0].value is not None and n.children[0].children):
        return True
    return False


# --------------------------------------------------------------------------
# Reference to_dict.
# --------------------------------------------------------------------------

def ref_value(m, i, vt):
  p = m.points[i]
  if vt == 'dna':
    return ('dna', m.node_of[i].key())
  if p.elem['t'] != 'choice' or vt == 'value':
    return p.value
  n = len(p.elem['cands'])
  lits = p.elem['lits']
  if vt == 'choice' or not lits:
    return f'{p.value}/{n}'
  if vt == 'literal':
    return lits[p.value]
  return f'{p.value}/{n} ({lits[p.value]})'


def _ref_keys(p, kt, mck):
  """(parent key or None, own key or None) of a point under a view."""
  def key(pid):
    if kt == 'id':
      return pid
    if kt == 'name_or_id':
      return p.name if p.name else pid
    return ('dp', pid)
  if p.sub is None:
    return None, key(p.id)
  parent = key(p.parent_id) if mck != 'subchoice' else None
  own = key(p.id)
  if mck == 'parent' or (mck == 'both' and kt == 'name_or_id' and p.name):
    own = None
  return parent, own


def ref_to_dict(sp, m, v, flt=None):
  kt, vt, mck = v['kt'], v['vt'], v['mck']
  out = {}

  def put(k, val):
    if k in out:
      acc = out[k]
      if not isinstance(acc, list):
        acc = [acc]
      acc.append(val)
      val = acc
    out[k] = val

  for i, p in enumerate(m.points):
    if flt is not None and not flt(p):
      continue
    val = ref_value(m, i, vt)
    parent, own = _ref_keys(p, kt, mck)
    if parent is not None:
      put(parent, val)
    if own is not None:
      put(own, val)
  if not v['inactive']:
    return out
  res = {}
  for p in sp.all_points:
    if flt is not None and not flt(p):
      continue
    parent, own = _ref_keys(p, kt, mck)
    if parent is not None and p.sub == 0:
      res[parent] = out.get(parent)
    if own is not None:
      res[own] = out.get(own)
  return res


def norm_value(x):
  if isinstance(x, pg.DNA):
    return ('dna', dna_shape(x).key())
  if isinstance(x, list):
    return [norm_value(y) for y in x]
  if isinstance(x, float):
    return ('f', x)
  return x


def norm_ref(x):
  if isinstance(x, list):
    return [norm_ref(y) for y in x]
  if isinstance(x, float):
    return ('f', x)
  return x


def lib_to_dict(d, v, flt=None):
  return d.to_dict(key_type=v['kt'], value_type=v['vt'],
                   multi_choice_key=v['mck'],
                   include_inactive_decisions=v['inactive'], filter_fn=flt)


def lib_view(sp, d, v, flt=None):
  """Normalised to_dict of a library DNA, or Raised."""
  r = guarded(lambda: lib_to_dict(d, v, flt))
  if isinstance(r, Raised):
    return r
  out = {}
  for k, val in r.items():
    nk = sp.key_norm(k)
    if nk in out:
      return {('duplicate-normalised-key', repr(nk)): True}
    out[nk] = _shared(sp, nk, norm_value(val))
  return out


def views_equal(a, b):
  if isinstance(a, Raised) or isinstance(b, Raised):
    return isinstance(a, Raised) and isinstance(b, Raised)
  return a == b


# --------------------------------------------------------------------------
# Monitors on a DNA rebuilt from raw numbers (content, round trips, lookups).
# --------------------------------------------------------------------------

def check_node_binding(ctx, sp, m, d, source, case):
  """Each node with a value is bound to the decision point of its position."""
  c = ctx.counters
  shape = dna_shape(d)
  if shape != m.tree:
    return 'shape'
  bad = None
  for rn, ln in zip(ref_nodes(m.tree), lib_nodes(d)):
    if rn.point is None:
      continue
    c['node_binding_checks'] += 1
    want = m.points[rn.point].id
    s = guarded(lambda ln=ln: ln.spec)
    if isinstance(s, Raised) or s is None:
      have = repr(s)
    else:
      have = sp.key_norm(s)
      have = have[1] if have[0] == 'dp' else have
    if have != want and bad is None:
      bad = (want, have, ln.value)
  if bad is not None:
    ctx.violation('node-binding', source,
                  f'{d!r}: node with value {bad[2]!r} answers decision point '
                  f'{bad[0]!r} by position but is bound to {bad[1]!r}', case)
    return 'binding'
  return None


def check_numbers(ctx, sp, m, d, case):
  c = ctx.counters
  spec = sp.spec
  # flat
  c['numbers_roundtrips'] += 1
  flat = guarded(lambda: d.to_numbers())
  if isinstance(flat, Raised) or tuple(flat) != m.flat or [
      type(x) for x in flat] != [type(x) for x in m.flat]:
    ctx.violation('numbers-content', 'to_numbers[flat]',
                  f'{d!r}.to_numbers() = {flat!r}, reference {list(m.flat)!r}', case)
  else:
    r = guarded(lambda: pg.DNA.from_numbers(flat, spec))
    if isinstance(r, Raised) or not same_dna(r, d):
      ctx.violation('roundtrip', 'from_numbers',
                    f'from_numbers({flat!r}, spec) = {r!r}, original {d!r}', case)
  # nested
  c['numbers_roundtrips'] += 1
  chain = 'conditional-chain' if m.has_chain() else 'no-chain'
  if chain == 'conditional-chain':
    c['nested_with_chain'] += 1
  nested = guarded(lambda: d.to_numbers(flatten=False))
  ok = not isinstance(nested, Raised)
  if ok:
    r1 = guarded(lambda: pg.DNA(nested))
    r2 = guarded(lambda: pg.DNA(nested, spec=spec))
    ok = (not isinstance(r1, Raised) and not isinstance(r2, Raised)
          and same_dna(r1, d) and same_dna(r2, d))
  if not ok:
    ctx.violation('roundtrip', f'to_numbers[nested]:{chain}',
                  f'{d!r}.to_numbers(flatten=False) = {nested!r}; DNA(that) = '
                  f'{guarded(lambda: pg.DNA(nested))!r}; with spec: '
                  f'{guarded(lambda: pg.DNA(nested, spec=spec))!r}', case)


def check_json(ctx, sp, m, d, case):
  c = ctx.counters
  forms = [
      ('json[compact]', lambda: pg.from_json(d.to_json())),
      ('json[verbose]', lambda: pg.from_json(d.to_json(compact=False))),
      ('json[compact,str]', lambda: pg.from_json_str(pg.to_json_str(d))),
      ('json[verbose,str]',
       lambda: pg.from_json_str(pg.to_json_str(d, compact=False))),
      ('json[raw]', lambda: pg.DNA(d.to_json(compact=True, type_info=False))),
      ('json[sym_jsonify]', lambda: pg.DNA.from_json(d.sym_jsonify())),
  ]
  out = []
  for name, fn in forms:
    c['json_roundtrips'] += 1
    r = guarded(fn)
    if isinstance(r, Raised) or not isinstance(r, pg.DNA) or not same_dna(r, d):
      ctx.violation('roundtrip', name,
                    f'{name} of the DNA {m.nested!r} (json '
                    f'{guarded(lambda: d.to_json())!r}) gives {r!r}', case)
      continue
    out.append((name, r))
  raw = guarded(lambda: d.to_json(compact=True, type_info=False))
  c['json_content_checks'] += 1
  if isinstance(raw, Raised) or raw != m.nested:
    ctx.violation('json-content', 'json[raw]',
                  f'compact form {raw!r}, documented grammar gives {m.nested!r}', case)
  return out


def _shared(sp, k, x):
  """A name the library repeats on several points: only the active decisions
  in order are compared (how inactive copies show is left open)."""
  if isinstance(k, str) and len(sp.name_ids.get(k, ())) > 1:
    xs = x if isinstance(x, list) else [x]
    return ('shared-name', [y for y in xs if y is not None])
  return x


def ref_view(sp, m, v, rf=None):
  return {k: _shared(sp, k, norm_ref(x))
          for k, x in ref_to_dict(sp, m, v, rf).items()}


def check_to_dict(ctx, sp, m, d, case, idx, nmembers):
  """Content of the views vs the reference, and from_dict round trips.

  Member `idx` of `nmembers`: the first two members are compared on all 90
  views, the others on a rotating third; view j is reconstructed with
  from_dict on member j % nmembers (every view once per case in the
  thorough tier, every second view - alternating with the case index - in the
  quick tier) and the nine most default views on the first member.
  """
  c = ctx.counters
  spec = sp.spec
  full_rt = bool(ctx.params.get('all_views_per_case', False))
  content_bad, rt_bad = None, None
  for j, v in enumerate(VIEWS):
    do_content = idx < 2 or j % 3 == idx % 3
    do_rt = ((j % nmembers == idx and (full_rt or j % 2 == ctx.index % 2))
             or (j < 9 and idx == 0))
    if not (do_content or do_rt):
      continue
    c['to_dict_content_checks'] += 1
    have = lib_view(sp, d, v)
    want = ref_view(sp, m, v)
    if isinstance(have, Raised) or have != want:
      if content_bad is None:
        content_bad = (v, have, want)
      continue
    if not do_rt:
      continue
    # reconstruction from a fresh dict (from_dict consumes list values)
    c['from_dict_roundtrips'] += 1
    ints = v['vt'] == 'literal' and sp.int_lits
    if ints:
      c['from_dict_int_literals'] += 1
    # the flag only concerns int values: views without raw ints may pass it
    flag = ints or (v['vt'] != 'value' and ctx.rng.random() < 0.2)
    r = guarded(lambda: pg.DNA.from_dict(lib_to_dict(d, v), spec,
                                         use_ints_as_literals=flag))
    if isinstance(r, Raised) or not same_dna(r, d):
      if flag and not ints:
        c['from_dict_failed_with_optional_flag'] += 1
      if rt_bad is None:
        rt_bad = (v, r, ints)
    elif j % 10 == idx:
      # the reconstructed DNA is itself handed out by the library
      check_alignment(ctx, sp, r, 'from_dict', case)
  if content_bad is not None:
    # name the most default view that fails (not all were run on this member)
    for v in VIEWS:
      have, want = lib_view(sp, d, v), ref_view(sp, m, v)
      if isinstance(have, Raised) or have != want:
        break
    ctx.violation('to_dict-content', f'to_dict[{view_name(v)}]',
                  f'{d!r}: to_dict gives {have!r}, reference {want!r}', case)
  if rt_bad is not None:
    for v in VIEWS:
      ints = v['vt'] == 'literal' and sp.int_lits
      r = guarded(lambda: pg.DNA.from_dict(lib_to_dict(d, v), spec,
                                           use_ints_as_literals=ints))
      if isinstance(r, Raised) or not same_dna(r, d):
        break
    ctx.violation('roundtrip',
                  f'from_dict[{view_name(v, "ints-as-literals" if ints else None)}]',
                  f'{d!r}: to_dict = {guarded(lambda: lib_to_dict(d, v))!r}; '
                  f'from_dict(that) = {r!r}', case)
  # filtered views: content only
  fbad = None
  for name, lf, rf in FILTERS:
    for v in (VIEWS[0], VIEWS[ctx.rng.randrange(len(VIEWS))]):
      c['to_dict_filter_checks'] += 1
      have = lib_view(sp, d, v, lf)
      want = ref_view(sp, m, v, rf)
      if (isinstance(have, Raised) or have != want) and fbad is None:
        fbad = (name, v, have, want)
  if fbad is not None and content_bad is None:
    name, v, have, want = fbad
    ctx.violation('to_dict-content', f'to_dict[filter={name}]',
                  f'{d!r} view {view_name(v)}: {have!r}, reference {want!r}', case)


def _lookup(d, key):
  try:
    return ('ok', d[key])
  except KeyError:
    return ('keyerror', None)


def _is_node(x, node):
  return isinstance(x, pg.DNA) and dna_shape(x) == node


def check_lookups(ctx, sp, m, d, case):
  c = ctx.counters
  bad = {}

  def expect_point(res, pid, how):
    c['lookup_checks'] += 1
    i = m.active.get(pid)
    status, val = res
    if isinstance(val, Raised) or status != 'ok':
      ok = False
    elif i is None:
      ok = val is None
    else:
      ok = _is_node(val, m.node_of[i])
    if not ok:
      bad.setdefault(how, (pid, val, None if i is None else m.node_of[i]))

  def run(fn):
    r = guarded(fn)
    return ('ok', r) if isinstance(r, Raised) else r

  multi = {}
  for p in sp.all_points:
    if p.sub is not None:
      multi.setdefault(p.parent_id, []).append(p.id)
  for p in sp.all_points:
    dp = sp.canon[p.id]
    expect_point(run(lambda: _lookup(d, p.id)), p.id, 'by-id')
    expect_point(run(lambda: _lookup(d, dp.id)), p.id, 'by-id')
    expect_point(run(lambda: _lookup(d, dp)), p.id, 'by-decision-point')
    expect_point(run(lambda: ('ok', d.get(p.id, 'dflt'))), p.id, 'by-id')
  for pid, subs in multi.items():
    dp = sp.canon[pid]
    for how, key in (('by-parent', pid), ('by-parent', dp)):
      c['lookup_checks'] += 1
      res = run(lambda key=key: _lookup(d, key))
      val = res[1]
      act = [m.active.get(s) for s in subs]
      if all(a is None for a in act):
        ok = res[0] == 'ok' and val is None
      else:
        ok = (res[0] == 'ok' and isinstance(val, list) and len(val) == len(subs)
              and all(_is_node(x, m.node_of[a]) for x, a in zip(val, act)))
      if not ok:
        bad.setdefault(how, (pid, val, [None if a is None else m.node_of[a]
                                        for a in act]))
  # names
  for name, ids in sp.name_ids.items():
    c['lookup_checks'] += 1
    res = run(lambda name=name: _lookup(d, name))
    val = res[1]
    want = []          # active decisions carrying the name, in decision order
    for i, p in enumerate(m.points):
      if p.name == name:
        want.append(m.node_of[i])
    if res[0] != 'ok' or isinstance(val, Raised):
      ok = False
    elif len(ids) == 1 and ids[0] not in multi:
      # one declared single point: the DNA itself, or None when inactive
      ok = (val is None and not want) or (len(want) == 1 and _is_node(val, want[0]))
    elif len(ids) == 1:
      # one declared multi-choice: the list of its subchoice decisions
      ok = ((val is None and not want) or
            (isinstance(val, list) and len(val) == len(want)
             and all(_is_node(x, w) for x, w in zip(val, want))))
    else:
      # a name repeated by the library on copies of a sub-space: the active
      # decisions in order; None entries for inactive copies are left open
      c['lookup_shared_names'] += 1
      got = val if isinstance(val, list) else ([] if val is None else [val])
      got = [x for x in got if x is not None]
      ok = len(got) == len(want) and all(_is_node(x, w) for x, w in zip(got, want))
    if not ok:
      how = 'by-name' + (':inactive' if not want else '')
      if res[0] == 'keyerror':
        val = 'KeyError'
      bad.setdefault(how, (name, val, want or None))
  # an unknown key: default / KeyError
  c['lookup_checks'] += 1
  res = run(lambda: ('ok', d.get('no.such.point', 'dflt')))
  if res[1] != 'dflt':
    bad.setdefault('get-unknown', ('no.such.point', res[1], 'dflt'))
  for how, (key, val, want) in bad.items():
    ctx.violation('lookup', how,
                  f'{d!r}: lookup {how} of {key!r} returned {val!r}, the decision '
                  f'made there is {want!r}', case)


def check_spec_lookups(ctx, sp, case):
  """The decision-point map of the spec itself agrees with the reference."""
  c = ctx.counters
  spec = sp.spec
  c['spec_lookup_checks'] += 1
  have = [dp.id.path for dp in spec.decision_points]
  want = [p.id for p in sp.all_points]
  if have != want:
    how = '' if sp.construction == 'fresh' else '[' + sp.construction + ']'
    dup = sorted({x for x in have if have.count(x) > 1})
    ctx.violation('decision-ids', 'decision_points' + how,
                  f'ids {have!r}, reference {want!r}'
                  + (f'; ids shared by several decision points: {dup!r}' if dup else ''),
                  case)
    return False
  for p in sp.all_points:
    c['spec_lookup_checks'] += 1
    dp = sp.canon[p.id]
    got = guarded(lambda: spec[p.id] if p.sub is None else spec[p.parent_id][p.sub])
    if got is not dp:
      ctx.violation('lookup', 'spec-by-id',
                    f'spec[{p.id!r}] is {got!r:.200}', case)
      break
    kinds = (dp.is_categorical, dp.is_numerical, dp.is_custom_decision_point)
    wantk = (p.elem['t'] == 'choice', p.elem['t'] == 'float', p.elem['t'] == 'custom')
    if kinds != wantk or dp.name != p.name:
      ctx.violation('decision-ids', 'decision_points',
                    f'point {p.id!r}: kind {kinds!r} name {dp.name!r}', case)
      break
  for name, ids in sp.name_ids.items():
    c['spec_lookup_checks'] += 1
    got = guarded(lambda name=name: spec[name])
    got = got if isinstance(got, list) else [got]
    gids = []
    for x in got:
      pid = x.id.path if isinstance(x, pg.DNASpec) else repr(x)
      if isinstance(x, pg.DNASpec) and x.is_categorical and x.is_subchoice:
        pid = x.parent_spec.id.path
      if pid not in gids:
        gids.append(pid)
    if gids != ids:
      ctx.violation('lookup', 'spec-by-name',
                    f'spec[{name!r}] gives points {gids!r}, reference {ids!r}', case)
  return True


# --------------------------------------------------------------------------
# Alignment of a DNA handed out by the library.
# --------------------------------------------------------------------------

def rebuild(sp, m):
  return pg.DNA(m.nested, spec=sp.spec)


ALIGN_VIEWS = [
    dict(kt='id', vt='value', mck='subchoice', inactive=False),   # default
    dict(kt='id', vt='dna', mck='both', inactive=True),           # lookups
    dict(kt='dna_spec', vt='value', mck='parent', inactive=True),  # recombinators
    dict(kt='dna_spec', vt='dna', mck='parent', inactive=False),  # permutations
    dict(kt='name_or_id', vt='choice_and_literal', mck='both', inactive=False),
]

OTHER_VIEWS = [
    ('literal_value', lambda sp, x: x.literal_value),
    ('named_decisions', lambda sp, x: {
        k: norm_value(v) for k, v in x.named_decisions.items()}),
    ('decision_ids', lambda sp, x: [i.path for i in x.decision_ids]),
    ('format[as_dict]', lambda sp, x: x.format(as_dict=True)),
    ('multi_choice_spec', lambda sp, x: [
        sp.key_norm(n.multi_choice_spec) if n.multi_choice_spec is not None
        else None for n in lib_nodes(x)]),
]


# Route -> mechanism of the keys (the counters keep the route).
MECHANISM = {
    'iter_dna': 'iteration', 'first_dna': 'iteration', 'next_dna': 'iteration',
    'DNA.next_dna': 'iteration', 'DNA.iter_dna': 'iteration',
    'Sweeping': 'iteration',
    'random_dna': 'random_dna', 'pg.random_dna': 'random_dna',
    'geno.Random': 'random_dna', 'random_dna[previous]': 'random_dna',
    'parse': 'parse', 'DNA(spec=)': 'parse', 'use_spec': 'parse',
    'clone[shallow]': 'clone', 'clone[deep]': 'clone', 'pg.clone': 'clone',
    'copy.copy': 'clone', 'copy.deepcopy': 'clone', 'clone[after-views]': 'clone',
    'from_json+use_spec': 'from_json+use_spec',
    'from_json[verbose]+use_spec': 'from_json+use_spec',
    'use_spec[rebind]': 'rebind', 'clone+use_spec[rebind]': 'rebind',
    'evolution[init]': 'random_dna',
}


def check_alignment(ctx, sp, d, route, case, full=False):
  """Views and node bindings of a handed-out DNA vs a DNA rebuilt from its raw
  numbers. Returns (status, usable DNA or None): the DNA itself when aligned,
  the rebuilt one when not, None for non-members."""
  c = ctx.counters
  source = MECHANISM.get(route, route)
  if route.startswith('evolution:'):
    source = route.split(':', 1)[1]        # the operator inside the pipeline
  case = dict(case, route=route)
  if not isinstance(d, pg.DNA):
    return 'not-a-dna', None
  flat = guarded(lambda: d.to_numbers())
  if isinstance(flat, Raised):
    ctx.violation('view-differs', source, f'to_numbers raised: {flat!r}', case)
    return 'bad', None
  why = G.why_not(sp.desc, flat)
  if why is not None:
    c['handed_out_nonmember_skipped'] += 1
    c['nonmember:' + route] += 1
    return 'nonmember', None
  m = Member(sp, flat)
  c['alignment_checks'] += 1
  c['source:' + route] += 1
  ctx.seen('aligned_dnas', (S.show(sp.desc), m.flat))
  if dna_shape(d) != m.tree:
    ctx.violation('handed-out-shape', source,
                  f'{d!r} has the decisions {list(flat)!r} of a member whose '
                  f'documented tree is {m.nested!r}', case)
    return 'bad', rebuild(sp, m)
  if guarded(lambda: d.spec) is None:
    ctx.violation('unbound', source, f'{d!r} is not bound to a spec', case)
    return 'bad', rebuild(sp, m)
  if check_node_binding(ctx, sp, m, d, source, case) is not None:
    return 'bad', rebuild(sp, m)
  views = list(ALIGN_VIEWS)
  views.append(VIEWS[ctx.rng.randrange(len(VIEWS))])
  if full:
    views = VIEWS
    c['alignment_full_product'] += 1
  r = None
  first = None
  for v in views:
    c['alignment_view_checks'] += 1
    a = lib_view(sp, d, v)
    # fast path: the reference; the rebuilt DNA decides when they differ
    if not isinstance(a, Raised) and a == ref_view(sp, m, v):
      continue
    r = r or rebuild(sp, m)
    b = lib_view(sp, r, v)
    if not views_equal(a, b):
      first = (view_name(v), a, b)
      break
    c['alignment_view_same_as_rebuilt_not_reference'] += 1
  if first is None and (full or ctx.rng.random() < 0.3):
    r = r or rebuild(sp, m)
    for how, fn in OTHER_VIEWS:
      c['alignment_view_checks'] += 1
      a, b = guarded(lambda: fn(sp, d)), guarded(lambda: fn(sp, r))
      if isinstance(a, Raised) or isinstance(b, Raised):
        same = isinstance(a, Raised) and isinstance(b, Raised)
      else:
        same = a == b
      if not same:
        first = (how, a, b)
        break
  if first is not None:
    vn, a, b = first
    ctx.violation('view-differs', source,
                  f'{d!r}: view {vn} is {a!r}; a DNA rebuilt from the same numbers '
                  f'{list(flat)!r} gives {b!r}', case)
    return 'bad', r
  return 'ok', d


# --------------------------------------------------------------------------
# Sources of handed-out DNAs.
# --------------------------------------------------------------------------

def _fn_answers(space, points, it, out):
  """Decisions of a member in the order in which DNA.from_fn asks for them."""
  for e in space['elems']:
    if e['t'] != 'choice':
      out.append(points[next(it)].value)
      continue
    picks, subs = [], []
    for _ in range(e['k']):
      p = points[next(it)]
      picks.append(p.value)
      sub = []
      _fn_answers(e['cands'][p.value], points, it, sub)
      subs.append(sub)
    out.append(picks)
    for sub in subs:
      out.extend(sub)
  return out


def _from_fn_generator(sp, m):
  """generator_fn for DNA.from_fn that replays the member `m`."""
  answers = _fn_answers(sp.desc, m.points, iter(range(len(m.points))), [])
  answers.reverse()

  def fn(dp):
    del dp
    return answers.pop()
  return fn


def library_sources(ctx, sp, sp2, members, case):
  """(source name, thunk returning a DNA or a list of DNAs)."""
  rng = ctx.rng
  spec = sp.spec
  r = pyrandom.Random(rng.randrange(1 << 30))
  n = int(ctx.params['handed'])
  finite = G.is_finite(sp.desc)
  out = []
  if finite:
    out.append(('iter_dna', lambda: list(itertools.islice(spec.iter_dna(), n))))
    out.append(('first_dna', lambda: spec.first_dna()))

    def sweep():
      a = pg.geno.Sweeping()
      a.setup(spec)
      res = []
      try:
        for _ in range(2):
          res.append(a.propose())
      except StopIteration:
        pass
      return res
    out.append(('Sweeping', sweep))
  out.append(('random_dna', lambda: [spec.random_dna(r) for _ in range(n)]))
  out.append(('pg.random_dna', lambda: pg.random_dna(spec, r)))

  def gen_random():
    a = pg.geno.Random(seed=rng.randrange(1000))
    a.setup(spec)
    return [a.propose() for _ in range(2)]
  out.append(('geno.Random', gen_random))
  per = []
  for m in members:
    start = lambda m=m: pg.DNA(m.nested, spec=spec)
    if finite:
      per.append(('next_dna', lambda s=start: spec.next_dna(s())))
      per.append(('DNA.next_dna', lambda s=start: s().next_dna()))
      per.append(('DNA.iter_dna',
                  lambda s=start: list(itertools.islice(s().iter_dna(), 2))))
    per.append(('random_dna[previous]',
                lambda s=start: spec.random_dna(r, previous_dna=s())))
    per.append(('parse', lambda m=m: pg.DNA.parse(m.nested, spec=spec)))
    per.append(('use_spec', lambda m=m: pg.DNA(m.nested).use_spec(spec)))
    per.append(('from_numbers',
                lambda m=m: pg.DNA.from_numbers(list(m.flat), spec)))
    per.append(('from_fn+use_spec', lambda m=m: pg.DNA.from_fn(
        spec, _from_fn_generator(sp, m)).use_spec(spec)))

    def with_meta(s=start):
      d = s()
      d.set_metadata('a', 1, cloneable=True)
      d.set_metadata('b', 2)
      d.set_userdata('u', 3, cloneable=True)
      return d
    per.append(('clone[shallow]', lambda s=with_meta: s().clone()))
    per.append(('clone[deep]', lambda s=with_meta: s().clone(deep=True)))
    per.append(('pg.clone', lambda s=start: pg.clone(s(), deep=True)))
    per.append(('copy.copy', lambda s=start: copy.copy(s())))
    per.append(('copy.deepcopy', lambda s=with_meta: copy.deepcopy(s())))
    per.append(('clone[after-views]', lambda s=start: _clone_after_views(s())))
    per.append(('from_json[verbose]+use_spec', lambda s=with_meta: pg.from_json_str(
        pg.to_json_str(s(), compact=False)).use_spec(spec)))
    # a DNA bound to another build of the same space, re-bound to this one
    per.append(('use_spec[rebind]', lambda m=m: pg.DNA(
        m.nested, spec=sp2.spec).use_spec(spec)))
    per.append(('clone+use_spec[rebind]', lambda m=m: pg.DNA(
        m.nested, spec=sp2.spec).clone(deep=True).use_spec(spec)))
  rng.shuffle(per)
  return out + per[:int(ctx.params['per_member_sources'])]


def _clone_after_views(d):
  """Clone, read views (fills the caches), clone again."""
  x = d.clone(deep=True)
  x.to_dict()
  _ = x.named_decisions
  return x.clone(deep=True)


# --------------------------------------------------------------------------
# Evolution operators.
# --------------------------------------------------------------------------

def operators(rng):
  """(name, kind, factory) of every mutator and recombinator."""
  from pyglove.ext.evolution import mutators as MU          # pylint: disable=g-import-not-at-top
  from pyglove.ext.evolution import recombinators as RC     # pylint: disable=g-import-not-at-top
  from pyglove.ext.evolution import where as W              # pylint: disable=g-import-not-at-top
  seed = lambda: rng.randrange(1 << 20)
  weights = lambda xs: [1.0 + (i % 3) for i in range(len(xs))]
  return [
      ('mutators.Uniform', 1, lambda: MU.Uniform(seed=seed())),
      ('mutators.Swap', 1, lambda: MU.Swap(seed=seed())),
      ('recombinators.Uniform', 0, lambda: RC.Uniform(seed=seed())),
      ('recombinators.Sample', 0, lambda: RC.Sample(weights, seed=seed())),
      ('recombinators.Average', 0, lambda: RC.Average()),
      ('recombinators.WeightedAverage', 0, lambda: RC.WeightedAverage(weights)),
      ('recombinators.KPoint', 2, lambda: RC.KPoint(rng.choice([1, 2, 3]), seed=seed())),
      ('recombinators.Segmented', 2,
       lambda: RC.Segmented(lambda xs: [len(xs) // 2] if len(xs) > 1 else [])),
      ('recombinators.PartiallyMapped', 2,
       lambda: RC.PartiallyMapped(where=W.ALL, seed=seed())),
      ('recombinators.Order', 2, lambda: RC.Order(seed=seed())),
      ('recombinators.Cycle', 2, lambda: RC.Cycle(where=W.ALL, seed=seed())),
  ]


# The mutators edit a clone in place (the recombinators rebuild through
# from_dict), so they are drawn more often.
OP_WEIGHTS = [4, 4, 1, 1, 1, 1, 1, 1, 1, 1, 1]


def run_chain(ctx, sp, population, case):
  """One chain of 1-4 operators over a healed population."""
  rng = ctx.rng
  c = ctx.counters
  ops = operators(rng)
  pop = list(population)
  trace = []
  for _ in range(rng.randint(1, 4)):
    name, arity, make = rng.choices(ops, weights=OP_WEIGHTS)[0]
    op = guarded(make)
    if isinstance(op, Raised):
      c['operator_ctor_raised:' + name] += 1
      continue
    if arity == 1:
      inputs = [rng.choice(pop)]
    elif arity == 2:
      inputs = [rng.choice(pop), rng.choice(pop)]
    else:
      inputs = [rng.choice(pop) for _ in range(rng.randint(2, 3))]
    trace.append(name)
    ccase = dict(case, chain=list(trace),
                 inputs=[repr(x) for x in inputs])
    outs = guarded(lambda: op(inputs))
    c['operator_calls'] += 1
    c['op:' + name] += 1
    if isinstance(outs, Raised):
      c['operator_raised:' + name] += 1
      continue
    new = []
    for o in outs:
      status, healed = check_alignment(ctx, sp, o, name, ccase)
      if status in ('ok', 'bad'):
        c['operator_outputs_checked'] += 1
      if any(o is x for x in inputs):
        c['operator_output_is_input'] += 1
      if healed is not None:
        new.append(healed)
    if new:
      pop = (new + pop)[:4]
  return trace


def run_evolution(ctx, sp, case):
  """A short Evolution run around one operator: every proposal is checked."""
  from pyglove.ext import evolution as EV                   # pylint: disable=g-import-not-at-top
  rng = ctx.rng
  c = ctx.counters
  name, _, make = rng.choices(operators(rng), weights=OP_WEIGHTS)[0]
  seed = rng.randrange(1000)

  def build():
    algo = EV.Evolution(
        EV.selectors.Random(2, seed=seed) >> make(),
        population_init=(pg.geno.Random(seed=seed), 3),
        population_update=EV.selectors.Last(4))
    algo.setup(sp.spec)
    return algo
  algo = guarded(build)
  if isinstance(algo, Raised):
    c['evolution_raised:' + name] += 1
    return
  ecase = dict(case, evolution=name)
  for step in range(int(ctx.params['proposals'])):
    d = guarded(algo.propose)
    if isinstance(d, Raised):
      c['evolution_raised:' + name] += 1
      return
    c['evolution_proposals'] += 1
    route = 'evolution[init]' if step < 3 else 'evolution:' + name
    status, _ = check_alignment(ctx, sp, d, route, ecase)
    if status == 'nonmember':
      return
    if status in ('ok', 'bad') and step >= 3:
      c['operator_outputs_checked'] += 1
    r = guarded(lambda: algo.feedback(d, float(rng.random())))
    if isinstance(r, Raised):
      c['evolution_raised:' + name] += 1
      return


# --------------------------------------------------------------------------
# Histories of DNA requests on one long-lived spec object and on its parts.
# --------------------------------------------------------------------------

class Part(Space):
  """A part of a built spec used as a spec of its own: the spec itself, an
  element of a (sub-)space, a sub-choice of a multi-choice, a candidate
  sub-space. Duck-types `Space` for the monitors: the reference is the
  description of the part, the decision-point ids carry the `prefix` of the
  part inside the whole spec and the canonical decision-point objects are
  those of the whole spec."""

  def __init__(self, sp, obj, desc, prefix, kind, ancestors):   # pylint: disable=super-init-not-called
    self.desc, self.spec, self.prefix = desc, obj, tuple(prefix)
    self.construction = sp.construction
    self.kind = kind
    self.level = 'root' if kind == 'root' else 'sub-spec'
    self.ancestors = list(ancestors)     # indices of the enclosing parts
    self.all_points = G.all_points(desc, self.prefix)
    self.canon = sp.canon
    self.int_lits = _has_int_lits(desc)
    self.finite = G.is_finite(desc)
    self.name_ids = {}
    for p in self.all_points:
      if p.name is not None:
        ids = self.name_ids.setdefault(p.name, [])
        if p.parent_id not in ids:
          ids.append(p.parent_id)


def spec_parts(sp):
  """Every part of a built spec that has a decision of its own, root first;
  None when the library objects are not where the description puts them (the
  decision-id monitors report that)."""
  out = []
  ok = [True]

  def add(obj, desc, prefix, kind, anc):
    out.append(Part(sp, obj, desc, prefix, kind, anc))
    return len(out) - 1

  def in_space(obj, desc, prefix, anc):
    elements = list(obj.elements)
    if len(elements) != len(desc['elems']):
      ok[0] = False
      return
    for el, e in zip(elements, desc['elems']):
      path = prefix + G.loc_tokens(e['loc'])
      ei = add(el, {'t': 'space', 'elems': [e]}, prefix, 'element', anc)
      if e['t'] != 'choice':
        if sp.canon.get(G.render_id(path)) is not el:
          ok[0] = False
        continue
      n, k = len(e['cands']), e['k']
      for j in range(k):
        if k == 1:
          ch, ppath, canc = el, path, anc + [ei]
        else:
          ch, ppath = el.subchoice(j), path + (('i', j),)
          one = dict(e, k=1, distinct=True, sorted=False,
                     loc=e['loc'] + '[%d]' % j)
          si = add(ch, {'t': 'space', 'elems': [one]}, prefix, 'subchoice',
                   anc + [ei])
          canc = anc + [ei, si]
        if sp.canon.get(G.render_id(ppath)) is not ch:
          ok[0] = False
          return
        for ci, cd in enumerate(e['cands']):
          if not cd['elems']:
            continue
          cprefix = ppath + (('c', ci, n),)
          cobj = ch.candidates[ci]
          cidx = add(cobj, cd, cprefix, 'candidate', canc)
          in_space(cobj, cd, cprefix, canc + [cidx])

  root = add(sp.spec, sp.desc, (), 'root', [])
  in_space(sp.spec, sp.desc, (), [root])
  return out if ok[0] else None


HISTORY_OPS = [('first_dna', 4), ('next_dna', 3), ('iter_dna', 2),
               ('DNA.next_dna', 1), ('DNA.iter_dna', 1), ('random_dna', 2)]


def run_history(ctx, sp, case, used_before):
  """One history of DNA requests on `sp.spec` and on parts of it.

  Requests (first_dna / next_dna / iter_dna / random_dna with attach_spec left
  out, True or False, next_dna / iter_dna of a DNA) go in random order to the
  whole spec (which is what iterates the parts internally) and to a few of its
  parts used as specs of their own. Every DNA handed out is compared with the
  reference enumeration of the description of that part (first member,
  successor, membership for random ones) and - unless attach_spec=False was
  passed, where the binding is left open - with a DNA rebuilt from its raw
  numbers: node bindings and views (`check_alignment`). The mechanism is the
  producer, whether the spec is the root or a part, and whether it was asked
  before with attach_spec=False / after a request to an enclosing spec."""
  rng = ctx.rng
  c = ctx.counters
  parts = guarded(lambda: spec_parts(sp))
  if parts is None or isinstance(parts, Raised):
    c['history_skipped_parts_not_found'] += 1
    return 0
  chosen = [0]
  subs = list(range(1, len(parts)))
  rng.shuffle(subs)
  # prefer parts with several decision points, keep some single points
  subs.sort(key=lambda i: len(parts[i].all_points) < 2)
  chosen += subs[:int(ctx.params.get('hist_parts', 4))]
  r = pyrandom.Random(rng.randrange(1 << 30))
  used = {0} if used_before else set()
  unattached = set()
  pool = {i: [] for i in chosen}           # (flat, DNA or None) handed out
  trace = []
  n_iter = 2
  checked = 0
  c['histories'] += 1
  c['history_parts_available'] += len(parts) - 1

  def start_of(i, need_bound):
    """(flat, DNA) to continue from: handed out before, or a rebuilt member."""
    part = parts[i]
    cands = [x for x in pool[i] if x[1] is not None
             and (not need_bound or x[2])]
    if cands and rng.random() < 0.6:
      flat, d, _ = rng.choice(cands)
      return flat, d, 'handed-out'
    flat = G.random_member(part.desc, rng)
    nested = G.nested(G.tree(part.desc, flat))
    if need_bound or rng.random() < 0.7:
      return flat, pg.DNA(nested, spec=part.spec), 'rebuilt'
    return flat, pg.DNA(nested), 'unbound'

  for _ in range(int(ctx.params.get('hist_ops', 14))):
    i = rng.choice(chosen) if rng.random() < 0.75 else 0
    part = parts[i]
    ops = HISTORY_OPS if part.finite else [('random_dna', 1)]
    producer = rng.choices([o for o, _ in ops], weights=[w for _, w in ops])[0]
    by_dna = producer.startswith('DNA.')
    flag = 'default' if by_dna else rng.choice(
        ['default', 'default', 'True', 'False'])
    attach = flag != 'False'
    kw = {} if flag == 'default' else {'attach_spec': attach}
    if i in unattached:
      hist = 'after-unattached-request'
      c['history_requests_after_unattached'] += 1
    elif any(a in used for a in part.ancestors):
      hist = 'after-enclosing-use'
      c['history_requests_after_enclosing_use'] += 1
    else:
      hist = 'plain'
    route = (f'{producer}[{part.level},{hist}]' if attach
             else f'{producer}[{part.level},attach_spec=False]')
    spec = part.spec
    want = None                      # list of expected members (None = end)
    if producer == 'first_dna':
      want = [G.first_member(part.desc)]
      thunk = lambda: [spec.first_dna(**kw)]
      what = f'first_dna({flag})'
    elif producer == 'random_dna':
      prev = None
      if rng.random() < 0.2:
        prev = start_of(i, True)[1]
      thunk = lambda: [spec.random_dna(r, previous_dna=prev, **kw)]
      what = f'random_dna({flag}{", previous" if prev is not None else ""})'
    else:
      flat, d0, origin = start_of(i, by_dna)
      it = G.enumerate_from(part.desc, flat)
      next(it)
      if producer.endswith('next_dna'):
        want = [next(it, None)]
        thunk = ((lambda: [d0.next_dna()]) if by_dna
                 else (lambda: [spec.next_dna(d0, **kw)]))
      else:
        want = list(itertools.islice(it, n_iter))
        if len(want) < n_iter:
          want.append(None)
        thunk = ((lambda: _take(d0.iter_dna(), n_iter)) if by_dna
                 else (lambda: _take(spec.iter_dna(d0, **kw), n_iter)))
      what = f'{producer}({origin} {list(flat)!r}, {flag})'
    trace.append(f'{part.kind} {G.render_id(part.prefix) or "<root>"}: {what}')
    hcase = dict(case, part=S.show(part.desc), part_kind=part.kind,
                 history=trace[-10:], spec_used_before=used_before)
    c['history_requests'] += 1
    c['history_requests:' + producer] += 1
    if i:
      c['history_sub_spec_requests'] += 1
      c['history_part:' + part.kind] += 1
    res = guarded(thunk)
    used.add(i)
    if not attach:
      unattached.add(i)
    if isinstance(res, Raised):
      ctx.violation('unexpected-exception', route, repr(res), hcase)
      continue
    for n, d in enumerate(res):
      if want is not None and n >= len(want):
        break
      exp = want[n] if want is not None else None
      if d is None or not isinstance(d, pg.DNA):
        c['history_value_checks'] += 1
        if d is not None or exp is not None:
          ctx.violation('handed-out-value', route,
                        f'{what} on the part {S.show(part.desc)} returned {d!r}, '
                        f'reference {None if exp is None else list(exp)!r}', hcase)
        break
      flat = guarded(lambda d=d: tuple(d.to_numbers()))
      c['history_value_checks'] += 1
      if isinstance(flat, Raised):
        ctx.violation('handed-out-value', route, f'to_numbers raised: {flat!r}', hcase)
        break
      if want is None:
        good = G.why_not(part.desc, flat) is None
      else:
        good = exp is not None and flat == tuple(exp) and [
            type(x) for x in flat] == [type(x) for x in exp]
      if not good:
        ctx.violation('handed-out-value', route,
                      f'{what} on the part {S.show(part.desc)} returned {d!r} '
                      f'({list(flat)!r}), reference '
                      + ('a member' if want is None else
                         repr(None if exp is None else list(exp))), hcase)
        break
      checked += 1
      if attach:
        status, healed = check_alignment(ctx, part, d, route, hcase)
        if healed is not None:
          pool[i].append((flat, healed, True))
      else:
        c['history_unattached_checks'] += 1
        if dna_shape(d) != G.tree(part.desc, flat):
          ctx.violation('handed-out-shape', route,
                        f'{d!r} has the decisions {list(flat)!r} of a member whose '
                        f'documented tree is {G.nested(G.tree(part.desc, flat))!r}',
                        hcase)
        else:
          pool[i].append((flat, d, guarded(lambda d=d: d.spec) is not None))
      del pool[i][:-4]
  return checked


def _take(it, n):
  """The first n items of an iterator, then None if it ended there."""
  out = list(itertools.islice(it, n))
  if len(out) < n:
    out.append(None)
  return out


# --------------------------------------------------------------------------

def space_for(ctx):
  """A random description with at most `max_points` decision points."""
  rng = ctx.rng
  desc = None
  lower = rng.choice([2, 4, 5, 6])
  for attempt in range(40):
    if attempt == 30:
      lower = 1
    fl = rng.choice([0.0, 0.0, 0.1, 0.2])
    depth = rng.choice([1, 2, 2, 3]) if attempt < 30 else 1
    desc = S.random_space(rng, max_depth=depth, max_elems=3,
                          max_k=3, max_n=4, floats=fl, customs=fl / 3,
                          names=rng.choice([0.0, 0.5, 0.8]),
                          lits=rng.choice([0.0, 0.5, 0.9]),
                          min_elems=rng.choice([1, 1, 2]))
    if lower <= S.count_points(desc) <= ctx.params['max_points']:
      break
  return desc


def pick_members(ctx, sp):
  rng = ctx.rng
  desc = sp.desc
  n = int(ctx.params['dnas'])
  size = G.size(desc)
  if size is not None and size <= n:
    return list(G.enumerate_flat(desc))
  flats, seen = [], set()
  for _ in range(n * 4):
    f = G.random_member(desc, rng)
    if f not in seen:
      seen.add(f)
      flats.append(f)
    if len(flats) >= n:
      break
  # prefer members with many active points first (they exercise more keys)
  flats.sort(key=len, reverse=True)
  return flats


def run_case(ctx, i):
  rng = ctx.rng
  c = ctx.counters
  desc = space_for(ctx)
  case = {'space': S.show(desc)}
  # Half of the specs are built from library objects that were part of another
  # spec before (candidates / elements taken from a donor spec where they sat
  # at other positions, as they are or as clones / JSON copies); the reference
  # is the description either way.
  reuse_rng = pyrandom.Random(rng.randrange(1 << 30)) if rng.random() < float(
      ctx.params.get('reuse_share', 0.5)) else None
  stats = {}
  sp = guarded(lambda: Space(desc, reuse_rng, stats))
  for k, n in stats.items():
    c[k] += n
  if reuse_rng is not None:
    case['construction'] = 'candidates and elements taken from other specs: ' + ', '.join(
        sorted(k for k in stats if k.startswith('reuse:') and 'none' not in k))
  if isinstance(sp, Raised):
    ctx.violation('unexpected-exception',
                  'build-spec' if reuse_rng is None else 'build-spec[reused-objects]',
                  repr(sp), case)
    return
  c['specs_built:' + sp.construction] += 1
  sp2 = Space(desc)
  c['specs'] += 1
  c['decision_points'] += len(sp.all_points)
  if not check_spec_lookups(ctx, sp, case):
    return
  # -- members rebuilt from raw numbers: content, round trips, lookups
  flats = pick_members(ctx, sp)
  members = []
  for idx, f in enumerate(flats):
    m = Member(sp, f)
    mcase = dict(case, member=list(f))
    d = guarded(lambda: rebuild(sp, m))
    c['rebuilt_dnas'] += 1
    if isinstance(d, Raised):
      ctx.violation('member-rejected', 'DNA(spec=)', f'{m.nested!r}: {d!r}', mcase)
      continue
    if check_node_binding(ctx, sp, m, d, 'DNA(spec=)', mcase) == 'shape':
      ctx.violation('handed-out-shape', 'DNA(spec=)',
                    f'DNA({m.nested!r}) is {d!r}', mcase)
      continue
    members.append(m)
    check_numbers(ctx, sp, m, d, mcase)
    for name, r in check_json(ctx, sp, m, d, mcase):
      # "together with the specification": re-bound, the views are back
      if name == 'json[compact]' and idx < 3:
        r2 = guarded(lambda: r.use_spec(sp.spec))
        if isinstance(r2, Raised):
          ctx.violation('roundtrip', name + '+use_spec', repr(r2), mcase)
        else:
          check_alignment(ctx, sp, r2, 'from_json+use_spec', mcase)
    check_to_dict(ctx, sp, m, d, mcase, idx, len(flats))
    check_lookups(ctx, sp, m, d, mcase)
    ctx.seen('members', (S.show(desc), m.flat))
  if not members:
    return
  # -- DNAs handed out by the library
  handed = 0
  population = []
  for source, thunk in library_sources(ctx, sp, sp2, members, case):
    res = guarded(thunk)
    if isinstance(res, Raised):
      ctx.violation('unexpected-exception', MECHANISM.get(source, source),
                    repr(res), dict(case, route=source))
      continue
    for d in (res if isinstance(res, list) else [res]):
      if d is None:
        continue                       # next_dna of the last member
      status, healed = check_alignment(ctx, sp, d, source, case,
                                       full=rng.random() < 0.05)
      handed += status in ('ok', 'bad')
      if healed is not None and len(population) < 4 and rng.random() < 0.5:
        population.append(healed)
  if len(population) < 2:
    population += [rebuild(sp, m) for m in members[:2]]
  # -- chains of evolution operators
  chains = []
  for _ in range(int(ctx.params['chains'])):
    pop = list(population) + [rebuild(sp, rng.choice(members))]
    chains.append(run_chain(ctx, sp, pop, case))
  run_evolution(ctx, sp, case)
  # -- histories of requests on one long-lived spec object and on its parts
  # (own random stream: the cases above stay what they were)
  saved = ctx.rng
  ctx.rng = ctx.case_rng(ctx.index, 'histories')
  try:
    for _ in range(int(ctx.params.get('histories', 1))):
      # the spec every source above was drawn from, or a build that has not
      # handed out a DNA yet
      if ctx.rng.random() < 0.5:
        handed += run_history(ctx, sp, case, used_before=True)
      else:
        handed += run_history(ctx, sp2, case, used_before=False)
  finally:
    ctx.rng = saved
  interesting = any(
      e['t'] == 'choice' and (e['k'] > 1 or any(cd['elems'] for cd in e['cands']))
      for e in desc['elems'])
  if interesting and handed:
    ctx.mark_nontrivial(S.show(desc))
  ctx.seen('spaces', S.show(desc))
  if i < 2:
    ctx.sample({'space': S.show(desc), 'members': [list(m.flat) for m in members[:3]],
                'handed_out_compared': handed, 'chains': chains[:3]})
