"""C13 — hyper values: decode and encode are mutually inverse and side-effect
free (pg.template / pg.hyper.ObjectTemplate decode+encode, pg.materialize,
pg.iter, pg.random_sample, DynamicEvaluationContext) against the reference
decoder of `gen/templates.py`."""
import json
import traceback

import pyglove as pg
from pgverif.gen import spaces as S
from pgverif.gen import templates as TT
from pgverif.monitors import genoref as G

TIERS = {
    'quick': dict(shards=8, max_dnas=6, family_stride=4, random=28, dnas=4,
                  iter_max=24, corrupt=2, max_nodes=45, history=6,
                  family_history=3, grid_stride=2, wrong_shapes=3, flagged=0.15,
                  refs=3, reuse=5, keys=2, timeout_s=600),
    'thorough': dict(shards=16, max_dnas=24, family_stride=1, random=190,
                     dnas=8, iter_max=60, corrupt=3, max_nodes=60, history=8,
                     family_history=3, grid_stride=1, wrong_shapes=4, flagged=0.15,
                     refs=20, reuse=30, keys=12, timeout_s=3000,
                     case_timeout_s=300),
}
RULE = ('case = one template description (gen/templates.py) with a `where` '
        'filter. Part 1: the bounded family of search-space descriptions of '
        'gen/spaces.exhaustive(max_dnas) (every `family_stride`-th one, '
        'rotated by the seed, partitioned over the shards), each rendered as '
        'placeholders nested in dicts / lists / objects with pairwise '
        'different constants. Part 2: `random` seeded templates per shard: '
        'rendered random spaces (floats, custom and evolvable placeholders, '
        'names, depth <= 2), objects with placeholders bound to typed fields, '
        'tag / class filters, plain-container roots, deliberately '
        'indistinguishable candidates; pg.Dict / pg.List with a value spec (and '
        'models.Bounds objects) whose '
        'numeric bounds are boundary values (0, 0.0, -0.0, equal min/max, '
        'noneable) holding floatv / oneof / manyof whose ranges end on, just '
        'inside or just outside the bounds (the reference knows whether the '
        'range fits: a misfit may be refused at binding, else a member that '
        'decodes outside the spec is decoded first); evolvable placeholders '
        'whose node_transform changes the value; a share `flagged` of the '
        'family / random templates carries a symbolic flag set through public '
        'API (sealed, accessor_writable=False on the root / a sub-tree / a '
        'container inside a candidate, allow_partial root) and must behave '
        'like the unflagged one. Part 3: the bounded grid of '
        'boundary bindings gen/templates.bound_grid (bound value x lower/upper x '
        'range end just outside / outside / on / inside x floatv / oneof / manyof; '
        'every `grid_stride`-th one, rotated by the seed). Part 4: `refs` templates per '
        'shard with value references (pg.hyper.reference / ValueReference: relative '
        'paths found in the holding container, an enclosing one or from the root, the '
        'same key bound on several levels, inside lists / objects / candidates) whose '
        'referents are placeholders with None, 0, \'\', False, 0.0, [] and {} among '
        'their candidates, falsy constants or containers: the reference decoder puts '
        'the value of the nearest scope in which the path exists. Part 5: `reuse` typed '
        'containers per shard (pg.Dict / pg.List with a value spec, models.Bounds) whose '
        'ONE placeholder object (oneof / manyof / floatv around the bounds) was offered '
        'before to 1-3 other typed fields (equal / narrower / wider / other-typed spec; '
        'constructor, item / attribute assignment, rebind, append, spec.apply, object '
        'fields) that accepted or refused it: judged like a fresh binding (a range that '
        'does not fit may be refused, else every member must decode inside the spec). '
        'DNAs: all members of spaces with <= '
        '`dnas` members, else `dnas` reference-sampled members. Every DNA: '
        'decode twice, compare with the reference decoder, field rules, '
        'identity (no mutable object of a result is part of another result or '
        'of the template), the client edits one result in place (alternately '
        'the one handed out first / second; random append / setitem / new key / '
        'pop / rebind in every container) and decodes again, encode (of the '
        'decoded value, of its deep clone, and of an equal value rebuilt from '
        'plain or symbolic dicts / lists with permuted dict key order), '
        'materialize; every template: pg.iter, '
        'random sampling, dynamic evaluation, non-member DNAs, encode / try_encode '
        'of `wrong_shapes` one-step corruptions of a decoded value (dict with int '
        'keys for a list, extra / missing key, list length, container <-> leaf) '
        'after which the template must be unchanged whatever the outcome, and a HISTORY of '
        'decode / client edit of a handed-out value / random_dna(previous_dna) / '
        'next_dna / encode / re-decode over '
        'the members and the proposed children in which every value handed out '
        'earlier is re-read after every call and the DNA involved is decoded '
        'again, and finally compared with the decode of a fresh equal template; '
        'the template is snapshotted (JSON, format, own canonical form) around every call. '
        'Non-trivial = at least 2 members and (a conditional candidate, a '
        'multi-choice, a filter or a typed field); distinct by template text.')
LEVEL = 'exploration'
REQUIRED_COUNTERS = ['spec_checks', 'decode_checks', 'reference_compared',
                     'placeholder_checks', 'field_rule_checks',
                     'decode_twice_checks', 'independence_checks',
                     'mutations_applied', 'encode_checks', 'encode_inverse_checked',
                     'snapshot_checks', 'materialize_checks', 'iter_full',
                     'iter_values', 'random_sample_checks', 'dynamic_checks',
                     'nonmember_checks', 'where_templates', 'typed_templates',
                     'bound_spec_checks', 'binding_refusal_checks',
                     'bound_spec_templates', 'evolve_step_templates',
                     'history_ops', 'history_held_checks',
                     'history_redecode_checks', 'history_children',
                     'identity_checks', 'history_edits', 'encode_key_order_checks',
                     'reference_templates', 'reference_decode_checks',
                     'reference_falsy_checks', 'reuse_templates',
                     'reuse_offer_refused', 'reuse_offer_accepted', 'key_templates',
                     'wrong_shape_encode_checks', 'flagged_templates',
                     'history_fresh_template_checks']
ASSUMPTIONS = [
    'a DNA is valid for a template iff its decisions are a member of the space derived from the description (genoref); DNAs are built in the documented nested form, some bound to the template\'s own spec',
    'the reference decoder consumes decisions in placeholder order of the value (dict insertion order, list order, schema order of object fields; pick, its candidate, next pick); a placeholder rejected by `where` stays and its candidates are still searched',
    'values are compared by a type-precise canonical form read through sym_items / public attributes; dict key order is not compared',
    'candidates are distinguishable when no two candidates of any choice of the space can stand for ==-equal values (structural over-approximation); otherwise encode and pairwise difference are not judged',
    'the per-call DNA stored on hyper values (dna property, used by __call__) is not part of the template state that must stay unchanged',
    'templates whose filter keeps no placeholder, tuples containing placeholders, NaN, negative choice indices and manyof with num_choices of 0 or 1 are not generated',
    'a DNA proposed by random_dna / next_dna of the template\'s spec is used in a history only when it is a member of the reference space; the genome of an evolvable placeholder stands for the value whose JSON text it is; whether such calls raise is not judged',
    'a placeholder whose range is not inside the value spec of its field may be refused when it is bound (no template, nothing to check) and a refusal of a range that fits is reported as build-raised; int constants in float fields and floatv under noneable fields are not generated',
    'what encode / try_encode return or raise for a value that is not of the template\'s shape is not judged, only that the template is unchanged; which flags (sealed, accessor_writable, allow_partial) a decoded value carries is not judged, so an edit of a decoded value that the value refuses is skipped',
    'the genome encode gives for an evolvable value rebuilt with another dict key order may spell another key order (several genomes stand for equal values)',
    'value references: a path is "searched from current node to root" (derived.py), so the scope is the nearest enclosing container in which the path exists, whatever value is found there; generated only where the template and every decoded value agree on that scope (no path through a placeholder, no reference to a value holding references, none inside multi-choice candidates or inside placeholders the filter leaves); ObjectTemplate(compute_derived=False) and dynamic evaluation leave references alone and are not used for them',
    'a placeholder object that was offered to other typed fields before: when every earlier offer was refused it is bound to no spec and must be accepted by a field its range fits; after an accepted offer a refusal (bound to an incompatible spec) is not judged',
    'non-member DNAs (unsorted / repeated picks, index == number of candidates, float outside the range, wrong number of picks) must be rejected by decode: decode/encode can only be inverse bijections on the space',
]

_FAMILY = {}


def family(ctx):
  key = (ctx.params['max_dnas'], ctx.params['family_stride'], ctx.seed)
  if key not in _FAMILY:
    fam = S.exhaustive(ctx.params['max_dnas'])
    stride = max(1, int(ctx.params['family_stride']))
    _FAMILY[key] = fam[ctx.seed % stride::stride]
  return _FAMILY[key]


def setup(ctx):
  ctx.notes['family_used'] = len(family(ctx))


def my_part(ctx):
  return family(ctx)[ctx.shard::ctx.nshards]


_GRID = {}


def my_grid(ctx):
  """This shard's part of the boundary-binding grid (every `grid_stride`-th
  one, rotated by the seed)."""
  key = (ctx.params['grid_stride'], ctx.seed, ctx.shard, ctx.nshards)
  if key not in _GRID:
    stride = max(1, int(ctx.params['grid_stride']))
    _GRID[key] = TT.bound_grid()[ctx.seed % stride::stride][ctx.shard::ctx.nshards]
  return _GRID[key]


def cases(ctx):
  return (len(my_part(ctx)) + len(my_grid(ctx)) + int(ctx.params['random'])
          + int(ctx.params.get('refs', 0)) + int(ctx.params.get('reuse', 0))
          + int(ctx.params.get('keys', 0)))


# --------------------------------------------------------------------------
# Helpers.
# --------------------------------------------------------------------------

def is_lib_error(e):
  frames = traceback.extract_tb(e.__traceback__)
  inner = frames[-1].filename if frames else ''
  return 'pyglove' in inner and '/pgverif/' not in inner


def tb(e):
  return ''.join(traceback.format_exception(e))[-1800:]


def snap(v):
  """Observable state of a template value: JSON, format, canonical form."""
  return (json.dumps(pg.to_json(v), default=repr, sort_keys=True),
          pg.format(v, compact=True), TT.canon_value(v))


def dna_shape(d):
  return G.Node(d.value, [dna_shape(c) for c in d.children])


def has_typed(T):
  if T['t'] == 'obj' and T['cls'] != 'Any2':
    return True
  if T.get('specs') or T.get('elem'):
    return True
  kids = [c for _, c in TT.children(T)]
  if T['t'] == 'choice':
    kids = T['cands']
  return any(has_typed(c) for c in kids)


def has_form(T, form):
  return any(p['t'] == 'custom' and p['form'] == form for p in TT.all_placeholders(T))


def is_conditional(P, W):
  return P['t'] == 'choice' and any(TT.to_space(c, W)['elems'] for c in P['cands'])


def family_of(P):
  return TT.key_kind(P).split('[')[0]


def container_paths(T, path=()):
  """Paths (tokens) of the containers of a template value, also those inside
  the candidates of choices."""
  out = []
  if T['t'] in ('dict', 'list', 'obj'):
    out.append(path)
    for tok, c in TT.children(T):
      out.extend(container_paths(c, path + (tok,)))
  elif T['t'] == 'choice':
    for i, c in enumerate(T['cands']):
      out.extend(container_paths(c, path + (('k', 'candidates'), ('i', i))))
  return out


FLAG_KINDS = ('sealed', 'accessor-not-writable', 'allow-partial')


def random_flags(T, rng):
  """[kind, [path, ...]] or None: which symbolic flag the template value
  carries and on which containers (root / sub-tree / inside a candidate)."""
  paths = container_paths(T)
  if not paths:
    return None
  kind = rng.choice(['sealed', 'sealed', 'accessor-not-writable', 'allow-partial'])
  if kind == 'allow-partial':
    if T['t'] not in ('dict', 'list', 'obj') or T.get('specs') or T.get('elem'):
      kind = 'sealed'
    else:
      return [kind, [()]]
  if rng.random() < 0.35:
    return [kind, [paths[0]]]                 # the root, when it is a container
  return [kind, rng.sample(paths, min(len(paths), rng.randint(1, 2)))]


def apply_flags(T, flags):
  """The template value of T with the flags set through public API."""
  kind, paths = flags
  if kind == 'allow-partial':
    if T['t'] == 'dict':
      return pg.Dict({k: TT.build(c) for k, c in T['items']}, allow_partial=True)
    if T['t'] == 'list':
      return pg.List([TT.build(c) for c in T['items']], allow_partial=True)
    from pgverif import models as M  # pylint: disable=g-import-not-at-top
    return getattr(M, T['cls']).partial(**{k: TT.build(c) for k, c in T['fields']})
  v = TT.build(T)
  for path in paths:
    node = v
    for tok in path:
      node = node.sym_getattr(tok[1]) if isinstance(node, pg.Symbolic) else node[tok[1]]
    if kind == 'sealed':
      node.seal()
    else:
      node.set_accessor_writable(False)
  return v


class Case:
  """One template under test."""

  reused = False     # ReuseCase: the placeholder object was offered before

  def __init__(self, T, W, plain, bad_size, entry, flags=None, key_class=None,
               loc_T=None):
    self.T, self.W, self.plain, self.entry = T, W, plain, entry
    # class of the unusual dict keys of the template (see `rename_keys`);
    # loc_T: the same description with ordinary keys, from which the reference
    # space takes the spelling of its locations (not compared then)
    self.key_class = key_class
    # [kind, [path tokens of a container of the template value, ...]]: the
    # template value carries symbolic flags (see `apply_flags`)
    self.flags = flags
    # the oversized manyof only matters when the filter keeps it
    self.bad_size = bad_size and any(
        p['t'] == 'choice' and p['k'] == 5 and TT.keep(W, p)
        for p in TT.all_placeholders(T))
    # placeholder ranges that are not inside the value spec of their field
    self.misfit = sorted(set(TT.misfits(T)))
    self.space = TT.to_space(loc_T or T, W)
    self.size = G.size(self.space)
    self.tops = TT.top_placeholders(T, W)
    self.root_choice = any(p == () for p, _ in self.tops)
    self.dist = TT.distinguishable(T, W)
    self.where = TT.where_fn(W)
    self.bound_spec = TT.has_bound_spec(T)
    # value references (derived values) of the constant part: path tokens
    self.has_ref = TT.has_ref(T)
    self.ref_paths = [p for _, _, p, _ in TT.ref_sites(T, W) if p is not None]
    self._dnas = {}
    self.record = {'template': TT.show(T), 'where': TT.show_where(W),
                   'entry': entry, 'plain_root': plain, 'description': T,
                   'filter': W}
    if flags:
      self.record['flags'] = [flags[0], [
          '/'.join(str(t[1]) for t in p) or '<root>' for p in flags[1]]]
    self.make()

  def make(self):
    if self.flags:
      self.v = apply_flags(self.T, self.flags)
    else:
      self.v = TT.build(self.T, plain_root=self.plain)
    if self.entry == 'pg.template':
      self.t = pg.template(self.v, self.where)
    else:
      self.t = pg.hyper.ObjectTemplate(self.v, where=self.where)
    self.before = snap(self.v)

  def feature(self):
    """Coarse class of the template (harness facts) for failures that cannot
    be attributed to one placeholder."""
    if self.key_class:
      return 'dict-key:' + self.key_class
    if self.plain:
      return 'plain-container-root'
    if self.has_ref:
      return 'value-reference'
    if self.reused:
      # .../list-size: the number of choices is outside the size bounds of the
      # list field (else: a candidate / range end is outside the field spec)
      return 'reused-placeholder' + ('/list-size' if 'list-size' in self.misfit else '')
    if self.flags:
      return self.flags[0] + '-template'
    if self.bad_size:
      return 'manyof-vs-list-size'
    if self.misfit:
      return 'range-vs-field-spec'
    if TT.where_in_candidate(self.T, self.W):
      return 'where-in-candidate'
    if self.W['by'] != 'all':
      return 'where'
    if any(is_conditional(p, self.W) for _, p in self.tops):
      return 'conditional'
    return 'flat'

  def region(self, a, b):
    """Family of the top-level placeholder below which two canonical forms
    differ: oneof | manyof | float | custom | evolve [/conditional]."""
    for path, P in self.tops:
      if TT.canon_get(a, path) != TT.canon_get(b, path):
        return family_of(P) + ('/conditional' if is_conditional(P, self.W) else '')
    for path in self.ref_paths:
      if TT.canon_get(a, path) != TT.canon_get(b, path):
        return 'value-reference'
    return 'constant-part'

  def alias_region(self, a, b):
    """root-choice | nested-placeholder | constant-part."""
    for path, P in self.tops:
      if TT.canon_get(a, path) != TT.canon_get(b, path):
        return 'root-choice' if path == () and P['t'] == 'choice' else 'nested-placeholder'
    return 'constant-part'

  def path_region(self, path):
    """root-choice | nested-placeholder | constant-part for a path (tokens) of
    a decoded value."""
    for top, P in self.tops:
      if tuple(path[:len(top)]) == tuple(top):
        return 'root-choice' if top == () and P['t'] == 'choice' else 'nested-placeholder'
    return 'constant-part'

  def dna(self, m, bound=False):
    form = G.nested(G.tree(self.space, m))
    if bound:
      return pg.DNA(form, spec=self.t.dna_spec())
    if m not in self._dnas:
      self._dnas[m] = pg.DNA(form)
    return self._dnas[m]


# --------------------------------------------------------------------------
# Re-use of a placeholder OBJECT: it is offered to typed fields (which accept
# or refuse it, the caller handles a refusal) before it is put into the
# container the template is made of.
# --------------------------------------------------------------------------

FINAL_SITES = ('dict-ctor', 'dict-setitem', 'dict-setattr', 'dict-rebind',
               'list-ctor', 'list-append', 'list-setitem',
               'object-ctor', 'object-rebind')
PRIOR_SITES = FINAL_SITES + ('spec-apply', 'spec-apply')
# typed fields of the models classes, by family of the placeholder
OBJECT_FIELDS = {
    'int': [('Bounds', 'i0'), ('Bounds', 'ip'), ('Typed', 'i'), ('Typed', 'n'),
            ('Inner', 'p')],
    'float': [('Bounds', 'z'), ('Bounds', 'nz'), ('Bounds', 'm'), ('Bounds', 'zi'),
              ('Bounds', 'neg'), ('Typed', 'fl')],
    'list': [('Bounds', 'lz'), ('Typed', 'l')],
}
REFUSAL = (ValueError, TypeError, KeyError)


def valid_filler(s):
  """A constant that the SPEC accepts."""
  if s['s'] == 'any':
    return 0
  if s['s'] == 'list':
    n = max(s['min'], 1)
    if s['max'] is not None:
      n = min(n, s['max'])
    return [valid_filler(s['elem'])] * n
  if s['none']:
    return None
  v = s['lo'] if s['lo'] is not None else s['hi'] if s['hi'] is not None else 0
  return float(v) if s['s'] == 'float' else int(v)


def bind(site, ph, s, target):
  """Offers the placeholder object `ph` to a typed field (SPEC s, or the
  field `target` = (class, field) of a models class); returns the container
  that holds it now, or raises what the library raises."""
  from pgverif import models as M  # pylint: disable=g-import-not-at-top
  if site.startswith('object-'):
    cls = getattr(M, target[0])
    if site == 'object-ctor':
      return cls(**{target[1]: ph})
    o = cls()
    o.rebind({target[1]: ph})
    return o
  spec = TT.real_spec(s)
  if site == 'spec-apply':
    return spec.apply(ph)
  if site.startswith('dict-'):
    vs = pg.typing.Dict([('x', spec), ('y', pg.typing.Any())])
    if site == 'dict-ctor':
      return pg.Dict({'x': ph, 'y': 'keep'}, value_spec=vs)
    d = pg.Dict({'x': valid_filler(s), 'y': 'keep'}, value_spec=vs)
    if site == 'dict-setitem':
      d['x'] = ph
    elif site == 'dict-setattr':
      d.x = ph
    else:
      d.rebind(x=ph)
    return d
  vs = pg.typing.List(spec)
  if site == 'list-ctor':
    return pg.List([ph], value_spec=vs)
  if site == 'list-append':
    l = pg.List([], value_spec=vs)
    l.append(ph)
    return l
  l = pg.List([valid_filler(s)], value_spec=vs)
  l[0] = ph
  return l


def vary_spec(rng, s):
  """A SPEC of the same shape as s: equal, narrower, wider, or of the other
  numeric type."""
  if s['s'] == 'list':
    if rng.random() < 0.6:
      return TT.spec_list(vary_spec(rng, s['elem']), s['min'], s['max'])
    lo = rng.choice([0, s['min'], s['min'] + 1])
    hi = rng.choice([None, s['max'], 2, 3])
    if hi is not None and hi < lo:
      hi = lo
    return TT.spec_list(s['elem'], lo, hi)
  is_int = s['s'] == 'int'
  lo, hi, none = s['lo'], s['hi'], s['none']
  step = rng.choice([1, 1, 2, 10]) if is_int else rng.choice([1e-9, 0.25, 0.5, 1.0])
  r = rng.random()
  if r < 0.3:
    return dict(s)
  if r < 0.65:                                  # narrower
    if rng.random() < 0.5:
      hi = (hi if hi is not None else (lo if lo is not None else 0) + 2 * step) - step
    else:
      lo = (lo if lo is not None else (hi if hi is not None else 0) - 2 * step) + step
    if lo is not None and hi is not None and lo > hi:
      lo = hi
    return TT.spec_num(s['s'], lo, hi, none and rng.random() < 0.7)
  if r < 0.87:                                  # wider
    if rng.random() < 0.5:
      hi = None if hi is None or rng.random() < 0.4 else hi + step
    else:
      lo = None if lo is None or rng.random() < 0.4 else lo - step
    return TT.spec_num(s['s'], lo, hi, none or rng.random() < 0.3)
  if is_int:
    return TT.spec_num('float', lo, hi, none)
  return TT.spec_num('int', None if lo is None else 0, None if hi is None else max(1, int(hi)), none)


def reuse_plan(rng):
  """(T, placeholder description, SPEC of its field, (final site, target),
  [(earlier site, SPEC, target), ...])."""
  st = TT.State(rng, tags=rng.random() < 0.3)
  fam = rng.choice(['int', 'int', 'float', 'float', 'list'])
  st.outside = rng.random() < 0.55
  site = rng.choice(FINAL_SITES)
  s, target = None, None
  if site.startswith('object-'):
    field = rng.choice({'int': ['i0', 'ip'], 'float': ['z', 'nz', 'm', 'zi', 'neg'],
                        'list': ['lz']}[fam])
    s, target = TT.CLASS_SPECS['Bounds'][field], ('Bounds', field)
  if fam == 'int':
    s, ph = TT.int_field(st, s)
  elif fam == 'float':
    s = s or TT.float_spec(rng, none=rng.random() < 0.1)
    ph = TT.float_field(st, s)
  else:
    s, ph = TT.list_field(st, s)
  if site.startswith('dict-'):
    T = TT.tdict([['x', ph], ['y', TT.const('keep')]], {'x': s})
  elif site.startswith('list-'):
    T = TT.tlist([ph], elem=s)
  else:
    f = {k: TT.const(v) for k, v in TT.BOUNDS_DEFAULTS.items()}
    f['lz'] = TT.tlist([])
    f[target[1]] = ph
    T = TT.tobj('Bounds', list(f.items()))
  priors = []
  for _ in range(rng.choice([1, 1, 2, 3])):
    ps = rng.choice(PRIOR_SITES)
    if ps.startswith('object-'):
      priors.append((ps, None, rng.choice(OBJECT_FIELDS[fam])))
    else:
      priors.append((ps, vary_spec(rng, s), None))
  return T, ph, s, (site, target), priors


LAST_TRACE = [[]]       # outcomes of the earlier offers of the latest ReuseCase


class ReuseCase(Case):
  """A typed container with ONE placeholder whose object was offered to other
  typed fields before (every offer is made again when the case is rebuilt)."""
  reused = True

  def __init__(self, plan, entry):
    T, self.ph, self.s, self.final, self.priors = plan
    self.trace = []
    super().__init__(T, TT.ALL, False, False, entry)

  def make(self):
    ph = TT.build(self.ph)
    self.trace = LAST_TRACE[0] = []
    for site, s, target in self.priors:
      try:
        bind(site, ph, s, target)
        self.trace.append('accepted')
      except REFUSAL:                          # the caller handles a refusal
        self.trace.append('refused')
    self.record['offered_before'] = [
        [site, TT.show_spec(s) if s else '.'.join(target), out]
        for (site, s, target), out in zip(self.priors, self.trace)]
    self.record['final_site'] = self.final[0]
    self.v = bind(self.final[0], ph, self.s, self.final[1])
    if self.entry == 'pg.template':
      self.t = pg.template(self.v, self.where)
    else:
      self.t = pg.hyper.ObjectTemplate(self.v, where=self.where)
    self.before = snap(self.v)


def check_snapshot(ctx, cs, op, detail=''):
  """The template must look exactly as before the call."""
  ctx.counters['snapshot_checks'] += 1
  now = snap(cs.v)
  if now == cs.before:
    return True
  what = ['json', 'format', 'canonical'][[a == b for a, b in zip(now, cs.before)].index(False)]
  ctx.violation('template-changed', op,
                f'{what} of the template value changed by {op} {detail} (below: '
                f'{cs.region(cs.before[2], now[2])})\n'
                f'before: {cs.before[1][:600]}\nafter:  {now[1][:600]}', cs.record)
  cs.make()                                   # heal
  return False


# --------------------------------------------------------------------------
# Spec of the template vs the space of the description.
# --------------------------------------------------------------------------

def spec_mismatch(space, spec, locs=True):
  """None, or (kind of decision point, what differs); locs=False: how the
  location of a decision point is spelled is not compared."""
  if not isinstance(spec, pg.geno.Space):
    return ('space', 'not a Space')
  if len(spec.elements) != len(space['elems']):
    return ('space', f"{len(spec.elements)} elements, expected {len(space['elems'])}")
  for e, s in zip(space['elems'], spec.elements):
    k = G.kind(e)
    if locs and str(s.location) != e['loc']:
      return (k, f"location {str(s.location)!r}, expected {e['loc']!r}")
    if s.name != e['name']:
      return (k, f"name {s.name!r}, expected {e['name']!r}")
    if e['t'] == 'float':
      if not isinstance(s, pg.geno.Float) or (s.min_value, s.max_value) != (e['lo'], e['hi']):
        return (k, f'{s!r:.200}')
    elif e['t'] == 'custom':
      if not isinstance(s, pg.geno.CustomDecisionPoint):
        return (k, f'{s!r:.200}')
    else:
      if not isinstance(s, pg.geno.Choices):
        return (k, f'{s!r:.200}')
      facts = (s.num_choices, len(s.candidates), s.distinct, s.sorted)
      want = (e['k'], len(e['cands']), e['distinct'], e['sorted'])
      if e['k'] == 1:
        facts, want = facts[:2], want[:2]
      if facts != want:
        return (k, f'(k, n, distinct, sorted) = {facts}, expected {want}')
      for c, cs in zip(e['cands'], s.candidates):
        r = spec_mismatch(c, cs, locs)
        if r:
          return r
  return None


def check_spec(ctx, cs):
  ctx.counters['spec_checks'] += 1
  try:
    spec = cs.t.dna_spec()
    bad = spec_mismatch(cs.space, spec, locs=not cs.key_class)
    size = spec.space_size
  except Exception as e:  # pylint: disable=broad-except
    if not is_lib_error(e):
      raise
    ctx.violation('spec-raised', cs.feature(), tb(e), cs.record)
    return False
  if bad:
    ctx.violation('spec-shape', bad[0], f'{bad[1]}; reference space {S.show(cs.space)}',
                  cs.record)
    return False
  if size != (-1 if cs.size is None else cs.size):
    ctx.violation('spec-size', 'template', f'space_size {size}, reference {cs.size}',
                  cs.record)
    return False
  return True


# --------------------------------------------------------------------------
# Mutation of a decoded value (independence).
# --------------------------------------------------------------------------

def containers(v, out=None):
  out = [] if out is None else out
  if isinstance(v, (pg.Dict, pg.List, pg.Object)):
    out.append(v)
    for _, x in v.sym_items():
      containers(x, out)
  elif isinstance(v, dict):
    out.append(v)
    for x in v.values():
      containers(x, out)
  elif isinstance(v, list):
    out.append(v)
    for x in v:
      containers(x, out)
  return out


def variant(x):
  if isinstance(x, bool):
    return [not x]
  if isinstance(x, int):
    return [y for y in (x + 1, x - 1, 0, 3) if y != x]
  if isinstance(x, float):
    return [y for y in (0.125, 0.25, x / 2) if y != x]
  if isinstance(x, str):
    return [x + 'M', 'b' if x != 'b' else 'c']
  if x is None:
    return ['M', 3]
  return []


def mutables(v, path=(), out=None):
  """[(path tokens, object)]: every mutable object reachable from `v` through
  public API (symbolic containers / objects, placeholders left in a value,
  built-in dicts and lists); path tokens as in gen/templates."""
  out = [] if out is None else out
  if isinstance(v, pg.Symbolic):
    out.append((path, v))
    for k, x in v.sym_items():
      mutables(x, path + ((('i', k) if isinstance(k, int) else ('k', k)),), out)
  elif isinstance(v, dict):
    out.append((path, v))
    for k, x in v.items():
      mutables(x, path + (('k', k),), out)
  elif isinstance(v, list):
    out.append((path, v))
    for k, x in enumerate(v):
      mutables(x, path + (('i', k),), out)
  return out


def mutate_all(v, counters, rng=None, some=False):
  """Changes containers of `v` in place where their spec allows a change:
  every container, or (some=True) a random non-empty subset; with `rng` the
  kind of edit (append / setitem / new key / pop / rebind) is random."""
  nodes_ = containers(v)
  if some and rng is not None and len(nodes_) > 1:
    nodes_ = rng.sample(nodes_, rng.randint(1, len(nodes_)))
  for node in nodes_:
    attempts = []
    if isinstance(node, pg.Object):
      for k, x in list(node.sym_items()):
        for y in variant(x):
          attempts.append(lambda node=node, k=k, y=y: node.rebind({k: y}))
    elif isinstance(node, dict):
      attempts.append(lambda node=node: node.__setitem__('mut__', 'M'))
      for k, x in list(node.items()):
        for y in variant(x):
          attempts.append(lambda node=node, k=k, y=y: node.__setitem__(k, y))
    else:
      attempts.append(lambda node=node: node.append('M'))
      for y in (variant(node[0]) if len(node) else []):
        attempts.append(lambda node=node, y=y: node.__setitem__(0, y))
      attempts.append(lambda node=node: node.append(0))
      attempts.append(lambda node=node: node.pop())
    if rng is not None:
      rng.shuffle(attempts)
    done = False
    for a in attempts[:12]:
      try:
        a()
        done = True
        break
      except Exception:  # pylint: disable=broad-except
        continue
    counters['mutations_applied' if done else 'mutations_rejected'] += 1


# --------------------------------------------------------------------------
# Per-DNA monitors.
# --------------------------------------------------------------------------

def decode(ctx, cs, dna, m, op='decode'):
  """Calls decode on a valid DNA; returns (ok, value)."""
  ctx.counters['decode_checks'] += 1
  try:
    return True, cs.t.decode(dna)
  except Exception as e:  # pylint: disable=broad-except
    if not is_lib_error(e) and not isinstance(e, (ValueError, TypeError, KeyError, AttributeError)):
      raise
    # unusual dict keys: one key per class of key, whether decode raises or
    # returns a value of another shape
    ctx.violation(*(('decode-wrong', cs.feature()) if cs.key_class else
                    ('decode-raised', f'decode:{cs.feature()}')),
                  f'decode of the valid DNA {dna!r} (decisions {list(m)!r}) raised:\n{tb(e)}',
                  cs.record)
    return False, None


def check_identity(ctx, cs, values, detail):
  """No mutable object reachable from one decode result is reachable from
  another decode result or from the template (an edit by the client of one
  result would change the other / the template). True when one is shared."""
  ctx.counters['identity_checks'] += 1
  roots = [cs.v]
  try:
    if cs.t.value is not cs.v:
      roots.append(cs.t.value)
  except Exception:  # pylint: disable=broad-except
    pass
  tids = set()
  for r in roots:
    tids.update(id(x) for _, x in mutables(r))
  seen = {}
  for n, v in enumerate(values):
    if v is None:
      continue
    for path, x in mutables(v):
      at = '/'.join(str(t[1]) for t in path)
      if id(x) in tids:
        ctx.violation('decode-aliases-template', cs.path_region(path),
                      f'identity: the object at {at!r} of one of the '
                      f'{detail} is an object of the template itself: '
                      f'{pg.format(x, compact=True)[:300]}', cs.record)
        return True
      if seen.get(id(x), n) != n:
        ctx.violation('decode-aliases-decode', cs.path_region(path),
                      f'identity: the object at {at!r} of one of the '
                      f'{detail} is also part of another one: '
                      f'{pg.format(x, compact=True)[:300]}', cs.record)
        return True
      seen[id(x)] = n
  return False


def permuted_copy(v, rng, plain, stats, skip=None, path=()):
  """A value equal to `v`, rebuilt from scratch: every dict (plain=True:
  built-in dicts / lists, else pg.Dict / pg.List) lists its keys in another
  order; objects are constructed again from their (rebuilt) fields. `skip`:
  paths at / below which dicts keep their order; stats['below'] counts the
  permuted dicts at / below stats['tops']."""
  if isinstance(v, pg.hyper.HyperPrimitive):
    return v.clone(deep=True)                 # a placeholder the filter left
  if isinstance(v, pg.Object):
    return type(v)(**{k: permuted_copy(x, rng, plain, stats, skip, path + (('k', k),))
                      for k, x in v.sym_items()})
  if isinstance(v, dict):
    src = v.sym_items() if isinstance(v, pg.Dict) else v.items()
    items = [(k, permuted_copy(x, rng, plain, stats, skip, path + (('k', k),)))
             for k, x in src]
    below = lambda tops: any(tuple(path[:len(t)]) == tuple(t) for t in tops)
    if len(items) >= 2 and not (skip and below(skip)):
      keys = [k for k, _ in items]
      rng.shuffle(items)
      if [k for k, _ in items] == keys:
        items.reverse()
      stats['permuted'] += 1
      if below(stats['tops']):
        stats['below'] += 1
    return dict(items) if plain else pg.Dict(dict(items))
  if isinstance(v, list):
    src = [x for _, x in v.sym_items()] if isinstance(v, pg.List) else list(v)
    items = [permuted_copy(x, rng, plain, stats, skip, path + (('i', i),))
             for i, x in enumerate(src)]
    return items if plain else pg.List(items)
  return v


def same_dna(a, b):
  """DNA trees equal; two genomes (strings) of a custom / evolvable decision
  also count as equal when both are JSON texts of equal values (the genome of
  an evolvable value is its JSON text, which spells out a key order: several
  genomes stand for equal values and which one encode gives is left open)."""
  if len(a.children) != len(b.children):
    return False
  if a.value != b.value:
    if not (isinstance(a.value, str) and isinstance(b.value, str)):
      return False
    try:
      if json.loads(a.value) != json.loads(b.value):
        return False
    except ValueError:
      return False
  return all(same_dna(x, y) for x, y in zip(a.children, b.children))


def check_key_order(ctx, cs, dna, value, e_value, c_value, plain):
  """encode(value') == encode(value) for value' equal to the decoded `value`
  but rebuilt with permuted dict key order. False when the case must end."""
  c = ctx.counters
  # permuted: the dicts of the constant part only, or (scope 'all') also the
  # dicts that came from candidates of choices / other placeholders
  tops = [p for p, _ in cs.tops]
  scope = ctx.rng.choice(['top', 'all'])
  stats = {'permuted': 0, 'below': 0, 'tops': tops}
  try:
    other = permuted_copy(value, ctx.rng, plain, stats,
                          skip=tops if scope == 'top' else None)
    equal = TT.canon_value(other) == c_value and bool(pg.eq(other, value))
  except Exception:  # pylint: disable=broad-except
    c['key_order_rebuild_failed'] += 1        # e.g. a value its class refuses
    return True
  if not stats['permuted']:
    c['key_order_no_dict_with_two_keys'] += 1
    return True
  if not equal:
    c['key_order_rebuild_not_equal'] += 1
    return True
  form = 'plain-dict' if plain else 'pg.Dict'
  mech = 'permuted-dict-keys' + ('/in-candidate' if stats['below'] else '')
  c['encode_key_order_checks'] += 1
  c['encode_key_order:' + form] += 1
  c['encode_key_order:' + mech] += 1
  try:
    e = cs.t.encode(other)
  except Exception as ex:  # pylint: disable=broad-except
    if not is_lib_error(ex) and not isinstance(ex, (ValueError, TypeError, KeyError, NotImplementedError)):
      raise
    ctx.violation('encode-key-order', 'encode-raised:' + mech,
                  f'encode(decode({dna!r})) = {e_value!r}, but encode of the equal value '
                  f'{other!r:.500} (dict keys in another order) raised:\n{tb(ex)}', cs.record)
    return check_snapshot(ctx, cs, 'encode')
  if not check_snapshot(ctx, cs, 'encode'):
    return False
  if not same_dna(e, e_value):
    ctx.violation('encode-key-order', 'encode:' + mech,
                  f'encode(decode({dna!r})) = {e_value!r}, but encode of the equal value '
                  f'{other!r:.500} (dict keys in another order) = {e!r}', cs.record)
  return True


def check_dna(ctx, cs, m, j):
  """All monitors for one valid DNA. Returns False when the case must end."""
  c = ctx.counters
  rng = ctx.rng
  T, W = cs.T, cs.W
  exp_desc = TT.ref_decode(T, W, m)
  exp = TT.canon_desc(exp_desc)
  dna = cs.dna(m, bound=(j == 2))
  ok, d1 = decode(ctx, cs, dna, m)
  if not ok:
    if cs.plain:
      cs.plain = False                 # heal: go on with a symbolic root
      cs.record['plain_root'] = 'healed'
      cs.make()
      ok, d1 = decode(ctx, cs, dna, m)
    if not ok:
      return False
  if not check_snapshot(ctx, cs, 'decode', f'of {dna!r}'):
    return False
  c1 = TT.canon_value(d1)
  # -- equals the reference decode (shape, values, types)
  c['reference_compared'] += 1
  same = c1 == exp
  if cs.ref_paths:
    c['reference_decode_checks'] += 1
    if any(TT.canon_get(exp, p) in FALSY_FORMS for p in cs.ref_paths):
      c['reference_falsy_checks'] += 1
  if not same:
    ctx.violation(*(('decode-wrong', cs.feature()) if cs.key_class else
                    ('decode-differs', 'decode:' + cs.region(c1, exp))),
                  f'decode({dna!r}) = {pg.format(d1, compact=True)[:700]}\n'
                  f'reference: {TT.show(exp_desc)[:700]}', cs.record)
    if cs.key_class:
      return False                     # one key per defect of this class
  # -- no placeholder left, except those the filter excluded
  c['placeholder_checks'] += 1
  left = sorted(map(repr, TT.canon_placeholders(c1)))
  want_left = sorted(map(repr, TT.canon_placeholders(exp)))
  det = pg.is_deterministic(d1)
  if left != want_left or det != (not want_left):
    ctx.violation('placeholder-left', 'decode:' + ('where' if W['by'] != 'all' else 'all'),
                  f'decode({dna!r}) leaves {len(left)} placeholders (is_deterministic='
                  f'{det}), the filter leaves {len(want_left)}: '
                  f'{pg.format(d1, compact=True)[:700]}', cs.record)
  # -- accepted by the value specs the placeholders were bound to
  c['field_rule_checks'] += 1
  for fld in sorted(set(TT.broken_field_rules(c1))):
    ctx.violation('field-spec-broken', fld,
                  f'decode({dna!r}) = {pg.format(d1, compact=True)[:700]}', cs.record)
  if cs.bound_spec:
    c['bound_spec_checks'] += 1
    for fld in sorted(set(TT.broken_bound_specs(exp_desc, c1))):
      ctx.violation('field-spec-broken', fld,
                    f'decode({dna!r}) = {pg.format(d1, compact=True)[:700]}', cs.record)
  # -- a second decode of the same DNA: equal and independent
  ok, d2 = decode(ctx, cs, dna, m)
  if ok:
    c['decode_twice_checks'] += 1
    c2 = TT.canon_value(d2)
    try:
      eq = pg.eq(d1, d2) and not pg.ne(d1, d2)
    except Exception as e:  # pylint: disable=broad-except
      eq = False
    if c2 != c1 or not eq:
      ctx.violation('decode-twice-differs', 'decode',
                    f'two decodes of {dna!r}: {pg.format(d1, compact=True)[:500]} vs '
                    f'{pg.format(d2, compact=True)[:500]} (pg.eq={eq})', cs.record)
    # -- no mutable object of one result is part of the other or of the template
    shared = check_identity(ctx, cs, [d1, d2], f'decodes of {dna!r}')
    # -- the client edits one of the results in place (the one handed out first
    #    or the later one), then decodes the same DNA again
    c['independence_checks'] += 1
    if j % 2 == 0:
      edited, kept, ck, which = d1, d2, c2, 'first'
    else:
      edited, kept, ck, which = d2, d1, c1, 'second'
    c['edited_result:' + which] += 1
    mutate_all(edited, c, rng)
    now = snap(cs.v)
    kept_after = TT.canon_value(kept)
    ok3, d3 = decode(ctx, cs, dna, m)
    c3 = TT.canon_value(d3) if ok3 else None
    if ok3 and not shared:
      shared = check_identity(ctx, cs, [d3, edited, kept],
                              f'decodes of {dna!r} (one edited in between)')
    if shared:
      pass                                        # reported by check_identity
    elif now != cs.before:
      ctx.violation('decode-aliases-template', cs.alias_region(cs.before[2], now[2]),
                    f'mutating the value decoded {which} from {dna!r} changed the template:\n'
                    f'before: {cs.before[1][:500]}\nafter:  {now[1][:500]}', cs.record)
    elif c3 != c1:
      ctx.violation('decode-aliases-template', cs.alias_region(c1, c3) if ok3 else 'decode-raised',
                    f'after mutating the value decoded {which} from {dna!r}, decoding it again '
                    f'gives another value (the value of the template looks unchanged): '
                    f'{pg.format(d3, compact=True)[:600] if ok3 else "raised"}', cs.record)
    elif kept_after != ck:
      ctx.violation('decode-aliases-decode', cs.alias_region(ck, kept_after),
                    f'mutating the value decoded {which} from {dna!r} changed the other: '
                    f'{pg.format(kept, compact=True)[:600]}', cs.record)
    if shared or now != cs.before or c3 != c1 or kept_after != ck:
      cs.make()                        # heal
      ok, d1 = decode(ctx, cs, dna, m)
      if not ok:
        return False
    else:
      d1 = d3                          # an unedited result for the checks below
  # -- encode is the inverse of decode
  e_value = v_value = None
  for variant_name in ('value', 'clone'):
    if not same:
      c['encode_skipped_wrong_value'] += 1
      break
    if variant_name == 'clone':
      if j != 0 or not isinstance(d1, pg.Symbolic):
        continue
      try:
        d1 = d1.clone(deep=True)
      except Exception as ex:  # pylint: disable=broad-except
        if not is_lib_error(ex):
          raise
        # cloning applies the bound value specs to the decoded parts again
        ctx.violation('field-spec-broken', 'clone-rejected',
                      f'clone of decode({dna!r}) raised:\n{tb(ex)}', cs.record)
        break
    c['encode_checks'] += 1
    try:
      e = cs.t.encode(d1)
      if variant_name == 'value':
        e_value, v_value = e, d1
    except Exception as ex:  # pylint: disable=broad-except
      if not is_lib_error(ex) and not isinstance(ex, (ValueError, TypeError, KeyError, NotImplementedError)):
        raise
      if not check_snapshot(ctx, cs, 'encode'):
        return False
      if cs.dist:
        feat = cs.feature()
        ctx.violation('encode-not-inverse', 'encode:' + (
            feat if feat == 'where-in-candidate' else 'raised:' + feat),
                      f'encode(decode({dna!r})) raised:\n{tb(ex)}', cs.record)
      else:
        c['encode_raised_indistinguishable'] += 1
      break
    if not check_snapshot(ctx, cs, 'encode'):
      return False
    if not cs.dist:
      c['encode_not_judged_indistinguishable'] += 1
      continue
    c['encode_inverse_checked'] += 1
    want = G.tree(cs.space, m)
    got = dna_shape(e)
    if got != want:
      nums, mech = None, 'shape'
      try:
        nums = list(e.to_numbers())
        pos = 0
        while pos < min(len(nums), len(m)) and nums[pos] == m[pos]:
          pos += 1
        for pt in G.walk(cs.space, m):
          if pt.pos == pos:
            mech = pt.kind.split('[')[0] + (
                '/conditional' if any(t[0] == 'c' for t in pt.path) else '')
      except Exception:  # pylint: disable=broad-except
        pass
      if cs.feature() == 'where-in-candidate':
        mech = 'where-in-candidate'
      else:
        mech = 'differs:' + mech
      ctx.violation('encode-not-inverse', 'encode:' + mech,
                    f'encode(decode({dna!r})) = {e!r} (decisions {nums!r}, expected '
                    f'{list(m)!r}); value {pg.format(d1, compact=True)[:500]}', cs.record)
    elif not (e == dna):
      ctx.violation('encode-not-inverse', 'encode:DNA.__eq__',
                    f'{e!r} has the shape of {dna!r} but is not == to it', cs.record)
  # -- encode of an EQUAL value whose dicts list their keys in another order
  if e_value is not None and cs.dist and not check_key_order(
      ctx, cs, dna, v_value, e_value, c1, plain=(j % 2 == 0)):
    return False
  # -- pg.materialize with the DNA and with a parameter dict
  if j >= 2:
    return True
  c['materialize_checks'] += 1
  v_in = cs.v
  try:
    mv = pg.materialize(v_in, cs.dna(m), where=cs.where)
    cm = TT.canon_value(mv)
    if cm != exp and same:
      ctx.violation('decode-differs', 'materialize',
                    f'materialize(.., {dna!r}) = {pg.format(mv, compact=True)[:600]}; '
                    f'reference {TT.show(exp_desc)[:600]}', cs.record)
  except Exception as ex:  # pylint: disable=broad-except
    if not is_lib_error(ex) and not isinstance(ex, (ValueError, TypeError, KeyError)):
      raise
    ctx.violation('decode-raised', 'materialize', tb(ex), cs.record)
  if not check_snapshot(ctx, cs, 'materialize'):
    return False
  pts = G.walk(cs.space, m)
  if (j == 0 and not cs.key_class and all(p.id for p in pts)
      and len({p.id for p in pts}) == len(pts)):
    c['materialize_dict_checks'] += 1
    params = {p.id: p.value for p in pts}
    try:
      mv = pg.materialize(cs.v, dict(params), use_literal_values=False, where=cs.where)
      cm = TT.canon_value(mv)
      if cm != exp and same:
        ctx.violation('decode-differs', 'materialize-dict',
                      f'materialize(.., {params!r}) = {pg.format(mv, compact=True)[:600]}; '
                      f'reference {TT.show(exp_desc)[:600]}', cs.record)
    except Exception as ex:  # pylint: disable=broad-except
      if not is_lib_error(ex) and not isinstance(ex, (ValueError, TypeError, KeyError)):
        raise
      ctx.violation('decode-raised', 'materialize-dict',
                    f'parameters {params!r}\n{tb(ex)}', cs.record)
    if not check_snapshot(ctx, cs, 'materialize-dict'):
      return False
  return True


# --------------------------------------------------------------------------
# Per-template monitors.
# --------------------------------------------------------------------------

def check_iter(ctx, cs, members):
  """pg.iter yields space_size pairwise different values: the reference set."""
  c = ctx.counters
  if cs.size is None:
    c['iter_skipped_infinite'] += 1       # Sweeping is defined for finite spaces
    return True
  full = members is not None and len(members) <= ctx.params['iter_max']
  limit = None if full else 4
  vals = []
  try:
    for x in pg.iter(cs.v, limit, where=cs.where):
      vals.append(x)
      if len(vals) > (len(members) + 2 if full else 10):
        break
  except Exception as e:  # pylint: disable=broad-except
    if not is_lib_error(e) and not isinstance(e, (ValueError, TypeError, KeyError, AttributeError)):
      raise
    ctx.violation('decode-raised', 'pg.iter', tb(e), cs.record)
    return check_snapshot(ctx, cs, 'pg.iter')
  if not check_snapshot(ctx, cs, 'pg.iter'):
    return False
  c['iter_values'] += len(vals)
  if not full:
    c['iter_prefix'] += 1
    want = 4 if cs.size is None else min(4, cs.size)
    if len(vals) != want:
      ctx.violation('iter-count', 'pg.iter',
                    f'pg.iter(v, 4) yielded {len(vals)} values, space size {cs.size}',
                    cs.record)
    return
  c['iter_full'] += 1
  try:
    size = cs.t.dna_spec().space_size
  except Exception:  # pylint: disable=broad-except
    size = None
  if len(vals) != len(members) or size != len(vals):
    ctx.violation('iter-count', 'pg.iter',
                  f'pg.iter yielded {len(vals)} values, space_size {size}, reference '
                  f'{len(members)}', cs.record)
    return
  got = [TT.canon_value(x) for x in vals]
  ref = [TT.canon_desc(TT.ref_decode(cs.T, cs.W, m)) for m in members]
  if sorted(map(repr, got)) != sorted(map(repr, ref)):
    ctx.violation('iter-set', 'pg.iter',
                  f'iterated values differ from the reference decodes of all members; '
                  f'first iterated {pg.format(vals[0], compact=True)[:400]}', cs.record)
    return
  if cs.dist:
    c['iter_distinct_checked'] += 1
    keys = [repr(TT.eq_key(x)) for x in got]
    dup = len(keys) - len(set(keys))
    neq = all(pg.ne(a, b) for a, b in zip(vals, vals[1:]))
    if dup or not neq:
      ctx.violation('iter-duplicate', 'pg.iter',
                    f'{dup} of {len(vals)} iterated values are equal to another one',
                    cs.record)
  else:
    c['iter_distinct_not_judged'] += 1


def check_random(ctx, cs):
  """Values of random sampling are reference decodes of the DNA proposed."""
  c = ctx.counters
  seed = ctx.rng.randrange(1000)
  try:
    pairs = list(pg.iter(cs.v, 2, pg.geno.Random(seed), where=cs.where,
                         force_feedback=True))
    plain = list(pg.random_sample(cs.v, 2, where=cs.where, seed=seed))
  except Exception as e:  # pylint: disable=broad-except
    if not is_lib_error(e) and not isinstance(e, (ValueError, TypeError, KeyError, AttributeError)):
      raise
    ctx.violation('decode-raised', 'pg.random_sample', tb(e), cs.record)
    return check_snapshot(ctx, cs, 'pg.random_sample')
  if not check_snapshot(ctx, cs, 'pg.random_sample'):
    return False
  for (x, fb), y in zip(pairs, plain):
    c['random_sample_checks'] += 1
    nums = tuple(fb.dna.to_numbers())
    cx = TT.canon_value(x)
    if not G.is_member(cs.space, nums):
      c['random_dna_nonmember'] += 1          # C11's business
      continue
    try:
      exp = TT.canon_desc(TT.ref_decode(cs.T, cs.W, nums))
    except TT.DecodeError:
      c['random_genome_outside_pool'] += 1    # evolvable: genome not ours
      continue
    if cx != exp:
      ctx.violation('decode-differs', 'pg.random_sample',
                    f'sampled with {fb.dna!r}: {pg.format(x, compact=True)[:600]}',
                    cs.record)
    if TT.canon_value(y) != cx:
      c['random_sample_seed_not_reproduced'] += 1     # not part of this property


def check_dynamic(ctx, cs, members):
  """The same description evaluated under DynamicEvaluationContext."""
  c = ctx.counters
  T = cs.T
  fn = lambda: TT.build(T, dynamic=True)
  try:
    dctx = pg.hyper.DynamicEvaluationContext()
    with dctx.collect():
      fn()
    size = dctx.dna_spec.space_size
    before = pg.format(dctx.hyper_dict, compact=True)
  except Exception as e:  # pylint: disable=broad-except
    if not is_lib_error(e) and not isinstance(e, (ValueError, TypeError, KeyError, AssertionError, NotImplementedError)):
      raise
    ctx.violation('decode-raised', 'dynamic-collect', tb(e), cs.record)
    return
  if size != (-1 if cs.size is None else cs.size):
    ctx.violation('spec-size', 'dynamic-collect',
                  f'space_size {size}, reference {cs.size}', cs.record)
    return
  for j, m in enumerate(members[:3]):
    c['dynamic_checks'] += 1
    decisions = list(m) if j % 2 == 0 else cs.dna(m)
    try:
      with dctx.apply(decisions):
        x = fn()
    except Exception as e:  # pylint: disable=broad-except
      if not is_lib_error(e) and not isinstance(e, (ValueError, TypeError, KeyError, AssertionError)):
        raise
      ctx.violation('decode-raised', 'dynamic-apply',
                    f'decisions {list(m)!r}\n{tb(e)}', cs.record)
      continue
    cx = TT.canon_value(x)
    exp = TT.canon_desc(TT.ref_decode(T, TT.ALL, m))
    if cx != exp:
      ctx.violation('decode-differs', 'dynamic-apply',
                    f'apply({list(m)!r}) evaluates to {pg.format(x, compact=True)[:600]}; '
                    f'reference {TT.show(TT.ref_decode(T, TT.ALL, m))[:600]}', cs.record)
    if pg.format(dctx.hyper_dict, compact=True) != before:
      ctx.violation('template-changed', 'dynamic-apply',
                    'the collected hyper_dict changed', cs.record)
      break


# --------------------------------------------------------------------------
# Non-member DNAs.
# --------------------------------------------------------------------------

def nodes_of(node, out=None):
  out = [] if out is None else out
  out.append(node)
  for ch in node.children:
    nodes_of(ch, out)
  return out


def corruptions(rng, space, m):
  """[(name, kind of point, corrupted tree)]: one-step corruptions of m."""
  pts = G.walk(space, m)
  base = G.tree(space, m)
  owner = {}
  for idx, n in enumerate(nodes_of(base)):
    if n.point is not None:
      owner[n.point] = idx
  out = []

  def fresh():
    t = G.copy_tree(base)
    return t, nodes_of(t)

  for pi, pt in enumerate(pts):
    if pi not in owner:
      continue
    if pt.elem['t'] == 'choice':
      t, ns = fresh()
      ns[owner[pi]].value = pt.n
      out.append(('index-too-large', pt.kind, t))
    elif pt.elem['t'] == 'float':
      for name, val in (('float-low', pt.elem['lo'] - 0.5), ('float-high', pt.elem['hi'] + 0.5)):
        t, ns = fresh()
        ns[owner[pi]].value = val
        out.append((name, 'float', t))
  groups = {}
  for pi, pt in enumerate(pts):
    if pt.sub is not None and pi in owner:
      groups.setdefault((id(pt.elem), pt.path[:-1]), []).append(pi)
  for grp in groups.values():
    e = pts[grp[0]].elem
    knd = pts[grp[0]].kind
    for a, b in zip(grp, grp[1:]):
      if pts[a].value == pts[b].value:
        continue
      if e['sorted']:
        t, ns = fresh()
        na, nb = ns[owner[a]], ns[owner[b]]
        na.value, nb.value = nb.value, na.value
        na.children, nb.children = nb.children, na.children
        out.append(('unsorted-picks', knd, t))
      if e['distinct']:
        t, ns = fresh()
        na, nb = ns[owner[a]], ns[owner[b]]
        nb.value, nb.children = na.value, [G.copy_tree(x) for x in na.children]
        out.append(('repeated-pick', knd, t))
  rng.shuffle(out)
  return out


def check_nonmembers(ctx, cs, members):
  c = ctx.counters
  rng = ctx.rng
  seen = set()
  for m in members[:ctx.params['corrupt']]:
    for name, knd, tree in corruptions(rng, cs.space, m):
      if (name, knd) in seen:
        continue
      form = G.nested(tree)
      try:
        bad = pg.DNA(form)
      except Exception:  # pylint: disable=broad-except
        continue
      if G.tree_is_member(cs.space, dna_shape(bad)):
        continue
      seen.add((name, knd))
      c['nonmember_checks'] += 1
      c['nonmember:' + name] += 1
      try:
        x = cs.t.decode(bad)
      except Exception:  # pylint: disable=broad-except
        if not check_snapshot(ctx, cs, 'decode-nonmember'):
          return False
        continue
      ctx.violation('nonmember-decoded', f'{name}:{knd.split("[")[0]}',
                    f'decode({bad!r}) returned {pg.format(x, compact=True)[:400]} although '
                    f'the DNA is not valid for the template ({name}; member '
                    f'{G.nested(G.tree(cs.space, m))!r})', cs.record)
      if not check_snapshot(ctx, cs, 'decode-nonmember'):
        return False
  return True


# --------------------------------------------------------------------------
# encode / try_encode of values that are NOT of the template's shape.
# --------------------------------------------------------------------------

class RebuildRefused(Exception):
  pass


def value_sites(v, path=(), out=None):
  """{'dict': [path], 'list': [path], 'leaf': [path]} of a decoded value
  (placeholders the filter left are not entered)."""
  out = {'dict': [], 'list': [], 'leaf': []} if out is None else out
  if isinstance(v, pg.hyper.HyperPrimitive):
    return out
  if isinstance(v, pg.Object):
    for k, x in v.sym_items():
      value_sites(x, path + (('k', k),), out)
  elif isinstance(v, dict):
    out['dict'].append(path)
    for k, x in (v.sym_items() if isinstance(v, pg.Dict) else v.items()):
      value_sites(x, path + (('k', k),), out)
  elif isinstance(v, list):
    out['list'].append(path)
    for i, x in enumerate([x for _, x in v.sym_items()] if isinstance(v, pg.List) else v):
      value_sites(x, path + (('i', i),), out)
  else:
    out['leaf'].append(path)
  return out


def rebuild_with(v, site, fn, path=()):
  """A copy of `v` from built-in dicts / lists (objects constructed again) in
  which the node at `site` is replaced by fn(its copy)."""
  if isinstance(v, pg.hyper.HyperPrimitive):
    r = v.clone(deep=True)
  elif isinstance(v, pg.Object):
    fields = {k: rebuild_with(x, site, fn, path + (('k', k),))
              for k, x in v.sym_items()}
    try:
      r = type(v)(**fields)
    except Exception as e:  # pylint: disable=broad-except
      raise RebuildRefused() from e          # the class refuses the wrong value
  elif isinstance(v, dict):
    r = {k: rebuild_with(x, site, fn, path + (('k', k),))
         for k, x in (v.sym_items() if isinstance(v, pg.Dict) else v.items())}
  elif isinstance(v, list):
    r = [rebuild_with(x, site, fn, path + (('i', i),)) for i, x in enumerate(
        [x for _, x in v.sym_items()] if isinstance(v, pg.List) else v)]
  else:
    r = v
  return fn(r) if path == site else r


def wrong_shapes(value, rng):
  """[(kind, value of another shape)]: one-step corruptions of a decoded value
  (kind is known by construction)."""
  sites = value_sites(value)
  plans = []
  for site in sites['list']:
    plans += [
        ('dict-for-list', site, lambda L: dict(enumerate(L))),
        ('dict-for-list', site, lambda L, n=rng.randrange(3): {len(L) + n: 2}),
        ('dict-for-list', site, lambda L: {0: L[0] if L else 2}),
        ('dict-for-list', site, lambda L: {}),
        ('list-length', site, lambda L: L + [L[-1] if L else 0]),
        ('list-length', site, lambda L: L[:-1] if L else [0]),
        ('wrong-type', site, lambda L, x=rng.choice([3, 'w', None]): x),
    ]
  for site in sites['dict']:
    plans += [
        ('extra-key', site, lambda D: dict(D, zz__=1)),
        ('missing-key', site, lambda D, r=rng.random(): {
            k: x for i, (k, x) in enumerate(D.items()) if i != int(r * len(D))}
         if D else {'zz__': 1}),
        ('wrong-type', site, lambda D, x=rng.choice([3, 'w', None, []]): x),
    ]
  for site in sites['leaf']:
    plans += [
        ('wrong-leaf', site, lambda x, y=rng.choice([{'q': 1}, [1], 'nope__']): y),
    ]
  return plans


def check_encode_wrong_shapes(ctx, cs, members):
  """Whatever encode / try_encode make of a value that is not of the
  template's shape, they leave the template as it was."""
  c = ctx.counters
  rng = ctx.rng
  n = int(ctx.params.get('wrong_shapes', 3))
  if not n or not members:
    return True
  m = members[0]
  ok, d = decode(ctx, cs, cs.dna(m), m)
  if not ok:
    return True
  plans = wrong_shapes(d, rng)
  # every kind of corruption gets its turn
  rng.shuffle(plans)
  plans.sort(key=lambda pl: c['wrong_shape:' + pl[0]])
  done = 0
  for kind, site, fn in plans:
    if done >= n:
      break
    try:
      bad = rebuild_with(d, site, fn)
      if isinstance(bad, dict) and rng.random() < 0.4:
        bad = pg.Dict(bad)
      elif isinstance(bad, list) and rng.random() < 0.4:
        bad = pg.List(bad)
    except RebuildRefused:
      c['wrong_shape_rebuild_refused'] += 1
      continue
    done += 1
    op = rng.choice(['encode', 'try_encode'])
    c['wrong_shape_encode_checks'] += 1
    c['wrong_shape:' + kind] += 1
    try:
      r = cs.t.encode(bad) if op == 'encode' else cs.t.try_encode(bad)
      c['wrong_shape_outcome:returned'] += 1
    except Exception as e:  # pylint: disable=broad-except
      r = f'raised {type(e).__name__}'
      c['wrong_shape_outcome:raised'] += 1
    now = snap(cs.v)
    if now != cs.before:
      ctx.violation('template-modified', 'encode:' + kind,
                    f'{op} of the wrong-shaped value {bad!r:.400} ({kind} at '
                    f'{"/".join(str(t[1]) for t in site)!r} of decode({cs.dna(m)!r})) '
                    f'gave {r!r:.200} and changed the template:\n'
                    f'before: {cs.before[1][:500]}\nafter:  {now[1][:500]}', cs.record)
      cs.make()
      return False
  return True


# --------------------------------------------------------------------------
# Histories: decode / random_dna(previous_dna) / next_dna / encode / re-decode.
# --------------------------------------------------------------------------

class Entry:
  """One valid DNA of a history and everything decode handed out for it."""

  def __init__(self, m, dna):
    self.m, self.dna = m, dna
    self.first = None          # canonical form of the first decode
    self.held = []             # [(value, canonical form when handed out)]


def check_history(ctx, cs, members, steps):
  """Returns False when the template had to be rebuilt."""
  c = ctx.counters
  rng = ctx.rng
  if not steps or not members:
    return True
  try:
    spec = cs.t.dna_spec()
  except Exception:  # pylint: disable=broad-except
    return True
  known = {}
  for m in members[:3]:
    known[m] = Entry(m, cs.dna(m))
  last = None
  edited = []                  # [(entry, value the client edited)]
  judge_encode = cs.dist and cs.feature() not in ('where-in-candidate',)

  def redecode(entry, op):
    """decode(entry.dna); compares with its first result."""
    ok, v = decode(ctx, cs, entry.dna, entry.m)
    if not ok:
      return None
    cv = TT.canon_value(v)
    if entry.first is None:
      entry.first = cv
      try:
        exp = TT.canon_desc(TT.ref_decode(cs.T, cs.W, entry.m))
      except TT.DecodeError:
        c['history_genome_not_understood'] += 1
        exp = cv
      c['reference_compared'] += 1
      if cv != exp:
        ctx.violation('decode-differs', 'decode:' + cs.region(cv, exp),
                      f'history: decode({entry.dna!r}) = '
                      f'{pg.format(v, compact=True)[:700]}', cs.record)
    else:
      c['history_redecode_checks'] += 1
      if cv != entry.first:
        ctx.violation('decode-twice-differs', 'history:after-' + op,
                      f'decode({entry.dna!r}) after {op} differs from its first '
                      f'result (below: {cs.region(cv, entry.first)}): '
                      f'{pg.format(v, compact=True)[:600]}', cs.record)
        return None
    entry.held = entry.held[-2:] + [(v, cv)]
    return entry

  def audit(op, involved):
    """Everything handed out earlier is unchanged; the DNA involved in the
    call still decodes to its first value; the template is unchanged."""
    if not check_snapshot(ctx, cs, 'history:' + op):
      return False
    good = True
    for e in known.values():
      for v, cv in e.held:
        c['history_held_checks'] += 1
        now = TT.canon_value(v)
        if now != cv:
          ctx.violation('decoded-value-changed', 'history:' + op,
                        f'the value handed out by decode({e.dna!r}) changed during '
                        f'{op} (below: {cs.region(now, cv)}): now '
                        f'{pg.format(v, compact=True)[:600]}', cs.record)
          good = False
    if good and involved is not None and involved.first is not None:
      good = redecode(involved, op) is not None
    if not good:
      cs.make()
    return good

  for _ in range(steps):
    r = rng.random()
    if last is None or r < 0.3:
      op = 'decode'
    elif r < 0.5:
      op = 'edit'
    elif r < 0.78:
      op = 'random_dna'
    elif r < 0.87:
      op = 'next_dna'
    else:
      op = 'encode'
    c['history_ops'] += 1
    c['history:' + op] += 1
    if op == 'edit':
      # The client edits, in place, a value that decode handed out earlier
      # (mostly the latest one); its DNA is then decoded again by audit().
      pool = [e for e in known.values() if e.held]
      if not pool:
        c['history_edit_nothing_held'] += 1
        continue
      if last.held and rng.random() < 0.7:
        entry, idx = last, len(last.held) - 1
      else:
        entry = rng.choice(pool)
        idx = rng.randrange(len(entry.held))
      v, _ = entry.held.pop(idx)
      n0 = c['mutations_applied']
      mutate_all(v, c, rng, some=rng.random() < 0.5)
      c['history_edits' if c['mutations_applied'] > n0
        else 'history_edit_nothing_mutable'] += 1
      edited.append((entry, v))
      if not audit('edit', entry):
        return False
      if check_identity(
          ctx, cs, [x for e in known.values() for x, _ in e.held] + [
              x for _, x in edited[-2:]], 'values handed out in a history'):
        cs.make()
        return False
      continue
    if op == 'decode':
      fresh = [e for e in known.values() if e.first is None]
      entry = rng.choice(fresh) if fresh and rng.random() < 0.6 else rng.choice(
          list(known.values()))
      if redecode(entry, 'decode') is None:
        cs.make()
        return False
      last = entry
      if not audit('decode', None):
        return False
      continue
    if op == 'encode':
      entry = last
      v, cv = entry.held[-1] if entry.held else (None, None)
      if not judge_encode or cv is None or cv != entry.first:
        c['history_encode_not_judged'] += 1
        continue
      try:
        e = cs.t.encode(v)
      except Exception as ex:  # pylint: disable=broad-except
        if not is_lib_error(ex) and not isinstance(ex, (ValueError, TypeError, KeyError, NotImplementedError)):
          raise
        ctx.violation('encode-not-inverse', 'history:encode-raised',
                      f'encode(decode({entry.dna!r})) raised:\n{tb(ex)}', cs.record)
        cs.make()
        return False
      c['encode_checks'] += 1
      if dna_shape(e) != G.tree(cs.space, entry.m):
        ctx.violation('encode-not-inverse', 'history:encode-differs',
                      f'encode(decode({entry.dna!r})) = {e!r}', cs.record)
        cs.make()
        return False
      if not audit('encode', entry):
        return False
      continue
    src = last if rng.random() < 0.6 else rng.choice(list(known.values()))
    try:
      if op == 'next_dna':
        child = spec.next_dna(src.dna)
      else:
        how = rng.randrange(3)
        if how == 0:
          child = pg.random_dna(spec, rng, previous_dna=src.dna)
        elif how == 1:
          child = spec.random_dna(rng, previous_dna=src.dna)
        else:
          child = cs.t.dna_spec().random_dna(rng, previous_dna=src.dna)
    except Exception as ex:  # pylint: disable=broad-except
      if not is_lib_error(ex) and not isinstance(ex, (ValueError, TypeError, KeyError, NotImplementedError)):
        raise
      c['history_%s_raised' % op] += 1         # not this property's business
      child = None
    if child is not None:
      try:
        nums = tuple(child.to_numbers())
      except Exception:  # pylint: disable=broad-except
        nums = None
      if nums is None or not G.is_member(cs.space, nums):
        c['history_child_nonmember'] += 1        # C11's business
      elif nums not in known and len(known) < 8:
        known[nums] = Entry(nums, child)
        c['history_children'] += 1
    if not audit(op, src):
      return False
  return history_vs_fresh(ctx, cs, known, edited)


def history_vs_fresh(ctx, cs, known, edited):
  """After the history: the DNAs of the history (those whose results the
  client edited first) decode on the used template to what a FRESH, equal
  template decodes them to."""
  c = ctx.counters
  todo = list(dict.fromkeys([id(e) for e, _ in edited] + [
      id(e) for e in known.values() if e.first is not None]))[:2]
  entries = [e for e in known.values() if id(e) in todo]
  if not entries:
    return True
  try:
    v = TT.build(cs.T, plain_root=cs.plain)
    t = (pg.template(v, cs.where) if cs.entry == 'pg.template'
         else pg.hyper.ObjectTemplate(v, where=cs.where))
  except Exception as e:  # pylint: disable=broad-except
    if not is_lib_error(e):
      raise
    return True                                   # build is judged elsewhere
  for e in entries:
    dna = cs.dna(e.m)
    ok, used = decode(ctx, cs, dna, e.m)
    if not ok:
      cs.make()
      return False
    try:
      fresh = t.decode(cs.dna(e.m))
    except Exception as ex:  # pylint: disable=broad-except
      if not is_lib_error(ex) and not isinstance(ex, (ValueError, TypeError, KeyError, AttributeError)):
        raise
      c['history_fresh_decode_raised'] += 1       # judged by decode() elsewhere
      continue
    c['history_fresh_template_checks'] += 1
    cu, cf = TT.canon_value(used), TT.canon_value(fresh)
    if cu != cf:
      ctx.violation('decode-twice-differs', 'history:vs-fresh-template',
                    f'after a history, decode({dna!r}) = '
                    f'{pg.format(used, compact=True)[:500]} on the used template, '
                    f'{pg.format(fresh, compact=True)[:500]} on a fresh equal template '
                    f'(below: {cs.region(cu, cf)})', cs.record)
      cs.make()
      return False
  return True


# --------------------------------------------------------------------------
# Case generation.
# --------------------------------------------------------------------------

def nodes(T):
  kids = T['cands'] if T['t'] == 'choice' else [c for _, c in TT.children(T)]
  return 1 + sum(nodes(c) for c in kids)


def random_case(ctx, rng):
  """(T, W, plain, bad_size, kind of case); templates are kept small because
  every library call deep-copies the whole value."""
  for _ in range(8):
    out = _random_case(rng)
    if nodes(out[0]) <= ctx.params['max_nodes']:
      break
  return out


def _random_case(rng):
  r = rng.random()
  plain = bad = False
  W = TT.ALL
  if r < 0.22:
    st = TT.State(rng, tags=rng.random() < 0.5)
    bad = rng.random() < 0.1
    T = TT.typed_template(st, bad_size=bad)
    kind = 'typed'
  elif r < 0.48:
    T = TT.bound_template(TT.State(rng, tags=rng.random() < 0.5))
    kind = 'bound'
  elif r < 0.60:
    T = TT.evolve_template(TT.State(rng, tags=rng.random() < 0.5))
    kind = 'evolve'
  else:
    fl = rng.choice([0.0, 0.15, 0.3, 0.3])
    sp = S.random_space(rng, max_depth=rng.choice([0, 1, 1, 2]), max_elems=2,
                        max_k=3, max_n=3, floats=fl, customs=fl,
                        names=rng.choice([0.0, 0.0, 0.4]))
    T, _ = TT.from_space(sp, rng, tags=rng.random() < 0.5,
                         dup=rng.choice([0.0, 0.0, 0.3, 0.5]),
                         evolve=0.5)
    kind = 'rendered'
  if rng.random() < (0.2 if kind == 'bound' else 0.4):
    W = TT.random_where(rng, T)
  if not bad and kind != 'bound' and T['t'] in ('dict', 'list') and rng.random() < 0.12:
    plain = True
  return T, W, plain, bad, kind


KEY_CLASSES = {
    'empty': [''],
    'unbalanced-bracket': ['a[', 'x]', '[', 'k]['],
    'path-syntax': ['a.b', 'k[0]', '[0]', '.', 'a.', '[=0/2]', 'c.d.e'],
    'unusual-char': [' ', '$', '0', '\u00e4', 'a b', "a'b", 'a=b', '-1'],
}


def rename_keys(T, rng, key_class):
  """A copy of T in which one or two keys of dicts without a value spec
  (mostly keys on the way to a placeholder) are spelled with keys of the
  class; None when T has no such dict."""
  T = json.loads(json.dumps(T))
  sites = []

  def walk(node):
    if node['t'] == 'dict' and not node.get('specs'):
      for n, (_, c) in enumerate(node['items']):
        sites.append((node, n, TT.has_placeholder(c)))
    if node['t'] == 'choice':
      for c in node['cands']:
        walk(c)
    elif node['t'] != 'custom':
      for _, c in TT.children(node):
        walk(c)
  walk(T)
  hot = [x for x in sites if x[2]]
  done = 0
  for _ in range(rng.randint(1, 2)):
    pool = hot if hot and rng.random() < 0.8 else sites
    if not pool:
      break
    node, n, _ = rng.choice(pool)
    used = [k for k, _ in node['items']]
    free = [k for k in KEY_CLASSES[key_class] if k not in used]
    if free:
      node['items'][n][0] = rng.choice(free)
      done += 1
  return T if done else None


def reference_case(ctx, rng):
  """A template with value references (kept small, see random_case)."""
  for _ in range(8):
    T = TT.ref_template(TT.State(rng, tags=rng.random() < 0.5))
    if nodes(T) <= ctx.params['max_nodes']:
      break
  return T


FALSY_FORMS = {('leaf', 'NoneType', 'None'), ('leaf', 'int', '0'),
               ('leaf', 'bool', 'False'), ('leaf', 'float', '0.0'),
               ('leaf', 'float', '-0.0'), ('leaf', 'str', "''"), ('list', ()),
               ('dict', ())}


def run_case(ctx, i):
  rng = ctx.rng
  c = ctx.counters
  part = my_part(ctx)
  plain = bad = False
  grid = my_grid(ctx)
  plan = key_class = loc_T = None
  j = i - len(part) - len(grid)
  n_rand, n_refs = int(ctx.params['random']), int(ctx.params.get('refs', 0))
  if i < len(part):
    c['family_cases'] += 1
    T, _ = TT.from_space(part[i], rng, tags=True)
    W = TT.random_where(rng, T) if rng.random() < 0.25 else TT.ALL
    kind = 'family'
    plain = T['t'] in ('dict', 'list') and rng.random() < 0.08
  elif i < len(part) + len(grid):
    c['grid_cases'] += 1
    T, W, kind = grid[i - len(part)], TT.ALL, 'grid'
  elif j < n_rand:
    c['random_cases'] += 1
    T, W, plain, bad, kind = random_case(ctx, rng)
  elif j < n_rand + n_refs:
    c['reference_cases'] += 1
    T, W, kind = reference_case(ctx, rng), TT.ALL, 'refs'
    if rng.random() < 0.25:
      W = TT.random_where(rng, T)
      if not TT.refs_ok(T, W):
        W = TT.ALL
  elif j < n_rand + n_refs + int(ctx.params.get('reuse', 0)):
    c['reuse_cases'] += 1
    plan = reuse_plan(rng)
    T, W, kind = plan[0], TT.ALL, 'reuse'
  else:
    # dict keys that are not identifiers: '' / brackets / path syntax / others
    c['key_cases'] += 1
    key_class = rng.choice(sorted(KEY_CLASSES))
    for _ in range(8):
      loc_T, W, plain, _, kind = random_case(ctx, rng)
      T = rename_keys(loc_T, rng, key_class) if kind in ('rendered', 'evolve') else None
      if T is not None:
        break
    else:
      return
    kind = 'keys'
  entry = rng.choice(['pg.template', 'pg.template', 'ObjectTemplate'])
  if kind == 'refs':
    entry = 'pg.template'        # ObjectTemplate alone leaves derived values in place
  flags = None
  if (not plain and not bad and kind not in ('grid', 'reuse')
      and rng.random() < ctx.params.get('flagged', 0.15) and not TT.misfits(T)):
    flags = random_flags(T, rng)
  try:
    cs = (ReuseCase(plan, entry) if plan
          else Case(T, W, plain, bad, entry, flags, key_class, loc_T))
  except Exception as e:  # pylint: disable=broad-except
    if not is_lib_error(e):
      raise
    if plan and isinstance(e, REFUSAL):
      # The container refuses the placeholder object: no template. (Whether a
      # placeholder that was offered elsewhere before must still be accepted is
      # left open: a field may refuse one that is bound to another spec.)
      c['binding_refusal_checks'] += 1
      c['reuse_final_refused'] += 1
      fits = not TT.misfits(T)
      c['reuse_final_refused:' + ('fits' if fits else 'misfit')] += 1
      if fits and 'accepted' not in LAST_TRACE[0]:
        # ... but every earlier offer was refused: the placeholder is bound to
        # no spec, its range fits the field (cf. build-raised for fresh ones)
        ctx.violation('build-raised', 'reused-placeholder',
                      f'offered before: {plan[4]!r} -> {LAST_TRACE[0]!r}; then refused by '
                      f'{plan[3][0]} although its range fits:\n{tb(e)}',
                      {'template': TT.show(T), 'final_site': plan[3][0]})
      return
    if (bad or TT.misfits(T)) and isinstance(e, (ValueError, TypeError)):
      # A placeholder whose range is not inside the value spec of its field
      # (a manyof whose number of choices the List spec can never hold, a
      # floatv / candidate beyond a numeric bound) may be refused when it is
      # bound: then there is no template to decode.
      c['binding_refusal_checks'] += 1
      c['bad_size_refused_at_binding' if bad else 'misfit_refused_at_binding'] += 1
      return
    ctx.violation('build-raised', flags[0] + '-template' if flags else kind, tb(e),
                  {'template': TT.show(T), 'where': TT.show_where(W),
                   'flags': repr(flags)})
    if not flags:
      return
    # heal: go on with the unflagged template
    c['flagged_template_refused'] += 1
    flags = None
    try:
      cs = Case(T, W, plain, bad, entry, None)
    except Exception:  # pylint: disable=broad-except
      return
  c['kind:' + kind] += 1
  if plan:
    c['reuse_templates'] += 1
    c['reuse_final:' + plan[3][0]] += 1
    for (site, _, _), out in zip(cs.priors, cs.trace):
      c['reuse_offers'] += 1
      c['reuse_offer_' + out] += 1
      c['reuse_offer:' + site] += 1
    if cs.misfit:
      c['reuse_misfit_templates'] += 1
  if key_class:
    c['key_templates'] += 1
    c['key_class:' + key_class] += 1
  if cs.has_ref:
    c['reference_templates'] += 1
    c['reference_sites'] += len(TT.ref_sites(T, W))
  if flags:
    c['flagged_templates'] += 1
    c['flagged:' + flags[0]] += 1
  if cs.bound_spec:
    c['bound_spec_templates'] += 1
  if any(p.get('transform') == 'step' and TT.keep(W, p) for p in TT.all_placeholders(T)):
    c['evolve_step_templates'] += 1
  c['entry:' + entry] += 1
  if W['by'] != 'all':
    c['where_templates'] += 1
    if TT.where_in_candidate(T, W):
      c['where_in_candidate_templates'] += 1
  if has_typed(T):
    c['typed_templates'] += 1
  if plain:
    c['plain_root_templates'] += 1
  c['distinguishable' if cs.dist else 'indistinguishable'] += 1
  for _, p in cs.tops:
    c['top:' + TT.key_kind(p)] += 1
  if not check_spec(ctx, cs) or not check_snapshot(ctx, cs, 'dna_spec'):
    return
  # -- DNAs: every member of a small space, else reference-sampled members
  nd = ctx.params['dnas']
  all_members = None
  if cs.size is not None and cs.size <= max(nd, ctx.params['iter_max']):
    all_members = list(G.enumerate_flat(cs.space))
  if all_members is not None and len(all_members) <= nd:
    members = list(all_members)
    c['exhaustive_dna_sets'] += 1
  else:
    members, seen = [], set()
    for _ in range(nd * 3):
      m = TT.random_member(T, W, rng)
      if m not in seen:
        seen.add(m)
        members.append(m)
      if len(members) >= nd:
        break
    c['sampled_dna_sets'] += 1
  if cs.bound_spec:
    # boundary DNAs: every float decision on an end of its range; when the
    # reference says a range does not fit its field but binding accepted it,
    # a member that decodes to a value outside the spec comes first
    extra = [TT.extreme_member(T, W, rng, end) for end in ('lo', 'hi')]
    if cs.misfit:
      c['binding_refusal_checks'] += 1
      c['misfit_accepted_at_binding'] += 1
      pool = extra + list(all_members or []) + members + [
          TT.random_member(T, W, rng) for _ in range(12)]
      wit = None
      for m in pool:
        d = TT.ref_decode(T, W, m)
        if TT.broken_bound_specs(d, TT.canon_desc(d)):
          wit = m
          break
      if wit is not None:
        extra.insert(0, wit)
      else:
        c['misfit_without_witness'] += 1
    members = list(dict.fromkeys(extra + members))[:nd + 2]
  for m in members:
    if not G.is_member(cs.space, m):
      raise AssertionError(f'harness: {m!r} is not a member of {S.show(cs.space)}')
  alive = True
  for j, m in enumerate(members):
    c['dnas'] += 1
    if not check_dna(ctx, cs, m, j):
      alive = False
      break
  alive = (alive and check_history(
      ctx, cs, members,
      ctx.params['family_history' if kind in ('family', 'grid') else 'history']))
  alive = (alive and check_iter(ctx, cs, all_members) is not False
           and check_random(ctx, cs) is not False
           and check_nonmembers(ctx, cs, members)
           and check_encode_wrong_shapes(ctx, cs, members))
  if alive and W['by'] == 'all' and not bad and not cs.misfit and not cs.has_ref and not any(
      p['name'] for p in TT.all_placeholders(T)):
    check_dynamic(ctx, cs, members)         # names share decisions there: not generated
  n_members = cs.size if cs.size is not None else 2
  if n_members >= 2 and (W['by'] != 'all' or has_typed(T) or any(
      p['t'] == 'choice' and (p['k'] > 1 or is_conditional(p, W)) for _, p in cs.tops)):
    ctx.mark_nontrivial(TT.show(T) + ' / ' + TT.show_where(W))
  ctx.seen('sizes', cs.size)
  ctx.seen('spaces', S.show(cs.space))
  if i in (0, len(part) + len(grid), len(part) + len(grid) + 1):
    ctx.sample({'template': TT.show(T), 'where': TT.show_where(W), 'size': cs.size,
                'distinguishable': cs.dist,
                'first_dna': repr(cs.dna(members[0])) if members else None,
                'reference_decode': TT.show(TT.ref_decode(T, W, members[0])) if members else None})
