"""C14 — evolution operators are closed over valid DNA and never corrupt their
inputs.

Every application of a shipped mutator / recombinator / selector (alone or as
a node of a random operator expression built with the composition operators
of `pyglove/ext/evolution/base.py`) is observed by a probe:

  * every DNA that comes out is a member of the space (`genoref` membership,
    not the library's validate) with the canonical shape, and is aligned: each
    decision is answered by the decision point of its position, and its
    `to_dict` views equal those of a DNA rebuilt from its numbers;
  * selector outputs are, by identity, elements of the selector's input, in
    the documented number; composites only route objects (an output is an
    input or an output of an operand);
  * the inputs (decisions, binding, metadata, userdata, the list) are unchanged;
  * a fresh operator built from the same description (same seeds) gives the
    same outputs on the same inputs, whatever the state of the global RNG, and
    leaves the global RNG as it found it (every random parameter of every
    generated operator is seeded);
  * an operator that was brought to its parameters through the symbolic API
    (rebind, assignment, clone with override, JSON round trip, after earlier
    calls) gives the same outputs as a fresh operator with these parameters;
  * where filter objects handed to operators (module constants, user-held
    objects) keep their state; sealed parents are parents; the lookups of an
    output (dna[name], dna[id], named_decisions) agree with its decisions.
"""
import importlib
import json
import math
import random as pyrandom
import traceback

import pyglove as pg
from pyglove.ext import evolution as evo
from pyglove.ext.evolution import base as B
from pyglove.ext.evolution import mutators as MU
from pyglove.ext.evolution import recombinators as RE
from pyglove.ext.evolution import selectors as SE
from pyglove.ext.evolution import where as WH
from pgverif.gen import spaces as S
from pgverif.monitors import genoref as G

# `pyglove.ext.evolution.nsga2` the attribute is the function; this is the module.
NS = importlib.import_module('pyglove.ext.evolution.nsga2')

TIERS = {
    'quick': dict(shards=8, cases=18, apps=14, kpoint_extra=3, conflict_extra=4,
                  max_pop=8, algos=0.2, histories=1, timeout_s=900,
                  case_timeout_s=600),
    'thorough': dict(shards=16, cases=160, apps=20, kpoint_extra=3, conflict_extra=5,
                     max_pop=12, algos=0.3, histories=2, timeout_s=5400,
                     case_timeout_s=900),
}
RULE = ('case = one random search space (gen/spaces.random_space with floats, '
        'custom points, names, literals, conditional multi-choices, plus '
        'injected permutation points, wide constrained multi-choices (3..7 of '
        'up to 8 candidates, distinct / sorted / both / permutation) and tight '
        'float ranges) with a population of 2..max_pop reference-sampled '
        'parents, part of them derived from another parent so that they conflict '
        'on the constrained multi-choices (rotations, reversals, shifted or '
        'extreme sorted windows), carrying fitness / proposal / '
        'generation metadata and userdata, and `apps` operator applications: '
        'half single operators (every mutator, recombinator and selector class '
        'with sampled where / weights / n / k / seed parameters, driven inside '
        'their documented preconditions), half random typed operator '
        'expressions of depth <= 4 over >> | & + - ^ * ** [] ~ with_prob '
        'if_true if_false Conditional Choice until_change for_each/flatten '
        'global-state and plain callables; where filters are library '
        'defaults, private objects, the module constants where.ANY / where.ALL '
        'or one user-held object given to every operator built from the '
        'description; where callbacks of mutators may read derived state of '
        'the DNA (named_decisions, lookups, to_dict); 6% of the applications '
        'get sealed parents; then `kpoint_extra` K-point '
        'crossovers of the two most different parents and (in place of as many '
        'of the `apps`) `conflict_extra` seeded point-wise recombinations of the parents that conflict most on '
        'a constrained multi-choice; sometimes a full nsga2 / '
        'regularized_evolution run; then `histories` operator histories: a '
        'seeded operator (every seeded mutator / recombinator / selector '
        'class, permutation recombinators preferred when the space has >= 2 '
        'permutation points; or selector >> generator, generator.with_prob) is '
        'constructed with some parameters, called, and brought to other '
        'parameters by 1..2 chains of rebind (one call or field by field) / '
        'attribute assignment / clone(deep or shallow, with override) / JSON '
        'round trip / construction of a second operator with its filter object, each chain followed by 2 calls that are compared with '
        'the same calls of a freshly constructed operator with the final '
        'parameters; 60% of the histories run on a dedicated small space with '
        '2..3 top-level permutation points and a single choice, a '
        'constrained multi-choice or a float, on which every random draw of every seeded '
        'family matters. Each application is run probed (every node '
        'wrapped, all monitors) and bare (as a user writes it) under different '
        'global RNG states; the state of the global RNG is compared before and '
        'after every node and every bare run. Non-trivial = the space has a multi-choice or a '
        'conditional sub-space and at least half of the applications produced '
        'a checked output; distinct by (space, operator sequence).')
REQUIRED_COUNTERS = ['hash_seed_operator_compares', 'history_checks', 'member_checks', 'aligned_checks', 'view_checks',
                     'selector_identity_checks', 'selector_count_checks',
                     'routing_checks', 'input_unchanged_checks',
                     'determinism_checks', 'global_rng_checks',
                     'crossover_semantics_checks']
ASSUMPTIONS = [
    'determinism across processes: once per run (shard 0) a fixed family of seeded recombinators is applied to two parents whose custom decision point holds strings, in three subprocesses with PYTHONHASHSEED=1,2,3; the printed children must be identical, order included (the in-process comparisons run under the pinned hash seed of ./check and cannot see hash-order effects)',
    'membership oracle = monitors/genoref.py (arity, range, distinct, sorted, conditional sub-space, float range, str genome, canonical tree shape)',
    'alignment: the decision point id of the i-th valued node equals the id of the i-th reference decision (reference ids are cross-checked against spec.decision_points per case), and to_dict views equal those of DNA.from_numbers(numbers, spec)',
    'parents are built by the library from reference-sampled members (from_numbers / DNA(nested, spec=)); their validity is the subject of C11/C12',
    'operators are driven only inside documented preconditions: exactly two parents for segment-wise and permutation recombinators, strictly positive weights, sorted in-range cutting points, fitness present where a selector reads it, a mutable node for mutators.Uniform, non-empty input for sampling selectors; an application that leaves them is counted as inapplicable, never as a violation',
    'an exception raised by library code inside the preconditions is reported (the operator did not map valid DNAs to valid DNAs)',
    'determinism: fresh operator objects from the same description, same inputs, differently seeded global random module',
    'every generated operator with a random parameter is given a seed (operators, where filters, Choice / with_prob), so the expression is a function of its description and inputs: anything it draws from the global random module is an input that is neither; the state of the module must be the same before and after a call (clause global-rng-consumed, mechanism = innermost node around which the state changed)',
    'conflicting parents are produced by a harness-side sampler and verified against the membership reference before use',
    'segment-wise crossovers are additionally compared with their documented cutting semantics (Segmented: exact children; KPoint: complementary children with exactly min(k, L-1) cuts)',
    'the exact set algebra of | & - ^ on duplicate-carrying operands is not judged (only routing by identity)',
    'a sealed DNA is a valid parent (sealing is the documented way to protect an object against modification; operators never modify their inputs)',
    'a where filter object passed to an operator is not changed by it as far as the user can see (pg.to_json of the object; that the operator adopts a parent-less object as its child is pyglove\'s documented ownership rule and is not judged)',
    'the lookups dna[name], dna[decision point id] and dna.named_decisions of an output equal those of the DNA rebuilt from its numbers',
    'histories: an operator whose seeds were all just assigned (rebind / assignment / clone override: the object then reports the new seeds), or that was just deserialised, is a function of these seeds and its inputs, i.e. equal to a fresh operator with the same parameters; whether any other transformation (a rebind of a non-seed parameter, a clone without override) keeps or resets the state of a random generator that has already been drawn from is not documented: such a step is only judged on an operator that was not called since its seeds were assigned (both readings coincide), otherwise the following calls are made but not compared',
]

FIT = B.DNA_METADATA_FITNESS


class Inapplicable(Exception):
  """The probed operator was handed an input outside its preconditions."""


class Abort(Exception):
  """A violation was recorded and the expression cannot continue."""


# --------------------------------------------------------------------------
# Named helper functions used as operator parameters (JSON-able by name).
# --------------------------------------------------------------------------

def _fit0(d):
  f = d.metadata[FIT]
  return float(f[0] if isinstance(f, tuple) else f)


def _reads_derived(d):
  """Accepts every node, after reading derived state of the DNA the node
  belongs to (as a callback that decides by name, or by the decisions made
  elsewhere in the DNA, does)."""
  root = d.root
  named = root.named_decisions
  for dp in root.spec.decision_points[:3]:
    root.get(dp)
  return named is not None and root.to_dict() is not None and (
      d.is_leaf or True)


def _by_name(d):
  """Named decisions only (every node if the DNA has no named decision)."""
  return (isinstance(d.spec, pg.geno.DecisionPoint) and d.spec.name is not None
          ) or not d.root.named_decisions


MUT_WHERE = {
    'derived': _reads_derived,
    'named': _by_name,
    'any': lambda d: True,
    'numerical': lambda d: d.spec.is_numerical,
    'categorical': lambda d: d.spec.is_categorical,
    'leaf': lambda d: d.is_leaf,
    'nonroot': lambda d: d.parent_dna is not None,
    'subchoice': lambda d: d.spec.is_categorical and d.spec.is_subchoice,
}
SWAP_WHERE = {
    'derived': _reads_derived,
    'any': lambda d: True,
    'root': lambda d: d.parent_dna is None,
    'unsorted': lambda d: d.spec.is_categorical and not d.spec.sorted,
    'none': lambda d: False,
}
REC_WHERE_FNS = {
    'first': lambda xs: xs[:1],
    'floats': lambda xs: [x for x in xs if x.is_numerical],
    'choices': lambda xs: [x for x in xs if x.is_categorical],
    'nothing': lambda xs: [],
    'everyother': lambda xs, step: xs[step % 2::2],
}
WEIGHTS = {
    'ones': lambda xs: [1.0] * len(xs),
    'ramp': lambda xs: [1.0 + i for i in range(len(xs))],
    'stepped': lambda xs, step: [1.0 + ((i + step) % 3) for i in range(len(xs))],
    'fit': lambda xs: [0.25 + abs(_fit0(x)) for x in xs],
    'onehot': lambda xs: [1.0 if i == 0 else 0.0 for i in range(len(xs))],
}
CUTS = {
    'mid': lambda xs: [len(xs) // 2],
    'all': lambda xs: list(range(1, len(xs))),
    'nocut': lambda xs: [],
    'first': lambda xs: [1] if len(xs) > 1 else [],
    'zero': lambda xs: [0],
    'thirds': lambda xs: sorted({len(xs) // 3, (2 * len(xs)) // 3}),
}
PREDS = {
    'len>3': lambda xs: len(xs) > 3,
    'nonempty': lambda xs: len(xs) > 0,
    'stepeven': lambda xs, step: step % 2 == 0,
    'true': lambda xs: True,
    'false': lambda xs: False,
}
KEYS = {
    'len': lambda d: len(d.to_numbers()),
    'pid': lambda d: d.metadata['proposal_id'],
}
FNS = {
    'head2': lambda xs: xs[:2],
    'tail': lambda xs: xs[1:],
    'rev': lambda xs: xs[::-1],
    'alternate': lambda xs, step: xs[step % 2::2],
    'same': lambda xs: list(xs),
    'dup': lambda xs: xs + xs[:1],
    'stateful': lambda xs, global_state, step: xs[:1 + (step % 3)],
}
PARTS = {
    'chunk2': lambda xs: [xs[i:i + 2] for i in range(0, len(xs) - 1, 2)],
    'chunk3': lambda xs: [xs[i:i + 3] for i in range(0, len(xs), 3)],
}
SCALARS = {
    'nstep': lambda step: step % 4,
    'kstep': lambda step: 1 + step % 2,
    'pstep': lambda step: 1.0 if step % 2 else 0.0,
    'idxstep': lambda step: slice(0, 1 + step % 3),
}


def scalar(v):
  return SCALARS[v] if isinstance(v, str) else v


def scalar_now(v, step):
  v = scalar(v)
  return v(step) if callable(v) else v


# --------------------------------------------------------------------------
# Operator tables.
# --------------------------------------------------------------------------

SELECTORS = ['selectors.Random', 'selectors.Sample', 'selectors.Proportional',
             'selectors.Top', 'selectors.Bottom', 'selectors.First',
             'selectors.Last']
MUTATORS = ['mutators.Uniform', 'mutators.Swap']
POINTWISE = ['recombinators.Uniform', 'recombinators.Sample',
             'recombinators.Average', 'recombinators.WeightedAverage']
SEGMENTWISE = ['recombinators.KPoint', 'recombinators.Segmented']
PERMUTATION = ['recombinators.PartiallyMapped', 'recombinators.Order',
               'recombinators.Cycle']
TWO_PARENTS = SEGMENTWISE + PERMUTATION
GENERATORS = MUTATORS + POINTWISE + TWO_PARENTS
ROUTERS = ['Identity', 'fn', 'nsga2.crowding_distance_sort', 'partition']

BIN_NAMES = {'>>': 'Pipeline', '+': 'Concatenation', '|': 'Union',
             '&': 'Intersection', '-': 'Difference', '^': 'SymmetricDifference'}
UN_NAMES = {'*': 'Repeat', '**': 'Power', '[]': 'Slice', '~': 'Inversion',
            'neg': 'Inversion', 'with_prob': 'Choice', 'if_true': 'Conditional',
            'if_false': 'Conditional', 'until_change': 'UntilChange'}
_CLASSES = {
    'mutators.Uniform': MU.Uniform, 'mutators.Swap': MU.Swap,
    'recombinators.Uniform': RE.Uniform, 'recombinators.Sample': RE.Sample,
    'recombinators.Average': RE.Average,
    'recombinators.WeightedAverage': RE.WeightedAverage,
    'recombinators.KPoint': RE.KPoint, 'recombinators.Segmented': RE.Segmented,
    'recombinators.PartiallyMapped': RE.PartiallyMapped,
    'recombinators.Order': RE.Order, 'recombinators.Cycle': RE.Cycle,
    'selectors.Random': SE.Random, 'selectors.Sample': SE.Sample,
    'selectors.Proportional': SE.Proportional, 'selectors.Top': SE.Top,
    'selectors.Bottom': SE.Bottom, 'selectors.First': SE.First,
    'selectors.Last': SE.Last,
}


def display_name(obj):
  """Stable display name of a library operation object (class facts only)."""
  cls = obj if isinstance(obj, type) else type(obj)
  mod = cls.__module__.rsplit('.', 1)[-1]
  if mod in ('mutators', 'recombinators', 'selectors', 'nsga2', 'where'):
    return f'{mod}.{cls.__name__}'
  return cls.__name__


def node_name(node):
  k = node['k']
  if k == 'leaf':
    if node['op'] == 'fn':
      return 'plain-callable'
    if node['op'] == 'partition':
      return ('nsga2.nondominated_sort' if node['part'] == 'nds'
              else 'plain-callable')
    return node['op']
  if k == 'bin':
    return BIN_NAMES[node['o']]
  if k == 'un':
    return UN_NAMES[node['o']]
  return {'cond': 'Conditional', 'choice': 'Choice', 'foreach': 'ElementWise',
          'gs': 'GlobalState'}[k]


def leaves(node, out=None):
  out = [] if out is None else out
  if node['k'] == 'leaf':
    out.append(node)
  for key in ('a', 'b', 'x', 'part_node'):
    if isinstance(node.get(key), dict):
      leaves(node[key], out)
  for sub, _ in node.get('ops', []):
    leaves(sub, out)
  return out


def show(node):
  """One-line rendering of an expression description."""
  k = node['k']
  if k == 'leaf':
    ps = ','.join(f'{a}={node[a]!r}' for a in sorted(node)
                  if a not in ('k', 'op'))
    return f"{node['op']}({ps})"
  if k == 'bin':
    return f"({show(node['a'])} {node['o']} {show(node['b'])})"
  if k == 'un':
    extra = {a: node[a] for a in node if a not in ('k', 'o', 'x')}
    return f"{node['o']}[{show(node['x'])}; {extra}]"
  if k == 'cond':
    return (f"Conditional({node['pred']}, {show(node['a'])}, "
            f"{show(node['b']) if node['b'] else None})")
  if k == 'choice':
    return ('Choice([' + ', '.join(f'({show(s)}, {p})' for s, p in node['ops'])
            + f"], limit={node['limit']}, seed={node['seed']})")
  if k == 'foreach':
    return (f"{show(node['part_node'])}.for_each({show(node['x'])})"
            f".flatten({node['level']})")
  return f"gs[{node['mode']}]({show(node['x'])})"


# --------------------------------------------------------------------------
# Description -> real operation objects.
# --------------------------------------------------------------------------

CONST_FILTERS = {'ANY': (WH.ANY, pg.to_json(WH.ANY)),
                 'ALL': (WH.ALL, pg.to_json(WH.ALL))}


class FilterPool:
  """The where filter objects the user of one application holds: the module
  constants where.ANY / where.ALL and filters created once and handed to
  every operator that is built from the same leaf description."""

  def __init__(self, share=True):
    self.items = {}            # key -> [object, to_json at creation, holder]
    self.reported = set()
    self.share = share

  def constant(self, which, holder):
    obj, snap = CONST_FILTERS[which]
    self.items.setdefault(('const', which), [obj, snap, holder])
    return obj

  def shared(self, name, seed, holder):
    key = (name, seed)
    if not self.share:
      return WH.Any(k=2 if name == 'any2' else 1, seed=seed)
    if key not in self.items:
      obj = WH.Any(k=2 if name == 'any2' else 1, seed=seed)
      self.items[key] = [obj, pg.to_json(obj), holder]
    return self.items[key][0]

  def check(self, ctx, when, case):
    """Constructing / calling an operator does not change the filter object
    the user passed (as the user sees it: its symbolic state)."""
    for key, (obj, snap, holder) in self.items.items():
      ctx.counters['filter_object_checks'] += 1
      now = pg.to_json(obj)
      if now != snap and key not in self.reported:
        self.reported.add(key)
        what = (f'the module constant where.{key[1]}' if key[0] == 'const'
                else f'the filter object where.{snap!r} the user created')
        ctx.violation('input-modified', f'{holder}:where-object',
                      f'{what}, passed as `where` to {holder}, reads {now!r} '
                      f'after {when} (before: {snap!r}); every other operator '
                      f'the user gives this object to sees the new state', case)

  def heal(self):
    for obj, snap, _ in self.items.values():
      if pg.to_json(obj) != snap:
        try:
          obj.rebind({k: v for k, v in snap.items() if k != '_type'},
                     raise_on_no_change=False, notify_parents=False)
        except Exception:  # pylint: disable=broad-except
          pass


_POOL = None        # the pool of the application that is being built


def build_where(name, seed, wobj=None, holder='operator'):
  """Decision point filter of a recombinator; None = library default."""
  if name is None:
    return None
  if name == 'ALL':
    if wobj == 'constant' and _POOL is not None:
      return _POOL.constant('ALL', holder)
    return WH.All()
  if name in ('any1', 'any2') and wobj == 'shared' and _POOL is not None:
    return _POOL.shared(name, seed, holder)
  if name == 'any1':
    return WH.Any(seed=seed)
  if name == 'any2':
    return WH.Any(k=2, seed=seed)
  if name == 'anystep':
    return WH.Any(k=SCALARS['nstep'], seed=seed)
  return REC_WHERE_FNS[name]


def build_leaf(node, recorder=None):
  """The real library operation (or plain callable) of a leaf description."""
  op = node['op']
  kw = {}
  if op == 'Identity':
    return evo.Identity()
  if op == 'fn':
    return FNS[node['fn']]
  if op == 'partition':
    if node['part'] == 'nds':
      return evo.Lambda(NS.nondominated_sort())
    return evo.Lambda(PARTS[node['part']])
  if op == 'nsga2.crowding_distance_sort':
    return NS.crowding_distance_sort()
  cls = _CLASSES[op]
  if op in MUTATORS:
    table = MUT_WHERE if op == 'mutators.Uniform' else SWAP_WHERE
    if node['where'] is not None:
      kw['where'] = table[node['where']]
    return cls(seed=node['seed'], **kw)
  if op in POINTWISE or op in PERMUTATION:
    w = build_where(node['where'], node.get('wseed'), node.get('wobj'), op)
    if (w is None and node.get('wobj') == 'constant' and op in PERMUTATION
        and _POOL is not None):
      w = _POOL.constant('ANY', op)     # the documented default, written out
    if w is not None:
      kw['where'] = w
    if 'seed' in node:
      kw['seed'] = node['seed']
    if 'weights' in node:
      kw['weights'] = WEIGHTS[node['weights']]
    return cls(**kw)
  if op == 'recombinators.KPoint':
    return cls(scalar(node['kk']), seed=node['seed'])
  if op == 'recombinators.Segmented':
    fn = CUTS[node['cuts']]
    if recorder is not None:
      def cutting(xs, fn=fn):
        recorder.append(len(xs))
        return fn(xs)
      return cls(cutting)
    return cls(fn)
  # selectors
  kw['n'] = scalar(node['n'])
  if op == 'selectors.Random':
    return cls(replacement=node['replacement'], seed=node['seed'], **kw)
  if op == 'selectors.Sample':
    return cls(weights=WEIGHTS[node['weights']], seed=node['seed'], **kw)
  if op == 'selectors.Proportional':
    return cls(weights=WEIGHTS[node['weights']], **kw)
  if op in ('selectors.Top', 'selectors.Bottom'):
    if node['key'] is not None:
      kw['key'] = KEYS[node['key']]
    return cls(cluster=node['cluster'], **kw)
  return cls(**kw)


def is_plain(op):
  return not isinstance(op, B.Operation)


def as_operation(op):
  return evo.Lambda(op) if is_plain(op) else op


def combine(node, kids):
  """Builds the composite of `node` from already built operands, with the
  composition operators (class constructors where an operand is a plain
  callable and the operator form does not exist)."""
  k = node['k']
  if k == 'bin':
    a, b = kids
    if is_plain(a) and is_plain(b):
      a = evo.Lambda(a)
    o = node['o']
    if o == '>>':
      return a >> b
    if o == '+':
      return a + b
    if o == '|':
      return a | b
    if o == '&':
      return a & b
    if o == '-':
      return a - b
    return a ^ b
  if k == 'un':
    x, o = kids[0], node['o']
    plain = is_plain(x)
    if o == '*':
      return evo.Repeat(x, scalar(node['n'])) if plain else x * scalar(node['n'])
    if o == '**':
      return evo.Power(x, scalar(node['n'])) if plain else x ** scalar(node['n'])
    if o == '[]':
      idx = node['idx']
      idx = (slice(*idx) if isinstance(idx, list) else scalar(idx))
      return evo.Slice(x, idx) if plain else x[idx]
    if o == '~':
      return evo.Inversion(x) if plain else ~x
    if o == 'neg':
      return evo.Inversion(x) if plain else -x
    if o == 'with_prob':
      p = scalar(node['p'])
      if plain:
        return evo.Choice([(x, p)], seed=node['seed'])
      return x.with_prob(p, seed=node['seed'])
    if o == 'if_true':
      pred = PREDS[node['pred']]
      return evo.Conditional(pred, x, None) if plain else x.if_true(pred)
    if o == 'if_false':
      pred = PREDS[node['pred']]
      return evo.Conditional(pred, None, x) if plain else x.if_false(pred)
    if plain:
      return evo.UntilChange(x, node['m'])
    return x.until_change(node['m'])
  if k == 'cond':
    return evo.Conditional(PREDS[node['pred']], kids[0],
                           kids[1] if node['b'] else None)
  if k == 'choice':
    return evo.Choice([(kid, scalar(p)) for kid, (_, p) in zip(kids, node['ops'])],
                      limit=node['limit'], seed=node['seed'])
  if k == 'foreach':
    part, x = kids
    return as_operation(part).for_each(x).flatten(node['level'])
  # global state
  x = as_operation(kids[0])
  if node['mode'] == 'roundtrip':
    return x.as_global_state('kept') + evo.GlobalStateGetter('kept')
  if node['mode'] == 'default':
    return x + evo.GlobalStateGetter('absent', [])
  return x.set_global_state('flag', 7)


def kid_nodes(node):
  k = node['k']
  if k == 'bin':
    return [node['a'], node['b']]
  if k in ('un', 'gs'):
    return [node['x']]
  if k == 'cond':
    return [node['a']] + ([node['b']] if node['b'] else [])
  if k == 'choice':
    return [s for s, _ in node['ops']]
  if k == 'foreach':
    return [node['part_node'], node['x']]
  return []


def build_bare(node):
  if node['k'] == 'leaf':
    return build_leaf(node)
  return combine(node, [build_bare(c) for c in kid_nodes(node)])


# --------------------------------------------------------------------------
# Case environment: space, reference facts, population.
# --------------------------------------------------------------------------

def dna_nodes(d, out=None):
  out = [] if out is None else out
  out.append(d)
  for c in d.children:
    dna_nodes(c, out)
  return out


def dna_shape(d):
  return G.Node(d.value, [dna_shape(c) for c in d.children])


def flatten(xs, out=None):
  out = [] if out is None else out
  for x in xs:
    if isinstance(x, list):
      flatten(x, out)
    else:
      out.append(x)
  return out


MAX_POINTS = 16          # library cost per DNA is ~2 ms per node
WIDE_MAX_POINTS = 12     # with a wide multi-choice (every node of it is active)
FLOAT_EDGES = [(0.0, 0.1), (0.1, 0.3), (-0.7, 0.7), (0.1, 0.1), (0.3, 0.9)]


def gen_space(rng):
  fl = rng.choice([0.0, 0.0, 0.15, 0.3])
  desc = S.random_space(
      rng, max_depth=rng.choice([1, 2, 2, 3]), max_elems=3, max_k=3, max_n=4,
      floats=fl, customs=fl / 3, names=rng.choice([0.0, 0.0, 0.4]),
      lits=rng.choice([0.0, 0.0, 0.3]))
  elems = list(desc['elems'])
  extra = []
  r = rng.random()
  nperm = 0 if r < 0.45 else (1 if r < 0.75 else 2)
  for j in range(nperm):
    n = rng.choice([2, 3, 3, 4])
    cands = []
    for ci in range(n):
      if rng.random() < 0.15:
        cands.append(S.space(S.choice(1, S.consts(2), loc=f'perm{j}c{ci}')))
      else:
        cands.append(S.CONST)
    extra.append(S.choice(n, cands, True, False, loc=f'perm{j}'))
  if rng.random() < 0.25:
    lo, hi = rng.choice(FLOAT_EDGES)
    extra.append(S.floatv(lo, hi, loc='fedge'))
  wide = None
  if rng.random() < 0.4:
    # a wide constrained multi-choice: many subchoices over many candidates
    k = rng.choice([3, 4, 4, 5, 6, 7])
    distinct, srt = rng.choice([(True, False), (True, False), (True, True),
                                (False, True)])
    n = k if (distinct and rng.random() < 0.4) else rng.randint(
        k if distinct else 3, 8)
    cands = [S.space(S.choice(1, S.consts(2), loc=f'widec{ci}'))
             if rng.random() < 0.08 else S.CONST for ci in range(n)]
    wide = S.choice(k, cands, distinct, srt, loc='wide')
    extra.append(wide)
  for e in extra:
    elems.insert(rng.randint(0, len(elems)), e)
  limit = MAX_POINTS if wide is None else WIDE_MAX_POINTS
  while S.count_points(S.space(*elems)) > limit and len(elems) > 1:
    # (the wide point is kept: the other elements make room for it)
    victims = [i for i, e in enumerate(elems) if e is not wide]
    elems.pop(rng.choice(victims))
  return S.space(*elems)


def edge_member(desc, rng):
  """A member; float points prefer their bounds (harness-side sampler)."""
  return G.random_member(desc, rng)


def is_constrained(e):
  return e['t'] == 'choice' and e['k'] > 1 and (e['distinct'] or e['sorted'])


def top_level_picks(desc, flat):
  """[(element, values of its top-level decisions)] of a member."""
  tops = [pt for pt in G.walk(desc, flat) if not any(t[0] == 'c' for t in pt.path)]
  out, i = [], 0
  for e in desc['elems']:
    k = e['k'] if e['t'] == 'choice' else 1
    out.append((e, [pt.value for pt in tops[i:i + k]]))
    i += k
  return out


def conflicting_picks(picks, n, distinct, srt, rng):
  """Decisions of a constrained multi-choice that are valid by themselves and
  disagree with `picks` position by position as much as the constraint allows
  (so that mixing the two position-wise tends to break the constraint)."""
  k = len(picks)
  if not srt:                                    # distinct, any order
    how = rng.choice(['rotate', 'rotate', 'reverse', 'shuffle', 'shift'])
    if how == 'rotate':
      r = rng.randint(1, k - 1)
      return picks[r:] + picks[:r]
    if how == 'reverse':
      return picks[::-1]
    if how == 'shuffle':
      out = list(picks)
      rng.shuffle(out)
      return out
    d = rng.randint(1, n - 1) if n > 1 else 0
    return [(p + d) % n for p in picks]
  if distinct:                                   # strictly increasing
    how = rng.choice(['low', 'high', 'random', 'shift'])
    if how == 'low':
      return list(range(k))
    if how == 'high':
      return list(range(n - k, n))
    if how == 'shift' and picks[-1] < n - 1:
      return [p + 1 for p in picks]
    return sorted(rng.sample(range(n), k))
  how = rng.choice(['equal', 'equal', 'two-level', 'ramp', 'random'])
  if how == 'equal':
    return [rng.choice([0, n - 1, n // 2, rng.randrange(n)])] * k
  if how == 'two-level':
    a, b = sorted([rng.randrange(n), rng.randrange(n)])
    cut = rng.randint(1, k - 1)
    return [a] * cut + [b] * (k - cut)
  if how == 'ramp':
    return sorted(min(n - 1, (i * n) // k) for i in range(k))
  return sorted(rng.randrange(n) for _ in range(k))


def conflict_member(desc, base, rng):
  """A member derived from the member `base` (harness-side sampler)."""
  out = []
  for e, picks in top_level_picks(desc, base):
    if e['t'] != 'choice':
      out.append(picks[0] if rng.random() < 0.5
                 else G.random_member(S.space(e), rng)[0])
      continue
    if is_constrained(e):
      picks = conflicting_picks(list(picks), len(e['cands']), e['distinct'],
                                e['sorted'], rng)
    elif rng.random() < 0.5:
      picks = [rng.randrange(len(e['cands'])) for _ in picks]
    for p in picks:
      out.append(p)
      out.extend(G.random_member(e['cands'][p], rng))
  out = tuple(out)
  return out if G.is_member(desc, out) else None


def multi_choice_distance(desc, a, b):
  """Number of subchoice positions of constrained top-level multi-choices at
  which two members decide differently."""
  return sum(sum(x != y for x, y in zip(pa, pb))
             for (e, pa), (_, pb) in zip(top_level_picks(desc, a),
                                         top_level_picks(desc, b))
             if is_constrained(e))


class Env:
  """Everything the monitors know about one case."""

  def __init__(self, ctx, rng, desc, spec):
    self.ctx, self.desc, self.spec = ctx, desc, spec
    # decisions added to the workload later come from a stream of their own
    self.aux = (ctx.case_rng(ctx.index, 'aux') if hasattr(ctx, 'case_rng')
                else pyrandom.Random(rng.random()))
    self.multi = rng.random() < 0.3       # multi-objective fitness
    self.nobj = rng.choice([2, 3])
    self.view_cache = {}
    self.members = []
    self.pop = []
    self.snaps = []
    self.dirty = False
    # Calibration of reference decision-point ids against the library's own.
    ref_ids = [p.id for p in G.all_points(desc)]
    lib_ids = [str(dp.id) for dp in spec.decision_points]
    self.ids_ok = ref_ids == lib_ids
    # Independent crossover positions (top level; a constrained multi-choice
    # is one position, an unconstrained one contributes one per subchoice).
    self.npos = 0
    for e in desc['elems']:
      if e['t'] == 'choice' and e['k'] > 1 and not (e['distinct'] or e['sorted']):
        self.npos += e['k']
      else:
        self.npos += 1
    self.has_float = S.has_kind(desc, 'float')
    self.constrained = [e for e in desc['elems'] if is_constrained(e)]

  def positions(self, flat):
    """Splits a member into the values of its independent positions."""
    starts = []
    for pt in G.walk(self.desc, flat):
      if any(t[0] == 'c' for t in pt.path):
        continue
      e = pt.elem
      if e['t'] == 'choice' and e['k'] > 1 and (e['distinct'] or e['sorted']):
        if pt.sub == 0:
          starts.append(pt.pos)
      else:
        starts.append(pt.pos)
    flat = tuple(flat)
    return [flat[a:b] for a, b in zip(starts, starts[1:] + [len(flat)])]

  # -- population ----------------------------------------------------------
  def make_population(self, rng, n):
    self.members = []
    for i in range(n):
      m = None
      if i and rng.random() < 0.15:
        m = rng.choice(self.members)                    # equal, not identical
      elif i and self.constrained and rng.random() < 0.45:
        m = conflict_member(self.desc, rng.choice(self.members), rng)
        self.ctx.counters['conflict_members' if m is not None
                          else 'conflict_member_sampler_failed'] += 1
      self.members.append(m if m is not None else edge_member(self.desc, rng))
    self.fitness = []
    for _ in range(n):
      if self.multi:
        self.fitness.append(tuple(rng.choice([0.0, 0.5, 1.0, rng.random()])
                                  for _ in range(self.nobj)))
      else:
        self.fitness.append(rng.choice([0.0, 0.5, 1.0, rng.random(),
                                        -rng.random()]))
    self.styles = [rng.randrange(2) for _ in range(n)]
    self.extras = [rng.randrange(4) for _ in range(n)]
    self.rebuild()

  def rebuild(self):
    self.pop = []
    for i, m in enumerate(self.members):
      if self.styles[i]:
        d = pg.DNA.from_numbers(list(m), self.spec)
      else:
        d = pg.DNA(G.nested(G.tree(self.desc, m)), spec=self.spec)
      B.set_fitness(d, self.fitness[i])
      B.set_proposal_id(d, i + 1)
      B.set_generation_id(d, 1 + i // 3)
      if self.extras[i] & 1:
        B.set_feedback_sequence_number(d, i + 1)
        d.set_metadata('initial_population', i < 2)
      if self.extras[i] & 2:
        d.set_metadata('tag', {'a': [1, 'x'], 'b': i}, cloneable=True)
      d.set_userdata('u', [i, 'payload'], cloneable=bool(self.extras[i] & 1))
      self.pop.append(d)
    self.snaps = [snapshot(d) for d in self.pop]
    self.dirty = False


def snapshot(d):
  """Everything observable about an input DNA that an operator may not touch."""
  nodes = dna_nodes(d)
  compact = pg.to_json(d)                  # decisions, root metadata, cloneable keys
  if isinstance(compact, dict) and '_cloneable_metadata_keys' in compact:
    compact['_cloneable_metadata_keys'] = sorted(compact['_cloneable_metadata_keys'])
  return {
      'decisions': repr([n.value for n in nodes]) + repr([len(n.children) for n in nodes]),
      'binding': [id(n.spec) for n in nodes],
      'tree-position': (id(d.sym_parent) if d.sym_parent is not None else None,
                        str(d.sym_path)),
      'metadata': (json.dumps(compact, sort_keys=True, default=repr)
                   + repr([n.metadata.to_json() if len(n.metadata) else 0
                           for n in nodes[1:]])),
      'userdata': [(k, id(v), repr(v)) for k, v in sorted(d.userdata.items())],
  }


def snapshot_diff(before, after):
  for part in ('decisions', 'binding', 'tree-position', 'metadata', 'userdata'):
    if before[part] != after[part]:
      return part
  return None


# --------------------------------------------------------------------------
# Monitors on one DNA.
# --------------------------------------------------------------------------

VIEWS = [
    dict(key_type='id', value_type='value', multi_choice_key='subchoice',
         include_inactive_decisions=False),
    dict(key_type='name_or_id', value_type='choice_and_literal',
         multi_choice_key='both', include_inactive_decisions=True),
    dict(key_type='id', value_type='dna', multi_choice_key='parent',
         include_inactive_decisions=True),
]


def plain_view(v):
  if isinstance(v, pg.DNA):
    return ('dna', repr(v.to_numbers()))
  if isinstance(v, list):
    return [plain_view(x) for x in v]
  if isinstance(v, dict):
    return {str(k): plain_view(x) for k, x in v.items()}
  return v


def lookups_of(d):
  """The lookups a DNA answers from derived state: decisions by name and by
  decision point id (`dna[key]`)."""
  out = {'named': plain_view(d.named_decisions)}
  for dp in d.spec.decision_points:
    out[str(dp.id)] = plain_view(d.get(dp.id, 'absent'))
    if dp.name is not None:
      out['name:' + dp.name] = plain_view(d.get(dp.name, 'absent'))
  return out


def views_of(d):
  return [plain_view(d.to_dict(**v)) for v in VIEWS] + [lookups_of(d)]


class _Quiet:
  """Stands in for ctx when a verdict is wanted without a violation record."""

  def __init__(self, ctx):
    self.counters = ctx.counters

  def violation(self, *args):
    return False


def check_dna(env, d, name, case, what='output', report=True):
  """Membership + alignment of one DNA; returns None or the failed clause."""
  ctx, c = (env.ctx if report else _Quiet(env.ctx)), env.ctx.counters
  if not isinstance(d, pg.DNA):
    ctx.violation('not-a-dna', name, f'{what} {d!r} is not a pg.DNA', case)
    return 'not-a-dna'
  flat = tuple(d.to_numbers())
  c['member_checks'] += 1
  why = G.why_not(env.desc, flat)
  if why is None and G.tree(env.desc, flat) != dna_shape(d):
    why = ('shape', 'tree')
  if why is not None:
    ctx.violation('nonmember', f'{name}:{why[0]}',
                  f'{what} {d!r} = {list(flat)!r} is not a member: {why}', case)
    return 'nonmember'
  c['aligned_checks'] += 1
  if d.spec is None:
    ctx.violation('unbound-output', name,
                  f'{what} {d!r} is not bound to a DNASpec', case)
    return 'unbound-output'
  valued = [n for n in dna_nodes(d) if n.value is not None]
  if any(n.spec is None for n in valued):
    ctx.violation('unbound-output', name,
                  f'{what} {d!r} has nodes without a DNASpec', case)
    return 'unbound-output'
  if env.ids_ok:
    got = [str(n.spec.id) for n in valued]
    exp = [p.id for p in G.walk(env.desc, flat)]
    c['decision_point_checks'] += 1
    if got != exp:
      ctx.violation('misaligned', name,
                    f'{what} {d!r}: decision points of its nodes are {got!r}, '
                    f'its positions are answered by {exp!r}', case)
      return 'misaligned'
  c['view_checks'] += 1
  ref = env.view_cache.get(flat)
  if ref is None:
    ref = env.view_cache[flat] = views_of(pg.DNA.from_numbers(list(flat), env.spec))
    c['rebuilt_dnas'] += 1
  got = views_of(d)
  if got != ref:
    i = [a != b for a, b in zip(got, ref)].index(True)
    if i >= len(VIEWS):
      ctx.violation('misaligned', f'{name}:derived-lookup',
                    f'{what} {d!r}: its lookups by name / decision point id '
                    f'(dna[key], named_decisions) give {got[i]!r}, those of the '
                    f'DNA rebuilt from its numbers {ref[i]!r}', case)
      return 'misaligned'
    ctx.violation('misaligned', name,
                  f'{what} {d!r}: to_dict({VIEWS[i]}) = {got[i]!r}, the DNA '
                  f'rebuilt from its numbers gives {ref[i]!r}', case)
    return 'misaligned'
  return None


def lib_innermost(e):
  frames = traceback.extract_tb(e.__traceback__)
  fn = frames[-1].filename if frames else ''
  return 'pyglove' in fn and '/pgverif/' not in fn


def raising_operation(e):
  """Display name of the innermost library Operation on the traceback."""
  tb, name = e.__traceback__, None
  while tb is not None:
    slf = tb.tb_frame.f_locals.get('self')
    if isinstance(slf, B.Operation) and '/pgverif/' not in tb.tb_frame.f_code.co_filename:
      name = display_name(slf)
    tb = tb.tb_next
  return name or 'expression'


# --------------------------------------------------------------------------
# Preconditions and expectations of leaves.
# --------------------------------------------------------------------------

def has_fitness(x):
  return isinstance(x, pg.DNA) and FIT in x.metadata


def leaf_precondition(env, node, inputs, step):
  """None when `inputs` are inside the documented preconditions of the leaf."""
  op = node['op']
  if op in ('Identity', 'fn'):
    return None
  if op == 'partition':
    if node['part'] == 'nds':
      if not all(has_fitness(x) and isinstance(x.metadata[FIT], tuple)
                 for x in inputs):
        return 'needs tuple fitness'
      if len({len(x.metadata[FIT]) for x in inputs}) > 1:
        return 'needs equal objectives'
    return None
  if op == 'nsga2.crowding_distance_sort':
    if not all(has_fitness(x) and isinstance(x.metadata[FIT], tuple) for x in inputs):
      return 'needs tuple fitness'
    return None
  if any(not isinstance(x, pg.DNA) for x in inputs):
    return 'needs a flat list of DNA'
  uses_fit = (node.get('weights') == 'fit'
              or (op in ('selectors.Top', 'selectors.Bottom') and node['key'] is None))
  if uses_fit and not all(has_fitness(x) for x in inputs):
    return 'needs fitness'
  if node.get('key') == 'pid' and not all('proposal_id' in x.metadata for x in inputs):
    return 'needs proposal ids'
  if op in SELECTORS:
    if op in ('selectors.Sample', 'selectors.Proportional') and not inputs:
      return 'needs a non-empty input'
    if op == 'selectors.Random' and node['replacement'] and not inputs:
      return 'needs a non-empty input'
    return None
  if any(x.spec is None for x in inputs):
    return 'needs bound DNA'
  if op in TWO_PARENTS and len(inputs) != 2:
    return 'needs exactly two parents'
  if op == 'mutators.Uniform':
    w = MUT_WHERE[node['where']] if node['where'] is not None else None
    kinds = (pg.geno.Choices, pg.geno.Float, pg.geno.CustomDecisionPoint)
    for x in inputs:
      try:
        if not any(isinstance(n.spec, kinds) and (w is None or w(n))
                   for n in dna_nodes(x)):
          return 'needs a mutable node'
      except Exception:  # pylint: disable=broad-except
        return 'where is not defined on this input'
  return None


def mean_leaves_range(env, node, parents):
  """True if, at some float point, the (weighted) mean of the parents'
  in-range values computed in floating point lies outside the range."""
  weights = (WEIGHTS[node['weights']](parents) if 'weights' in node
             else [1.0] * len(parents))
  values = {}
  for p, w in zip(parents, weights):
    for pt in G.walk(env.desc, p.to_numbers()):
      if pt.elem['t'] == 'float':
        values.setdefault(pt.id, (pt.elem, []))[1].append((w, pt.value))
  for elem, vs in values.values():
    if 'weights' in node:
      num = den = 0.0
      for w, v in vs:
        num += w * v
        den += w
      mean = num / den
    else:
      mean = sum(v for _, v in vs) / len(vs)
    if mean < elem['lo'] or mean > elem['hi']:
      return True
  return False


def expected_count(node, inputs, step):
  """Documented number of outputs of a selector leaf."""
  op, m = node['op'], len(inputs)
  n = scalar_now(node['n'], step)
  if isinstance(n, float):
    n = math.ceil(n * m)
  elif n is None:
    n = m
  if op == 'selectors.Random':
    return n if node['replacement'] else min(n, m)
  if op in ('selectors.Sample', 'selectors.Proportional'):
    return n
  if op in ('selectors.Top', 'selectors.Bottom') and node['cluster']:
    key = KEYS[node['key']] if node['key'] is not None else B.get_fitness
    keys = [key(x) for x in inputs]
    best = set(sorted(set(keys), reverse=(op == 'selectors.Top'))[:n])
    return sum(1 for k in keys if k in best)
  return min(n, m)


WITHOUT_REPLACEMENT = ('selectors.Top', 'selectors.Bottom', 'selectors.First',
                       'selectors.Last')


# --------------------------------------------------------------------------
# The probed run.
# --------------------------------------------------------------------------

class Run:
  """One probed evaluation of an expression (every node wrapped)."""

  def __init__(self, env, case):
    self.env, self.ctx, self.case = env, env.ctx, case
    self.stack = []
    self.violated = False
    self.inapplicable = None
    self.checked = {}          # id -> object (kept alive) of checked new DNAs
    self.new_dnas = 0
    self.selected = 0
    self.sealed = False        # the parents of the application are sealed

  def build(self, node):
    if node['k'] == 'leaf':
      rec = [] if node['op'] == 'recombinators.Segmented' else None
      real = build_leaf(node, rec)
      return self.wrap(node, real, rec)
    kids = [self.build(c) for c in kid_nodes(node)]
    return self.wrap(node, combine(node, kids), None)

  def wrap(self, node, real, rec):
    name = node_name(node)
    call = real if not is_plain(real) else B.make_operation_compatible(real)

    def probe(inputs, global_state=None, step=0):
      return self.call(node, name, call, rec, inputs, global_state, step)
    return evo.Lambda(probe)

  def fail(self, clause, mech, detail):
    self.violated = True
    self.ctx.violation(clause, mech, detail, self.case)

  def call(self, node, name, real, rec, inputs, global_state, step):
    env, c = self.env, self.ctx.counters
    leaf = node['k'] == 'leaf'
    if leaf:
      why = leaf_precondition(env, node, inputs, step)
      if why:
        self.inapplicable = f'{name}: {why}'
        raise Inapplicable(self.inapplicable)
      c['leaf_calls:' + name] += 1
    else:
      c['composite_calls:' + name] += 1
    flat_in = flatten(inputs)
    in_ids = [id(x) for x in flat_in]
    shape_in = repr([len(x) if isinstance(x, list) else 1 for x in inputs])
    snaps, seen = [], set()
    for x in (flat_in if leaf else ()):     # composites only route objects
      if isinstance(x, pg.DNA) and id(x) not in seen:
        seen.add(id(x))
        snaps.append((x, snapshot(x)))
    frame = {'kids': {}, 'rng_inside': False}
    self.stack.append(frame)
    rng_state = pyrandom.getstate()
    try:
      out = real(inputs, global_state=global_state, step=step)
    except (Inapplicable, Abort):
      raise
    except Exception as e:  # pylint: disable=broad-except
      if node['k'] == 'un' and node['o'] == '[]' and isinstance(e, IndexError):
        # an integer index past the end of the operand's output
        self.inapplicable = 'Slice: index out of range'
        raise Inapplicable(self.inapplicable) from e
      if lib_innermost(e):
        mech = name
        if (leaf and node['op'] in ('recombinators.Uniform', 'recombinators.Sample')
            and node['where'] not in (None, 'ALL')):
          mech += ':partial-where'   # the filter may drop decision points
        if (leaf and node['op'] in ('recombinators.Average',
                                    'recombinators.WeightedAverage')
            and mean_leaves_range(env, node, flat_in)):
          mech += ':mean-leaves-range'
        if self.sealed and isinstance(e, pg.WritePermissionError):
          # (one key: deriving a DNA from a sealed one is what fails)
          mech = 'sealed-parent'
        self.fail('unexpected-exception', mech,
                  f'{show(node)} raised on inputs '
                  f'{[repr(x) for x in flat_in][:6]}:\n'
                  + ''.join(traceback.format_exception(e))[-2500:])
        raise Abort() from e
      raise
    finally:
      self.stack.pop()
    # the global RNG is not an input of a seeded / deterministic node
    c['global_rng_checks'] += 1
    if pyrandom.getstate() != rng_state:
      if not frame['rng_inside']:       # not already attributed to an operand
        self.fail('global-rng-consumed', name,
                  f'{show(node)} at step {step} drew from the global random '
                  f'module although all its random parameters are seeded; '
                  f'inputs {[repr(x) for x in flat_in][:6]}')
      if self.stack:
        self.stack[-1]['rng_inside'] = True
    if not isinstance(out, list):
      self.fail('not-a-list', name, f'{show(node)} returned {out!r}')
      raise Abort()
    out = self.check_outputs(node, name, rec, inputs, flat_in, in_ids, out,
                             frame, step)
    # inputs untouched
    c['input_unchanged_checks'] += 1
    now_ids = [id(x) for x in flatten(inputs)]
    now_shape = repr([len(x) if isinstance(x, list) else 1 for x in inputs])
    changed = None
    if now_ids != in_ids or now_shape != shape_in:
      changed = 'population-list'
    else:
      for x, before in snaps:
        changed = snapshot_diff(before, snapshot(x))
        if changed:
          self.fail('input-modified', f'{name}:{changed}',
                    f'{show(node)} changed the {changed} of its input: '
                    f'before {before[changed]!r:.600}, after '
                    f'{snapshot(x)[changed]!r:.600}')
          env.dirty = True
          raise Abort()             # the population is rebuilt by the caller
    if changed:
      self.fail('input-modified', f'{name}:{changed}',
                f'{show(node)} changed the list it was given '
                f'({len(in_ids)} -> {len(now_ids)} items)')
      env.dirty = True
      raise Abort()
    if self.stack:
      for x in flatten(out):
        self.stack[-1]['kids'][id(x)] = x
    return out

  def check_outputs(self, node, name, rec, inputs, flat_in, in_ids, out, frame,
                    step):
    env, c = self.env, self.ctx.counters
    flat_out = flatten(out)
    idset = set(in_ids)
    if node['k'] != 'leaf':
      c['routing_checks'] += 1
      bad = [x for x in flat_out
             if id(x) not in idset and id(x) not in frame['kids']]
      if bad:
        self.fail('foreign-output', name,
                  f'{show(node)} returned {bad[0]!r}, which is neither one of '
                  f'its inputs nor an output of its operands (by identity)')
      return out
    op = node['op']
    if op == 'fn' or (op == 'partition' and node['part'] != 'nds'):
      return out
    if op in SELECTORS or op in ROUTERS:
      c['selector_identity_checks'] += 1
      self.selected += len(flat_out)
      bad = [x for x in flat_out if id(x) not in idset]
      if bad:
        self.fail('selector-foreign', name,
                  f'{show(node)} returned {bad[0]!r}, which is not (by identity) '
                  f'an element of its input {[repr(x) for x in flat_in][:8]}')
        return [x for x in out if isinstance(x, list) or id(x) in idset]
      c['selector_count_checks'] += 1
      if op in SELECTORS:
        want = expected_count(node, inputs, step)
        if len(out) != want:
          self.fail('selector-count', name,
                    f'{show(node)} at step {step} returned {len(out)} of '
                    f'{len(inputs)} inputs, documented number {want}')
        if op in WITHOUT_REPLACEMENT or (
            op == 'selectors.Random' and not node['replacement']):
          counts_out, counts_in = {}, {}
          for x in flat_out:
            counts_out[id(x)] = counts_out.get(id(x), 0) + 1
          for x in flat_in:
            counts_in[id(x)] = counts_in.get(id(x), 0) + 1
          if any(v > counts_in[k] for k, v in counts_out.items()):
            self.fail('selector-repeats', name,
                      f'{show(node)} returned an input more often than it '
                      f'occurs in the input (selection without replacement)')
      else:
        # rearrangements of their input (Identity, the nsga2 sorts)
        if sorted(id(x) for x in flat_out) != sorted(in_ids):
          self.fail('selector-count', name,
                    f'{show(node)} returned {len(flat_out)} items, not a '
                    f'rearrangement of its {len(in_ids)} inputs')
      return out
    # generators: mutators and recombinators
    healed, ok_all = [], True
    for o in out:
      if id(o) in idset:
        c['passthrough_outputs'] += 1
        healed.append(o)
        continue
      self.new_dnas += 1
      bad = check_dna(env, o, name, dict(self.case, inputs=[
          repr(x) for x in flat_in][:8]))
      if bad is None:
        self.checked[id(o)] = o
        healed.append(o)
        continue
      self.violated = True
      ok_all = False
      if bad == 'misaligned':          # heal: same decisions, bound afresh
        h = pg.DNA.from_numbers(o.to_numbers(), env.spec)
        self.checked[id(h)] = h
        healed.append(h)
    if ok_all and op in SEGMENTWISE:
      self.check_crossover(node, name, rec, flat_in, out, step)
    return healed

  def check_crossover(self, node, name, rec, parents, out, step):
    """Documented cutting semantics of the segment-wise crossovers."""
    env, c = self.env, self.ctx.counters
    x, y = (env.positions(p.to_numbers()) for p in parents)
    if len(x) != env.npos or len(y) != env.npos or (rec and rec[-1] != env.npos):
      c['crossover_model_mismatch'] += 1
      return
    c['crossover_semantics_checks'] += 1
    if len(out) != 2:
      self.fail('crossover-semantics', name,
                f'{show(node)} returned {len(out)} children, documented 2')
      return
    kids = [env.positions(o.to_numbers()) for o in out]
    detail = (f'{show(node)} at step {step}: parents {x!r} / {y!r}, children '
              f'{kids[0]!r} / {kids[1]!r}')
    if node['op'] == 'recombinators.Segmented':
      ends = CUTS[node['cuts']](list(range(env.npos))) + [env.npos]
      c1, c2, start = [], [], 0
      for i, cp in enumerate(ends):
        for p in range(start, cp):
          c1.append(x[p] if i % 2 == 0 else y[p])
          c2.append(y[p] if i % 2 == 0 else x[p])
        start = cp
      if kids != [c1, c2]:
        self.fail('crossover-semantics', name,
                  detail + f'; cutting at {ends[:-1]} gives {c1!r} / {c2!r}')
      return
    k = scalar_now(node['kk'], step)
    cuts = min(k, env.npos - 1)
    # labels: 0 = child 1 takes parent 1 here, 1 = child 1 takes parent 2
    feasible = None
    for p in range(env.npos):
      labels = set()
      if (kids[0][p], kids[1][p]) == (x[p], y[p]):
        labels.add(0)
      if (kids[0][p], kids[1][p]) == (y[p], x[p]):
        labels.add(1)
      if not labels:
        self.fail('crossover-semantics', name,
                  detail + f'; position {p} of the children is not an '
                  f'exchange of the parents\' values')
        return
      if feasible is None:
        feasible = {l: {0} for l in labels}
      else:
        nxt = {}
        for l in labels:
          s = set()
          for pl, counts in feasible.items():
            s |= {n + (pl != l) for n in counts}
          nxt[l] = s
        feasible = nxt
    counts = set().union(*feasible.values()) if feasible else {0}
    if cuts not in counts:
      self.fail('crossover-semantics', name,
                detail + f'; documented {cuts} cutting points (k={k}, '
                f'{env.npos} positions), the children need {sorted(counts)}')


# --------------------------------------------------------------------------
# One application: probed run, bare run, comparison.
# --------------------------------------------------------------------------

def signature(env, pop_ids, outputs):
  sig = []
  for o in flatten(outputs):
    if id(o) in pop_ids:
      sig.append(('input', pop_ids[id(o)]))
    elif isinstance(o, pg.DNA):
      sig.append(('new', repr(o.to_numbers())))
    else:
      sig.append(('other', repr(o)))
  return sig


def nondet_mechanism(leaf):
  mech = node_name(leaf)
  if leaf['op'] in PERMUTATION and leaf['where'] is None:
    mech += ':default-where'
  return mech


def has_generator(node):
  return any(l['op'] in GENERATORS for l in leaves(node))


def id_set_over_fresh_outputs(node):
  """`x - y` / `x & y` where both operands create DNAs: the composite keeps
  only id()s of y's outputs, which are garbage by the time x's outputs are
  compared with them. Returns the mechanism name of the first such node."""
  if node['k'] == 'bin' and node['o'] in ('-', '&') and has_generator(
      node['a']) and has_generator(node['b']):
    return BIN_NAMES[node['o']] + ':fresh-operands'
  for kid in kid_nodes(node):
    r = id_set_over_fresh_outputs(kid)
    if r:
      return r
  return None


def tainted(ctx, leaf):
  """True if a listed known finding makes the bare (un-healed) run of an
  expression containing `leaf` differ from the probed run."""
  name = node_name(leaf)
  for key in ctx.known:
    clause, _, mech = key.partition(':')
    if clause in ('unexpected-exception', 'input-modified'):
      continue                    # aborts the probed run; no bare run follows
    if clause == 'nondeterministic':
      if mech == nondet_mechanism(leaf):
        return True
    elif mech == name + ':derived-lookup':
      if leaf.get('where') in ('derived', 'named'):   # only these callbacks
        return True
    elif mech == name or mech.startswith(name + ':'):
      return True
  return False


def unlisted_count(ctx):
  return sum(r['count'] for k, r in ctx.violations.items() if k not in ctx.known)


SEALED_P = 0.06


def apply_expression(ctx, env, rng, expr, idxs, step, case):
  """Runs one expression on population members `idxs`; returns a summary.
  Some applications get their parents sealed (valid DNAs that the user
  protected against modification), and every application holds the where
  filter objects it passes to its operators."""
  global _POOL
  inputs = [env.pop[i] for i in idxs]
  sealed = bool(inputs) and env.aux.random() < SEALED_P
  pool = _POOL = FilterPool()
  if sealed:
    case = dict(case, sealed_parents=True)
    ctx.counters['sealed_applications'] += 1
    for d in inputs:
      d.seal()
  try:
    return _apply_expression(ctx, env, rng, expr, idxs, step, case, pool, sealed)
  finally:
    _POOL = None
    pool.heal()
    for d in inputs:
      if sealed:
        d.seal(False)


def _apply_expression(ctx, env, rng, expr, idxs, step, case, pool, sealed):
  c = ctx.counters
  inputs = [env.pop[i] for i in idxs]
  pop_ids = {id(d): i for i, d in enumerate(env.pop)}
  single = expr['k'] == 'leaf'
  root = node_name(expr)
  c['applications'] += 1
  c['root:' + root] += 1
  # -- probed run
  unlisted_before = unlisted_count(ctx)
  run = Run(env, case)
  run.sealed = sealed
  ctx.label = 'build-operator'
  op1 = run.build(expr)
  ctx.label = None
  pool.check(ctx, 'constructing the operator', case)
  seed_a, seed_b = rng.randrange(1 << 30), rng.randrange(1 << 30)
  pyrandom.seed(seed_a)
  status, out1 = 'ok', None
  try:
    out1 = op1(list(inputs), global_state=pg.geno.AttributeDict(), step=step)
  except Inapplicable:
    status = 'inapplicable'
  except Abort:
    status = 'aborted'
  c['probed_runs:' + status] += 1
  pool.check(ctx, 'a call of the operator', case)
  if status == 'inapplicable':
    c['inapplicable:' + (run.inapplicable or '?').split(':')[0]] += 1
  if status == 'ok':
    # anything new that no generator probe saw (copies made by composites)
    for o in flatten(out1):
      if id(o) not in pop_ids and id(o) not in run.checked:
        if check_dna(env, o, 'expression', case) is not None:
          run.violated = True
  # -- the population is what it was
  verify_population(ctx, env, root if single else 'expression', case)
  summary = {'status': status, 'new': run.new_dnas, 'selected': run.selected}
  if status != 'ok' or env.dirty or unlisted_count(ctx) > unlisted_before:
    return summary
  # -- bare run: same description, fresh objects, other global RNG state.
  # A listed finding that the probes healed (e.g. a re-bound output) makes a
  # composite's bare run diverge; a single operator is still compared.
  if not single and (run.violated or any(tainted(ctx, l) for l in leaves(expr))):
    c['bare_runs_skipped_known'] += 1
    return summary
  ctx.label = 'build-operator'
  op2 = build_bare(expr)
  ctx.label = None
  pool.check(ctx, 'constructing a second operator with it', case)
  if is_plain(op2):
    op2 = B.make_operation_compatible(op2)
  pyrandom.seed(seed_b)
  rng_state = pyrandom.getstate()
  try:
    out2 = op2(list(inputs), global_state=pg.geno.AttributeDict(), step=step)
  except Exception as e:  # pylint: disable=broad-except
    if not lib_innermost(e):
      raise
    ctx.violation('unexpected-exception',
                  'sealed-parent' if sealed and isinstance(
                      e, pg.WritePermissionError) else raising_operation(e),
                  f'{show(expr)} (as written, without probes) raised; the '
                  f'probed run returned normally:\n'
                  + ''.join(traceback.format_exception(e))[-2500:], case)
    verify_population(ctx, env, 'expression', case)
    return summary
  c['global_rng_checks'] += 1
  if pyrandom.getstate() != rng_state:
    # (the probed run of the same description did not: it would have reported)
    ctx.violation('global-rng-consumed', root if single else 'expression',
                  f'{show(expr)} at step {step} (as written, without probes) '
                  f'drew from the global random module although all its random '
                  f'parameters are seeded', case)
  pool.check(ctx, 'a call of the second operator', case)
  c['determinism_checks'] += 1
  s1, s2 = signature(env, pop_ids, out1), signature(env, pop_ids, out2)
  if s1 != s2:
    mech = (nondet_mechanism(expr) if single
            else (id_set_over_fresh_outputs(expr) or 'expression'))
    ctx.violation('nondeterministic', mech,
                  f'{show(expr)} at step {step}: two fresh instances built '
                  f'from the same description returned {s1!r:.700} and '
                  f'{s2!r:.700} on the same inputs (global random seeded '
                  f'{seed_a} / {seed_b})', case)
  verify_population(ctx, env, root if single else 'expression', case)
  summary['outputs'] = [s[1] for s in s1][:6]
  return summary


def verify_population(ctx, env, name, case):
  """Case-level before/after snapshot of every population member."""
  ctx.counters['population_snapshot_checks'] += 1
  for i, d in enumerate(env.pop if not env.dirty else ()):   # dirty: reported by a probe
    part = snapshot_diff(env.snaps[i], snapshot(d))
    if part:
      ctx.violation('input-modified', f'{name}:{part}',
                    f'population member {i} changed ({part}): before '
                    f'{env.snaps[i][part]!r:.600}, after '
                    f'{snapshot(d)[part]!r:.600}', case)
      env.dirty = True
  if env.dirty:
    env.rebuild()
    ctx.counters['population_rebuilds'] += 1


# --------------------------------------------------------------------------
# Random operator descriptions.
# --------------------------------------------------------------------------

def gen_n(rng, npop):
  return rng.choice([0, 1, 1, 2, 2, 3, npop, npop + 2, 0.0, 0.25, 0.5, 1.0,
                     None, 'nstep'])


def gen_rec_where(rng, op):
  """{'where': name, 'wseed': seed of a where.Any filter}."""
  if op in PERMUTATION:
    w = rng.choice([None, None, 'ALL', 'any1', 'any2', 'first', 'nothing'])
  else:
    w = rng.choice([None, None, 'ALL', 'any1', 'any2', 'anystep', 'first',
                    'floats', 'choices', 'nothing', 'everyother'])
  return {'where': w, 'wseed': rng.randrange(1000)} if w and w.startswith('any') else {'where': w}


def gen_leaf(rng, env, op, fit_ok=True):
  npop = len(env.pop)
  seed = rng.randrange(1000)
  node = {'k': 'leaf', 'op': op}
  if op == 'Identity' or op == 'nsga2.crowding_distance_sort':
    return node
  if op == 'fn':
    node['fn'] = rng.choice(sorted(FNS))
    return node
  if op == 'mutators.Uniform':
    ws = [None, None, 'any', 'leaf', 'categorical', 'nonroot', 'subchoice']
    if env.has_float:
      ws.append('numerical')
    node.update(where=rng.choice(ws), seed=seed)
  elif op == 'mutators.Swap':
    node.update(where=rng.choice([None, None, 'any', 'root', 'unsorted', 'none']),
                seed=seed)
  elif op == 'recombinators.Uniform':
    node.update(gen_rec_where(rng, op), seed=seed)
  elif op == 'recombinators.Sample':
    node.update(gen_rec_where(rng, op), seed=seed,
                weights=rng.choice(['ones', 'ramp'] + (['fit'] if fit_ok else [])))
  elif op == 'recombinators.Average':
    node.update(gen_rec_where(rng, op))
  elif op == 'recombinators.WeightedAverage':
    node.update(gen_rec_where(rng, op),
                weights=rng.choice(['ones', 'ramp'] + (['fit'] if fit_ok else [])))
  elif op == 'recombinators.KPoint':
    node.update(kk=rng.choice([1, 1, 2, 2, 3, 5, 'kstep']), seed=seed)
  elif op == 'recombinators.Segmented':
    node.update(cuts=rng.choice(sorted(CUTS)))
  elif op in PERMUTATION:
    node.update(gen_rec_where(rng, op), seed=seed)
  elif op == 'selectors.Random':
    node.update(n=gen_n(rng, npop), replacement=rng.random() < 0.4, seed=seed)
  elif op == 'selectors.Sample':
    node.update(n=gen_n(rng, npop), seed=seed,
                weights=rng.choice(['ones', 'ramp', 'stepped', 'onehot'] + (['fit'] if fit_ok else [])))
  elif op == 'selectors.Proportional':
    node.update(n=gen_n(rng, npop),
                weights=rng.choice(['ones', 'ramp', 'stepped', 'onehot'] + (['fit'] if fit_ok else [])))
  elif op in ('selectors.Top', 'selectors.Bottom'):
    node.update(n=gen_n(rng, npop), cluster=rng.random() < 0.35,
                key=rng.choice(([None, None, 'pid'] if fit_ok else []) + ['len']))
  else:
    node.update(n=gen_n(rng, npop))
  return decorate_leaf(env, node)


def decorate_leaf(env, node):
  """Variants of a leaf drawn from the auxiliary stream of the case (the
  stream of the other draws is the one of the earlier versions of the check):
  where filter objects the user holds (module constants, one object for all
  operators built from the description) and where callbacks that read
  derived state of the DNA."""
  aux, op = env.aux, node['op']
  if op in POINTWISE or op in PERMUTATION:
    r = aux.random()
    if node['where'] == 'ALL' and r < 0.5:
      node['wobj'] = 'constant'
    elif node['where'] is None and op in PERMUTATION and r < 0.3:
      node['wobj'] = 'constant'
    elif node['where'] in ('any1', 'any2') and r < 0.3:
      node['wobj'] = 'shared'
  elif op in MUTATORS:
    r = aux.random()
    if r < 0.12:
      node['where'] = 'derived'
    elif r < 0.18 and op == 'mutators.Uniform':
      node['where'] = 'named'
  return node


def gen_sel(rng, env, depth, fit_ok):
  """Selector-typed expression: outputs are elements of the input."""
  if depth <= 0 or rng.random() < 0.3:
    op = rng.choice(SELECTORS + ['Identity', 'fn', 'selectors.First',
                                 'selectors.Top'])
    return gen_leaf(rng, env, op, fit_ok)
  d = depth - 1
  kind = rng.choice(['set', 'set', 'set', '>>', 'inv', '[]', 'rep', 'prob',
                     'if', 'until', 'cond', 'choice', 'foreach', 'gs', 'nsga'])
  if kind == 'set':
    return {'k': 'bin', 'o': rng.choice(['|', '&', '-', '^', '+']),
            'a': gen_sel(rng, env, d, fit_ok), 'b': gen_sel(rng, env, d, fit_ok)}
  if kind == '>>':
    return {'k': 'bin', 'o': '>>', 'a': gen_sel(rng, env, d, fit_ok),
            'b': gen_sel(rng, env, d, fit_ok)}
  if kind == 'inv':
    return {'k': 'un', 'o': rng.choice(['~', 'neg']),
            'x': gen_sel(rng, env, d, fit_ok)}
  return gen_unary(rng, env, kind, gen_sel(rng, env, d, fit_ok), d, fit_ok,
                   lambda: gen_sel(rng, env, d, fit_ok))


def gen_unary(rng, env, kind, x, d, fit_ok, again):
  seed = rng.randrange(1000)
  if kind == '[]':
    idx = rng.choice([[0, 2, None], [1, None, None], [None, None, 2],
                      [None, -1, None], [None, None, -1], 0, -1, 'idxstep'])
    return {'k': 'un', 'o': '[]', 'x': x, 'idx': idx}
  if kind == 'rep':
    return {'k': 'un', 'o': rng.choice(['*', '**']), 'x': x,
            'n': rng.choice([0, 1, 2, 2, 'kstep'])}
  if kind == 'prob':
    return {'k': 'un', 'o': 'with_prob', 'x': x,
            'p': rng.choice([0.0, 0.5, 0.5, 1.0, 'pstep']), 'seed': seed}
  if kind == 'if':
    return {'k': 'un', 'o': rng.choice(['if_true', 'if_false']), 'x': x,
            'pred': rng.choice(sorted(PREDS))}
  if kind == 'until':
    return {'k': 'un', 'o': 'until_change', 'x': x, 'm': rng.choice([1, 2, 3])}
  if kind == 'cond':
    return {'k': 'cond', 'pred': rng.choice(sorted(PREDS)), 'a': x,
            'b': again() if rng.random() < 0.7 else None}
  if kind == 'choice':
    ops = [[x, rng.choice([0.0, 0.5, 1.0, 'pstep'])]]
    for _ in range(rng.randint(0, 2)):
      ops.append([again(), rng.choice([0.0, 0.5, 1.0])])
    return {'k': 'choice', 'ops': ops, 'limit': rng.choice([None, None, 1, 2, 0]),
            'seed': seed}
  if kind == 'foreach':
    return {'k': 'foreach',
            'part_node': {'k': 'leaf', 'op': 'partition',
                          'part': rng.choice(['chunk2', 'chunk3'])},
            'x': x, 'level': rng.choice([None, None, 1, 2])}
  if kind == 'nsga':
    return {'k': 'foreach',
            'part_node': {'k': 'leaf', 'op': 'partition', 'part': 'nds'},
            'x': {'k': 'leaf', 'op': 'nsga2.crowding_distance_sort'},
            'level': None}
  return {'k': 'gs', 'x': x, 'mode': rng.choice(['roundtrip', 'default', 'set'])}


def pair_selector(rng, env, fit_ok):
  """A selector that returns exactly two of >= 2 inputs."""
  kind = rng.randrange(5 if fit_ok else 4)
  seed = rng.randrange(1000)
  if kind == 0:
    return {'k': 'leaf', 'op': 'selectors.First', 'n': 2}
  if kind == 1:
    return {'k': 'leaf', 'op': 'selectors.Last', 'n': 2}
  if kind == 2:
    return {'k': 'leaf', 'op': 'selectors.Random', 'n': 2, 'replacement':
            rng.random() < 0.3, 'seed': seed}
  if kind == 3:
    return {'k': 'leaf', 'op': 'selectors.Sample', 'n': 2, 'weights': 'ramp',
            'seed': seed}
  return {'k': 'leaf', 'op': rng.choice(['selectors.Top', 'selectors.Bottom']),
          'n': 2, 'cluster': False, 'key': None}


def gen_gen(rng, env, depth, fit_ok):
  """Generator-typed expression: produces new DNAs."""
  if depth <= 0:
    return gen_leaf(rng, env, rng.choice(MUTATORS + POINTWISE), fit_ok)
  d = depth - 1
  kind = rng.choice(['sel>>gen', 'sel>>gen', 'pair>>rec', 'pair>>rec',
                     'gen>>gen', 'gen>>sel', 'rep', 'mix', 'prob', 'if',
                     'until', '[]', 'chunks', 'choice', 'cond', 'gs'])
  if kind == 'sel>>gen':
    return {'k': 'bin', 'o': '>>', 'a': gen_sel(rng, env, d, fit_ok),
            'b': gen_gen(rng, env, d, fit_ok)}
  if kind == 'pair>>rec':
    e = {'k': 'bin', 'o': '>>', 'a': pair_selector(rng, env, fit_ok),
         'b': gen_leaf(rng, env, rng.choice(TWO_PARENTS), fit_ok)}
    if d > 0 and rng.random() < 0.5:
      e = {'k': 'bin', 'o': '>>', 'a': e, 'b': gen_gen(rng, env, d - 1, False)}
    return e
  if kind == 'gen>>gen':
    return {'k': 'bin', 'o': '>>', 'a': gen_gen(rng, env, d, fit_ok),
            'b': gen_gen(rng, env, d, False)}
  if kind == 'gen>>sel':
    return {'k': 'bin', 'o': '>>', 'a': gen_gen(rng, env, d, fit_ok),
            'b': gen_sel(rng, env, d, False)}
  if kind == 'mix':
    a = gen_gen(rng, env, d, fit_ok)
    b = (gen_gen if rng.random() < 0.5 else gen_sel)(rng, env, d, fit_ok)
    if rng.random() < 0.5:
      a, b = b, a
    return {'k': 'bin', 'o': rng.choice(['+', '|', '+', '^', '-']), 'a': a, 'b': b}
  if kind == 'chunks':
    return {'k': 'foreach',
            'part_node': {'k': 'leaf', 'op': 'partition', 'part': 'chunk2'},
            'x': gen_leaf(rng, env, rng.choice(TWO_PARENTS + POINTWISE), fit_ok),
            'level': rng.choice([None, None, 1])}
  return gen_unary(rng, env, kind, gen_gen(rng, env, d, fit_ok), d, fit_ok,
                   lambda: gen_gen(rng, env, d, fit_ok))


def distant_pair(rng, env):
  """Indices of two parents that differ at as many positions as possible."""
  pos = [env.positions(m) for m in env.members]
  best, pairs = -1, []
  for i in range(len(pos)):
    for j in range(len(pos)):
      if i != j:
        d = sum(a != b for a, b in zip(pos[i], pos[j]))
        if d > best:
          best, pairs = d, []
        if d == best:
          pairs.append([i, j])
  return rng.choice(pairs)


def conflict_parents(rng, env):
  """Indices of 2-3 parents: the pair that disagrees at most subchoice
  positions of the constrained multi-choices, sometimes with a third parent."""
  best, pairs = -1, []
  for i in range(len(env.members)):
    for j in range(len(env.members)):
      if i != j:
        d = multi_choice_distance(env.desc, env.members[i], env.members[j])
        if d > best:
          best, pairs = d, []
        if d == best:
          pairs.append([i, j])
  idxs = list(rng.choice(pairs))
  env.ctx.counters['conflict_pair_distance_sum'] += best
  others = [i for i in range(len(env.members)) if i not in idxs]
  if others and rng.random() < 0.3:
    idxs.append(rng.choice(others))
  return idxs


def gen_application(rng, env, which):
  """(expression, indices of the parents it is applied to)."""
  npop = len(env.pop)
  everyone = list(range(npop))
  if which is not None:
    op = which
    node = gen_leaf(rng, env, op, True)
    if op in TWO_PARENTS:
      idxs = rng.sample(everyone, 2) if rng.random() < 0.5 else distant_pair(rng, env)
    elif op in MUTATORS:
      idxs = rng.sample(everyone, rng.randint(1, min(3, npop)))
    elif op in POINTWISE:
      idxs = rng.sample(everyone, rng.randint(1, min(5, npop)))
      if rng.random() < 0.1:
        idxs = idxs + idxs[:1]            # the same parent twice
    else:
      idxs = everyone if rng.random() < 0.8 else rng.sample(
          everyone, rng.randint(0, npop))
    return node, idxs
  depth = rng.choice([1, 1, 2, 2, 3, 3, 4])
  if rng.random() < 0.55:
    expr = gen_gen(rng, env, depth, True)
    # (DNA construction costs ~2 ms per node: generators get <= 6 parents)
    idxs = everyone if npop <= 6 else sorted(
        rng.sample(everyone, rng.randint(2, 6)))
  else:
    expr = gen_sel(rng, env, depth, True)
    idxs = everyone
  return expr, idxs


SINGLE_OPS = (SELECTORS + GENERATORS + GENERATORS
              + ['Identity', 'nsga2.crowding_distance_sort'])


# --------------------------------------------------------------------------
# Whole algorithms composed from the operators.
# --------------------------------------------------------------------------

def run_algorithm(ctx, env, rng, case):
  c = ctx.counters
  kind = rng.choice(['nsga2', 'regularized_evolution'])
  size = rng.randint(3, 5)
  seed, mseed = rng.randrange(1000), rng.randrange(1000)
  power = rng.choice([1, 1, 2])
  steps = 2 * size + rng.randint(2, 6) if kind == 'nsga2' else size + rng.randint(3, 8)
  rewards = [tuple(rng.choice([0.0, 0.5, rng.random()]) for _ in range(2))
             if kind == 'nsga2' else rng.random() for _ in range(steps)]
  case = dict(case, algorithm=f'{kind}(Uniform(seed={mseed})**{power}, '
              f'population_size={size}, seed={seed})')
  name = 'algorithm.' + kind

  consumed = []

  def once(gseed):
    pyrandom.seed(gseed)
    rng_state = pyrandom.getstate()
    try:
      return proposals()
    finally:
      consumed.append(pyrandom.getstate() != rng_state)

  def proposals():
    mut = MU.Uniform(seed=mseed)
    if power > 1:
      mut = mut ** power
    if kind == 'nsga2':
      algo = evo.nsga2(mut, population_size=size, seed=seed)
    else:
      algo = evo.regularized_evolution(mut, population_size=size,
                                       tournament_size=2, seed=seed)
    algo.setup(env.spec)
    out = []
    for r in rewards:
      d = algo.propose()
      out.append(d)
      algo.feedback(d, r)
    return out

  runs = []
  for gseed in (rng.randrange(1 << 30), rng.randrange(1 << 30)):
    try:
      runs.append(once(gseed))
    except Exception as e:  # pylint: disable=broad-except
      if not lib_innermost(e):
        raise
      ctx.violation('unexpected-exception', name,
                    ''.join(traceback.format_exception(e))[-2500:], case)
      return
  c['algorithm_runs:' + kind] += 1
  c['global_rng_checks'] += 1
  if any(consumed):
    ctx.violation('global-rng-consumed', name,
                  'a run of the algorithm with seeded mutator and seeded '
                  'selection drew from the global random module', case)
  bad = False
  for d in runs[0]:
    c['algorithm_proposals'] += 1
    if check_dna(env, d, name, case, 'proposal') is not None:
      bad = True
  if not bad:
    c['determinism_checks'] += 1
    a, b = ([repr(d.to_numbers()) for d in r] for r in runs)
    if a != b:
      ctx.violation('nondeterministic', name,
                    f'two runs with the same seeds proposed {a!r:.600} and '
                    f'{b!r:.600}', case)


# --------------------------------------------------------------------------
# Operator histories: an operator object that was brought to its parameters by
# the symbolic API behaves like a freshly constructed one.
# --------------------------------------------------------------------------

SEEDED_LEAVES = (MUTATORS + ['recombinators.Uniform', 'recombinators.Sample',
                             'recombinators.KPoint'] + PERMUTATION
                 + ['selectors.Random', 'selectors.Sample'])
JSON_WHERE = (None, 'ALL', 'any1', 'any2')


def permutation_elems(desc):
  """Top-level permutation points (every parent pair agrees above them)."""
  return [e for e in desc['elems']
          if e['t'] == 'choice' and e['k'] >= 2 and e['k'] == len(e['cands'])
          and e['distinct'] and not e['sorted']]


def gen_sensitive_space(rng):
  """A small space on which the random draws of every seeded operator family
  matter: 2..3 top-level permutation points (the default where filter of a
  permutation recombinator has to choose) and a single choice, a constrained
  multi-choice or a float. (Small: the library needs ~1.5 ms of
  CPU per DNA node and a permutation crossover builds ~6 DNAs.)"""
  elems = [S.choice(n, S.consts(n), True, False, loc=f'hperm{j}')
           for j, n in enumerate(rng.choice([[3, 3], [3, 3], [3, 3], [3, 4],
                                             [3, 2, 3]]))]
  r = rng.random()
  if r < 0.2:
    elems.append(S.choice(2, S.consts(4), True, rng.random() < 0.5, loc='hmany'))
  elif r < 0.4:
    elems.append(S.floatv(-1.0, 1.0, loc='hfloat'))
  else:
    n = rng.choice([3, 4, 5])
    cands = [S.space(S.choice(1, S.consts(3), loc=f'honec{ci}'))
             if rng.random() < 0.15 else S.CONST for ci in range(n)]
    elems.append(S.choice(1, cands, loc='hone'))
  rng.shuffle(elems)
  return S.space(*elems)


def sensitive_env(ctx, rng):
  """(Env, case) over a randomness-sensitive space, or None."""
  desc = gen_sensitive_space(rng)
  ctx.label = 'build-spec'
  spec = S.build(desc)
  ctx.label = None
  env = Env(ctx, rng, desc, spec)
  env.make_population(rng, rng.randint(2, 3))
  case = {'space': S.show(desc), 'population': [repr(list(m)) for m in env.members],
          'fitness': [repr(f) for f in env.fitness]}
  # premise (valid parents of the canonical shape; their construction is C11/C12)
  for d, m in zip(env.pop, env.members):
    flat = tuple(d.to_numbers())
    if flat != tuple(m) or G.tree(desc, flat) != dna_shape(d) or d.spec is None:
      ctx.counters['cases_with_invalid_parents'] += 1
      return None
  ctx.counters['sensitive_spaces'] += 1
  return env, case


def gen_subject(rng, env):
  """(expression, parent indices): a seeded operator, or a small composite
  that holds seeded operators (selector >> generator, generator.with_prob)."""
  npop = len(env.pop)
  everyone = list(range(npop))
  few = everyone if npop <= 3 else sorted(rng.sample(everyone, 3))
  if len(permutation_elems(env.desc)) >= 2 and rng.random() < 0.25:
    fam = rng.choice(PERMUTATION)       # the where filter has to draw
  else:
    fam = rng.choice(SEEDED_LEAVES + ['pipeline', 'choice'])
  if fam == 'pipeline':
    sel = {'k': 'leaf', 'op': 'selectors.Random', 'n': 2, 'replacement': False,
           'seed': rng.randrange(1000)}
    if rng.random() < 0.4:
      sel = {'k': 'leaf', 'op': 'selectors.Sample', 'n': 2, 'weights': 'ramp',
             'seed': rng.randrange(1000)}
    gen = gen_leaf(rng, env, rng.choice(
        MUTATORS + ['recombinators.Uniform', 'recombinators.KPoint'] + PERMUTATION),
                   False)
    return {'k': 'bin', 'o': '>>', 'a': sel, 'b': gen}, few
  if fam == 'choice':
    x = gen_leaf(rng, env, rng.choice(
        MUTATORS + ['recombinators.Uniform', 'recombinators.Sample']), True)
    return {'k': 'un', 'o': 'with_prob', 'x': x, 'p': 0.5,
            'seed': rng.randrange(1000)}, few
  node, idxs = gen_application(rng, env, fam)
  if fam in PERMUTATION:
    # (where.ALL multiplies the children and draws nothing: the applications
    # cover it)
    w = rng.choice([None, None, None, 'any1', 'any1', 'any2', 'first'])
    node.pop('wseed', None)
    node.pop('wobj', None)
    node['where'] = w
    if w in ('any1', 'any2'):
      node['wseed'] = rng.randrange(1000)
  if fam in SELECTORS and not idxs:
    idxs = everyone
  return node, idxs


def seed_parts(expr):
  """[(library path prefix, description node)] of the nodes of a history
  subject that hold parameters (every one of them has a seed)."""
  if expr['k'] == 'leaf':
    return [('', expr)]
  if expr['k'] == 'bin':
    return [('ops[0].', expr['a']), ('ops[1].', expr['b'])]
  return [('', expr), ('ops[0][0].', expr['x'])]     # x.with_prob -> Choice


def other_than(rng, old, values):
  values = [v for v in values if v != old]
  return rng.choice(values)


def gen_reseed(rng, expr):
  """{part index: {key: new value}} that gives every random generator of the
  subject (operators, where.Any filters) a new, different seed."""
  out = {}
  for i, (_, node) in enumerate(seed_parts(expr)):
    ups = {'seed': other_than(rng, node['seed'], range(1000))}
    if 'wseed' in node and (node['op'] not in PERMUTATION or rng.random() < 0.5):
      # (the filter of a permutation recombinator follows the operator's seed)
      ups['wseed'] = other_than(rng, node['wseed'], range(1000))
    out[i] = ups
  return out


def gen_param_update(rng, env, expr):
  """{part index: {key: new value}}: one non-seed parameter of one leaf gets a
  different value (None if the subject has no such parameter)."""
  parts = [(i, n) for i, (_, n) in enumerate(seed_parts(expr)) if n['k'] == 'leaf']
  i, node = rng.choice(parts)
  op = node['op']
  if expr['k'] == 'bin' and i == 0:
    # the pair selector of a pipeline keeps returning exactly two parents
    if op == 'selectors.Random':
      return {i: {'replacement': not node['replacement']}}
    return {i: {'weights': other_than(rng, node['weights'], ['ones', 'ramp', 'stepped'])}}
  if op == 'mutators.Uniform':
    ws = ['any', 'leaf', 'categorical', 'nonroot', 'subchoice']
    return {i: {'where': other_than(rng, node['where'], ws)}}
  if op == 'mutators.Swap':
    return {i: {'where': other_than(rng, node['where'], ['any', 'root', 'unsorted'])}}
  if op == 'recombinators.KPoint':
    return {i: {'kk': other_than(rng, node['kk'], [1, 2, 3, 'kstep'])}}
  if op == 'selectors.Random':
    if rng.random() < 0.3:
      return {i: {'replacement': not node['replacement']}}
    return {i: {'n': other_than(rng, node['n'], [1, 2, 3, 0.5, None, 'nstep'])}}
  if op == 'selectors.Sample':
    if rng.random() < 0.5:
      return {i: {'weights': other_than(rng, node['weights'], ['ones', 'ramp', 'stepped'])}}
    return {i: {'n': other_than(rng, node['n'], [1, 2, 3, 'nstep'])}}
  if op == 'recombinators.Sample' and rng.random() < 0.4:
    return {i: {'weights': other_than(rng, node['weights'], ['ones', 'ramp'])}}
  # the where filter of a recombinator (a new filter object)
  names = ['ALL', 'any1', 'any2'] if op in PERMUTATION else ['ALL', 'any1', 'any2', 'anystep']
  w = other_than(rng, node['where'], names)
  ups = {'where': w}
  if w.startswith('any'):
    ups['wseed'] = rng.randrange(1000)
  return {i: ups}


def apply_updates(expr, updates):
  """The description after `updates`, and the same updates as a dict of
  library paths -> values (what the user passes to rebind / override)."""
  expr = json.loads(json.dumps(expr))
  lib = {}
  for i, ups in sorted(updates.items(), key=lambda kv: int(kv[0])):
    prefix, node = seed_parts(expr)[int(i)]
    node.update(ups)
    if 'where' in ups:
      node.pop('wobj', None)
    if 'where' in ups and not str(ups['where']).startswith('any'):
      node.pop('wseed', None)
    for key, v in ups.items():
      if key == 'wseed':
        if 'where' not in ups:
          lib[prefix + 'where.seed'] = v
      elif key == 'where':
        if node['op'] in MUTATORS:
          table = MUT_WHERE if node['op'] == 'mutators.Uniform' else SWAP_WHERE
          lib[prefix + 'where'] = table[v]
        else:
          lib[prefix + 'where'] = build_where(v, node.get('wseed'))
      elif key == 'kk':
        lib[prefix + 'k'] = scalar(v)
      elif key == 'n':
        lib[prefix + 'n'] = scalar(v)
      elif key == 'weights':
        lib[prefix + 'weights'] = WEIGHTS[v]
      else:                                  # seed, replacement
        lib[prefix + key] = v
  return expr, lib


def json_able(expr):
  """True if no parameter of the subject is a function."""
  for _, node in seed_parts(expr):
    if node['k'] != 'leaf':
      continue
    if node.get('where') not in JSON_WHERE or 'weights' in node:
      return False
    if isinstance(node.get('n'), str) or isinstance(node.get('kk'), str):
      return False
  return True


def gen_history(rng, env, expr):
  """Steps of a history. A `call` step calls the operator n times; every other
  step is a transformation through the symbolic API. After calls were made
  the next transformation chain contains an anchor (a step that re-seeds every
  random generator of the subject, or a JSON round trip), because whether any
  other step keeps or resets the state of a random generator is not
  documented; transformations of an operator that was not called since its
  last anchor leave it in the state of a fresh operator either way."""
  steps, cur, called = [], expr, False
  if rng.random() < 0.25:
    # (not compared: fresh against fresh is what the applications check)
    steps.append({'s': 'call', 'n': 1, 'compare': False})
    called = True
  for _ in range(rng.choice([1, 1, 1, 2])):
    chain = []
    for j in range(rng.choice([1, 1, 1, 2])):
      anchor = called and j == 0
      kind = rng.choice(['rebind', 'rebind', 'rebind', 'assign', 'clone',
                         'clone', 'json', 'sibling'])
      if kind == 'sibling':
        if not anchor and cur['k'] == 'leaf' and cur['op'] in (
            POINTWISE + PERMUTATION):
          # another operator is constructed with the subject's filter object
          chain.append({'s': 'sibling', 'kind': 'sibling',
                        'cls': rng.choice(['recombinators.Uniform',
                                           'recombinators.Sample'] + PERMUTATION),
                        'seed': rng.randrange(1000)})
          continue
        kind = 'rebind'
      if kind == 'json':
        if not json_able(cur):
          kind = 'rebind'
        else:
          chain.append({'s': 'json', 'str': rng.random() < 0.5, 'kind': 'json'})
          continue
      updates = {}
      if anchor or rng.random() < 0.6:
        updates = gen_reseed(rng, cur)
      if not updates or rng.random() < 0.35:
        for i, ups in gen_param_update(rng, env, cur).items():
          updates.setdefault(i, {}).update(ups)
      seeds = any('seed' in ups for ups in updates.values())
      if kind == 'clone':
        if not anchor and rng.random() < 0.35:
          chain.append({'s': 'clone', 'deep': rng.random() < 0.7, 'set': None,
                        'kind': 'clone'})
          continue
        step = {'s': 'clone', 'deep': rng.random() < 0.7, 'set': updates,
                'kind': 'clone-override'}
      elif kind == 'assign':
        step = {'s': 'assign', 'set': updates, 'kind': 'assign'}
      else:
        step = {'s': 'rebind', 'set': updates, 'split': rng.random() < 0.3,
                'kind': 'rebind-seed' if seeds else 'rebind-param'}
      cur, _ = apply_updates(cur, updates)
      chain.append(step)
    steps.extend(chain)
    steps.append({'s': 'call', 'n': 2})
    called = True
  return steps


def set_by_path(op, path, value):
  """`op.<path> = value` written as attribute assignments."""
  kp = pg.KeyPath.parse(path)
  setattr(kp.parent.query(op), kp.key, value)


def transform(op, expr, step):
  """Applies one transformation step; returns (operator, description)."""
  if step['s'] == 'sibling':
    kw = ({'weights': WEIGHTS['ones']} if step['cls'] == 'recombinators.Sample'
          else {})
    _CLASSES[step['cls']](where=op.where, seed=step['seed'], **kw)
    return op, expr
  if step['s'] == 'json':
    if step['str']:
      return pg.from_json_str(pg.to_json_str(op)), expr
    return pg.from_json(pg.to_json(op)), expr
  if step['set'] is None:
    return op.clone(deep=step['deep']), expr
  expr, lib = apply_updates(expr, step['set'])
  if step['s'] == 'clone':
    return op.clone(deep=step['deep'], override=lib), expr
  if step['s'] == 'assign':
    with pg.allow_writable_accessors(True):
      for path, v in lib.items():
        set_by_path(op, path, v)
    return op, expr
  if step.get('split'):
    for path, v in lib.items():
      op.rebind({path: v}, raise_on_no_change=False)
  else:
    op.rebind(lib, raise_on_no_change=False)
  return op, expr


def reseeds_all(expr, updates):
  if not updates:
    return False
  for i, (_, node) in enumerate(seed_parts(expr)):
    ups = updates.get(i, updates.get(str(i), {}))
    if 'seed' not in ups:
      return False
    if 'wseed' in node and 'wseed' not in ups and not (
        'where' in ups or node.get('op') in PERMUTATION):
      return False
  return True


def history_precondition(env, expr, inputs, step):
  """None if a call of the subject on `inputs` is inside the preconditions."""
  if expr['k'] == 'leaf':
    return leaf_precondition(env, expr, inputs, step)
  if expr['k'] == 'bin':
    if len(inputs) < 2:
      return 'needs two parents'
    b = expr['b']
    return leaf_precondition(env, b, inputs[:2] if b['op'] in TWO_PARENTS
                             else inputs, step)
  return leaf_precondition(env, expr['x'], inputs, step)


def exception_mechanism(env, expr, e, inputs):
  """Mechanism of an exception raised inside a history (as the probes name it)."""
  name = raising_operation(e)
  for leaf in leaves(expr):
    if node_name(leaf) != name:
      continue
    if (leaf['op'] in ('recombinators.Uniform', 'recombinators.Sample')
        and leaf['where'] not in (None, 'ALL')):
      return name + ':partial-where'
  return name


class HistoryEnd(Exception):
  """The history cannot continue (inapplicable, or a violation was recorded)."""


def run_history(ctx, env, expr, steps, inputs, step0, case, quiet=False):
  """Executes a history. Every maximal run of calls that starts from a known
  state (fresh object / anchor, no calls since) is compared with the same calls
  of a fresh operator built from the current description. Returns None or
  (kinds of the transformations since the anchor, detail) of the first
  diverging run of calls; with `quiet` nothing is recorded."""
  c = ctx.counters
  pop_ids = {id(d): i for i, d in enumerate(env.pop)}
  root = node_name(expr)
  state = {'op': None, 'expr': expr, 'known': True, 'ncalls': 0, 'chain': [],
           'trace': [], 'calls': [], 'nstep': step0, 'last_out': None}

  def guarded(label, fn):
    try:
      return fn()
    except Exception as e:  # pylint: disable=broad-except
      if not lib_innermost(e):
        raise
      if not quiet:
        ctx.violation('unexpected-exception', label,
                      f'{show(state["expr"])} in the history {state["history"]!r:.900}:\n'
                      + ''.join(traceback.format_exception(e))[-2500:], case)
      raise HistoryEnd() from e

  def call(op, cur, st, gseed):
    pyrandom.seed(gseed)
    rng_state = pyrandom.getstate()
    try:
      out = op(list(inputs), global_state=pg.geno.AttributeDict(), step=st)
    except Exception as e:  # pylint: disable=broad-except
      if not lib_innermost(e):
        raise
      if not quiet:
        ctx.violation('unexpected-exception',
                      exception_mechanism(env, cur, e, inputs),
                      f'{show(cur)} (history {state["history"]!r:.900}) raised '
                      f'at step {st}:\n' + ''.join(traceback.format_exception(e))[-2500:],
                      case)
      raise HistoryEnd() from e
    c['global_rng_checks'] += 1
    if pyrandom.getstate() != rng_state and not quiet:
      ctx.violation('global-rng-consumed', root,
                    f'{show(cur)} (history {state["history"]!r:.900}) at step {st} drew '
                    f'from the global random module although all its random '
                    f'parameters are seeded', case)
    return out

  def flush(final=False):
    """Compares the pending run of calls with a fresh operator."""
    trace, calls = state['trace'], state['calls']
    state['trace'], state['calls'] = [], []
    if not trace:
      return None
    cur = state['expr']
    ref = guarded('build-operator', lambda: build_bare(cur))
    c['history_checks'] += 1
    for k, (st, got) in enumerate(zip(calls, trace)):
      want = signature(env, pop_ids, call(ref, cur, st, 7919 + st))
      c['history_call_checks'] += 1
      if got != want:
        return (list(state['chain']), f'{show(cur)} reached by the history '
                f'{state["history"]!r:.900} returned {got!r:.500} at its call '
                f'{k + 1} after the last re-seeding step (step={st}); a fresh '
                f'operator with these parameters returned {want!r:.500} on the '
                f'same inputs (call {k + 1})')
    if final and not quiet and state['last_out'] is not None:
      for o in state['last_out']:
        if isinstance(o, pg.DNA) and id(o) not in pop_ids:
          check_dna(env, o, root, case)
          break                   # (one: the probes check every output)
    return None

  state['history'] = [dict(s) for s in steps]
  state['op'] = guarded('build-operator', lambda: build_bare(expr))
  for s in steps:
    if s['s'] == 'call':
      for _ in range(s['n']):
        st = state['nstep']
        state['nstep'] += 1
        if history_precondition(env, state['expr'], inputs, st):
          c['history_inapplicable'] += 1
          raise HistoryEnd()
        out = call(state['op'], state['expr'], st, 104729 + st)
        if not isinstance(out, list):
          raise HistoryEnd()          # (reported by the probes of the operator)
        state['ncalls'] += 1
        if state['known'] and s.get('compare', True):
          state['trace'].append(signature(env, pop_ids, out))
          state['calls'].append(st)
          state['last_out'] = flatten(out)
      continue
    if s['s'] == 'sibling':
      # the subject is not touched: its runs of calls go on
      state['chain'].append((s, state['expr']))
      c['history_steps:sibling'] += 1
      op, cur = state['op'], state['expr']
      guarded(f'{root}:history-sibling', lambda: transform(op, cur, s))
      continue
    bad = flush()
    if bad:
      return bad
    reseed = reseeds_all(state['expr'], s.get('set'))
    if reseed:
      state['chain'] = []       # (a JSON round trip keeps the chain: what was
    if reseed or s['s'] == 'json':          # serialised is part of the history)
      state['known'], state['ncalls'] = True, 0
    elif state['ncalls']:
      state['known'] = False
    state['chain'].append((s, state['expr']))
    c['history_steps:' + s['kind']] += 1
    op, cur = state['op'], state['expr']
    state['op'], state['expr'] = guarded(
        f'{root}:history-{s["kind"]}', lambda: transform(op, cur, s))
  return flush(final=True)


def history_kind(ctx, env, chain, inputs, step0, case):
  """Names the transformation of a diverging chain [(step, description before
  it)]: the kind of the first step that diverges from a fresh operator when it
  is the only step of a history ('combination' if none does)."""
  kinds = [s['kind'] for s, _ in chain]
  if len(set(kinds)) == 1:
    return kinds[0]
  for s, before in chain:
    try:
      alone = run_history(ctx, env, before, [s, {'s': 'call', 'n': 3}], inputs,
                          step0, case, quiet=True)
    except HistoryEnd:
      alone = None
    if alone:
      return s['kind']
  return 'combination'


def history_application(ctx, env, rng, case):
  """One operator history on the case's population."""
  c = ctx.counters
  expr, idxs = gen_subject(rng, env)
  steps = gen_history(rng, env, expr)
  step0 = rng.randrange(8)
  inputs = [env.pop[i] for i in idxs]
  root = node_name(expr)
  case = dict(case, expression=show(expr), parents=idxs, step=step0,
              history=steps)
  c['histories'] += 1
  c['history_root:' + root] += 1
  global _POOL
  pool = _POOL = FilterPool(share=False)
  try:
    bad = run_history(ctx, env, expr, steps, inputs, step0, case)
  except HistoryEnd:
    bad = None
    c['histories_ended_early'] += 1
  finally:
    _POOL = None
    pool.check(ctx, 'the history of the operator', case)
    pool.heal()
  if bad:
    chain, detail = bad
    kind = history_kind(ctx, env, chain, inputs, step0, case) if chain else None
    mech = nondet_mechanism(expr) if expr['k'] == 'leaf' else root
    if kind:
      mech = f'{root}:history-{kind}'
    ctx.violation('nondeterministic', mech, detail, case)
  verify_population(ctx, env, root, case)
  return root


# --------------------------------------------------------------------------

def cases(ctx):
  return int(ctx.params['cases'])


# ------------------------------------------- determinism across processes ---
# "Seeded operators are deterministic functions of their seed and inputs": the
# same seeded operator applied to the same parents must give the same children
# IN THE SAME ORDER in every process. ./check pins PYTHONHASHSEED, so the
# comparison within one process cannot see an order that depends on the hash of
# a str decision (custom decision points hold strings); this probe runs the
# same small script under several hash seeds and compares what it prints.
_HASH_SEED_SCRIPT = r'''
import sys
sys.path.insert(0, %(repo)r)
import pyglove as pg
from pyglove.ext.evolution import recombinators as R, mutators as M
g = pg.geno
C = lambda n: [g.constant()] * n
sp = g.space([g.custom(), g.manyof(4, C(4), distinct=True, sorted=False),
              g.manyof(4, C(4), distinct=True, sorted=False), g.oneof(C(3))])
ps = [pg.DNA([%(s1)r, [0, 1, 2, 3], [1, 2, 3, 0], 0], spec=sp),
      pg.DNA([%(s2)r, [3, 2, 1, 0], [0, 3, 2, 1], 2], spec=sp)]
ops = [('recombinators.PartiallyMapped', R.PartiallyMapped(seed=%(seed)d)),
       ('recombinators.Order', R.Order(seed=%(seed)d)),
       ('recombinators.Cycle', R.Cycle(seed=%(seed)d)),
       ('recombinators.Uniform', R.Uniform(seed=%(seed)d)),
       ('recombinators.Sample', R.Sample(lambda xs: [1.0] * len(xs), seed=%(seed)d)),
       ('recombinators.KPoint', R.KPoint(2, seed=%(seed)d))]
for name, op in ops:
  try:
    out = [str(d) for d in op([p.clone(deep=True) for p in ps])]
  except Exception as e:  # inapplicable here: the same in every process
    out = ['<' + type(e).__name__ + '>']
  print(name + '\t' + repr(out))
'''


def hash_seed_probe(ctx):
  import os, subprocess, sys
  from pgverif import run as RUN
  rng, c = ctx.rng, ctx.counters
  words = ['abc', 'xyz', 'q', 'Zed', 'm7', 'hello world']
  s1 = rng.choice(words)
  s2 = rng.choice([w for w in words if w != s1] + [s1])
  script = _HASH_SEED_SCRIPT % dict(repo=RUN.REPO, s1=s1, s2=s2, seed=rng.randint(0, 99))
  procs = [subprocess.Popen([sys.executable, '-B', '-c', script],
                            env=dict(os.environ, PYTHONHASHSEED=str(h)),
                            stdout=subprocess.PIPE, stderr=subprocess.PIPE, text=True)
           for h in (1, 2, 3)]
  outs = []
  for pr in procs:
    try:
      o, e = pr.communicate(timeout=300)
    except subprocess.TimeoutExpired:
      pr.kill()
      c['hash_seed_probe_timeouts'] += 1
      return
    if pr.returncode != 0:
      c['hash_seed_probe_failed'] += 1
      ctx.notes['hash_seed_probe_stderr'] = e[-600:]
      return
    outs.append(dict(l.split('\t', 1) for l in o.strip().splitlines() if '\t' in l))
  c['hash_seed_probes'] += 1
  for name in outs[0]:
    vals = [o.get(name) for o in outs]
    c['hash_seed_operator_compares'] += 1
    if len(set(vals)) > 1:
      same_set = len({repr(sorted(eval(v))) for v in vals}) == 1  # pylint: disable=eval-used
      ctx.violation(
          'nondeterministic',
          name + (':hash-seed[child-order]' if same_set else ':hash-seed'),
          'the same seeded operator on the same parents (a custom decision point '
          f'holds the strings {s1!r} / {s2!r}) gives under PYTHONHASHSEED=1,2,3:\n'
          + '\n'.join(vals), {'script': script})


def run_case(ctx, i):
  rng, c = ctx.rng, ctx.counters
  if i == 0 and getattr(ctx, 'shard', 0) == 0:
    hash_seed_probe(ctx)
  desc = gen_space(rng)
  case = {'space': S.show(desc)}
  ctx.label = 'build-spec'
  spec = S.build(desc)
  ctx.label = None
  env = Env(ctx, rng, desc, spec)
  if not env.ids_ok:
    c['reference_ids_disagree'] += 1
  env.make_population(rng, rng.randint(2, int(ctx.params['max_pop'])))
  case['population'] = [repr(list(m)) for m in env.members]
  case['fitness'] = [repr(f) for f in env.fitness]
  c['cases'] += 1
  c['parents'] += len(env.pop)
  # The parents themselves: their construction is the subject of C11/C12; a
  # case whose premise (valid, aligned parents) does not hold is not judged.
  if any(check_dna(env, d, 'parent', case, 'parent', report=False) for d in env.pop):
    c['cases_with_invalid_parents'] += 1
    return
  napps = int(ctx.params['apps'])
  nconflict = (int(ctx.params.get('conflict_extra', 0))
               if env.constrained and len(env.pop) >= 2 else 0)
  napps -= nconflict          # the conflict battery is part of the `apps` budget
  ops_seen, productive, samples = [], 0, []
  singles = list(SINGLE_OPS)
  rng.shuffle(singles)
  for a in range(napps):
    which = singles[a // 2 % len(singles)] if a % 2 == 0 else None
    expr, idxs = gen_application(rng, env, which)
    step = rng.randrange(8)
    acase = dict(case, expression=show(expr), parents=idxs, step=step)
    summary = apply_expression(ctx, env, rng, expr, idxs, step, acase)
    ops_seen.append(node_name(expr))
    if summary['status'] == 'ok' and (summary['new'] or summary['selected']):
      productive += 1
    if len(samples) < 3:
      samples.append({'expression': show(expr), 'parents': idxs, 'step': step,
                      **summary})
  # crossover battery: K-point crossovers that can actually place K cuts
  if env.npos >= 3:
    for _ in range(int(ctx.params['kpoint_extra'])):
      expr = {'k': 'leaf', 'op': 'recombinators.KPoint',
              'kk': rng.randint(1, min(3, env.npos - 2)), 'seed': rng.randrange(1000)}
      idxs, step = distant_pair(rng, env), rng.randrange(8)
      apply_expression(ctx, env, rng, expr, idxs, step,
                       dict(case, expression=show(expr), parents=idxs, step=step))
      ops_seen.append('recombinators.KPoint')
  # conflict battery: seeded point-wise recombination of the parents that
  # disagree most on a constrained multi-choice
  if nconflict:
    for _ in range(nconflict):
      expr = gen_leaf(rng, env, rng.choice(['recombinators.Uniform',
                                            'recombinators.Sample']), True)
      expr.pop('wseed', None)
      expr.pop('wobj', None)
      expr['where'] = rng.choice([None, None, 'ALL'])
      idxs, step = conflict_parents(rng, env), rng.randrange(8)
      c['conflict_applications'] += 1
      apply_expression(ctx, env, rng, expr, idxs, step,
                       dict(case, expression=show(expr), parents=idxs, step=step))
      ops_seen.append(expr['op'])
  if rng.random() < float(ctx.params['algos']):
    run_algorithm(ctx, env, rng, case)
  # operator histories (drawn last: the applications above keep their stream)
  # most of them on a dedicated space on which every random draw matters
  sensitive = None
  for _ in range(int(ctx.params.get('histories', 0))):
    if rng.random() < 0.6:
      sensitive = sensitive or sensitive_env(ctx, rng)
      if sensitive:
        history_application(ctx, sensitive[0], rng, sensitive[1])
        continue
    ops_seen.append('history:' + history_application(ctx, env, rng, case))
  rich = any(e['t'] == 'choice' and (e['k'] > 1 or any(cd['elems'] for cd in e['cands']))
             for e in desc['elems'])
  if rich and productive * 2 >= napps:
    ctx.mark_nontrivial((S.show(desc), tuple(ops_seen)))
  ctx.seen('spaces', S.show(desc))
  ctx.seen('positions', env.npos)
  if i < 2:
    ctx.sample({'space': S.show(desc), 'population': case['population'][:4],
                'applications': samples})
