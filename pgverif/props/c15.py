"""C15 — search algorithms recover their state from history at every crash point.

Two live instances side by side: an uninterrupted one and a fresh one that is
set up on the same space and `recover`s the JSON-persisted history.  State is
read through public attributes only (`num_proposals`, `num_feedbacks`,
`population` + `get_fitness`, `generator`), the de-duplication memory is
observed behaviourally (which later proposals are de-duplicated / which
rewards `auto_reward_fn` is handed), history-determined algorithms must go on
with identical proposals. The history reaches the fresh instance in a rotating
form (list, iterators, ...) and delivery (one recover() call, or 2..4
consecutive pieces with one call each, see DELIVERIES).
"""
import collections
import os
import random

import pyglove as pg
from pyglove.ext import evolution as evo

G = pg.geno

TIERS = {
    # `per_config` = number of spaces every configuration is run on (rotating
    # through the spaces it admits, so that every space is used);
    # `per_custom_sweep` / `per_custom` = number of spaces with custom decision
    # points on top of that, for sweeping-based / other configurations.
    'quick': dict(shards=8, Ns=[10], W=3, M=3, per_config=3, per_custom=0,
                  per_custom_sweep=2, timeout_s=600),
    'thorough': dict(shards=16, Ns=[6, 12, 24], W=3, M=4, per_config=8,
                     per_custom=1, per_custom_sweep=5,
                     timeout_s=5400, case_timeout_s=900),
}
LEVEL = 'fault_enumeration'
EXHAUSTIVE = {'quick': False, 'thorough': False}
RULE = ('case = (algorithm configuration, search space, run length N); inside a '
        'case EVERY crash point (k proposals, the last min(w,k) feedbacks '
        'missing) for k in 0..N and w in 0..W is executed on two feedback '
        'schedules: "lag" = for every w one uninterrupted run of N proposals in '
        'which feedback i arrives after proposal i+w, stopped after every '
        'proposal; "tail" (configurations whose state depends on feedback) = '
        'for every j a run of j answered proposals followed by up to W '
        'unanswered ones, stopped after each of those (harness-driven '
        'de-duplication configurations: a fresh run for every (k, w), followed '
        'by a destructive probe of the de-duplication memory). At each crash '
        'point the history (DNA with metadata, reward or None) goes through '
        'JSON, a fresh instance is set up and recovers it (the history is '
        'handed to recover() in a form that rotates from crash point to crash '
        'point: list, tuple, generator, iter(), zip, map, deque, an unsized '
        're-iterable and a once-only Iterable; a difference that a list of the '
        'same entries does not show is keyed with the kind of the form; and '
        'in a delivery that rotates independently of the form: in one '
        'recover() call or cut into 2..4 consecutive pieces, one recover() '
        'call per piece, with an empty first / last / middle piece, a cut '
        'between the answered and the pending proposals or among the pending '
        'ones, a cut inside or right after the proposals that fill the initial '
        'population of an Evolution, or random cuts; a difference that one '
        'call with the same entries does not show is keyed '
        '<class>.recover+piecewise-history), and '
        'proposal/'
        'feedback counts at every wrapper level, population with fitness, the '
        'num_generations of an Evolution, the '
        'de-duplication memory (probe proposals through a harness-driven inner '
        'generator), for history-determined algorithms the next M '
        'proposals, and for evolution-based ones whether the next proposal is a '
        'member of the initial population or a child are compared. '
        'Configurations: Sweeping, Random, the evolution-based algorithms, '
        'Deduping over each of them and over harness-driven generators, and '
        'user-defined generators that recover through the default recover() (a '
        'subclass whose proposals are a function of its public counters and '
        'the rewards fed back; a pg.geno.dna_generator function). Algorithm seeds and sizes are drawn from the '
        'case RNG. Spaces: choices (nested, conditional, multi-choices), '
        'floats, and custom decision points whose next_dna_fn sweeps in an '
        'order that is not the order of their string values (with N raised '
        'where needed to get past the first disagreement). Non-trivial = the case compared at least one crash point '
        'with k >= 2; distinct by (configuration, parameters, space, N, '
        'longest live history).')
REQUIRED_COUNTERS = ['crash_points', 'crash_points_pending',
                     'crash_points_piecewise', 'crash_points:empty-last-piece',
                     'crash_points:cut-before-pending',
                     'crash_points:cut-inside-population-fill',
                     'num_generations_compares', 'phase_compares',
                     'crash_points_one_shot_history', 'crash_points_custom_space',
                     'count_compares',
                     'population_compares', 'continuation_compares',
                     'dedup_memory_probes']
ASSUMPTIONS = [
    'feedback is given in proposal order (as the quantifier states); rewards are a deterministic function of the DNA (for NEAT: of the DNA and its position in the history, see below)',
    'the history is persisted at the crash point: each DNA (with the metadata the algorithm attached so far) and each reward go through pg.to_json_str/from_json_str',
    'Sweeping (alone or under Deduping) is not run on spaces with float decision points (documented as unsupported by next_dna)',
    'custom decision points come with next_dna_fn and random_dna_fn over a finite list of strings (without them sweeping / random generation is documented as unsupported)',
    'recover() is documented to take an Iterable of (DNA, reward) tuples: any Iterable of the persisted entries (sequence, one-shot iterator, unsized or once-only Iterable) must recover the same state',
    'recover() is documented as callable several times before the first propose (several sources of history): the persisted history cut into consecutive pieces, one call per piece in order (a source may be empty), is the same history and must recover the same state',
    'continuation is compared only for sweeping, seeded random, Deduping over them and user-defined generators whose proposals are a function of counters and rewards (with feedbacks in between: the one proposal that follows the crash point); evolution-based algorithms are compared on counts, population with fitness, num_generations and on whether the proposal that follows the crash point is a member of the initial population (decided by the number of feedbacks in the history, not by the seed)',
    'state of the population initializer of an Evolution and the entries of its global_state other than num_generations (they belong to the operations of the algorithm: elites, species, cursors) are not part of the compared state (not named by the property); a library error of the recovered instance when it is asked for the proposal after the crash point is counted like one of the uninterrupted run',
    'proposals of an inner generator that Deduping dropped as duplicates are not in the persisted history: the recovered inner num_proposals may be lower than the uninterrupted one by at most their number',
    'de-duplication memory is probed with a harness-defined inner DNAGenerator (the documented extension point) whose next proposal the harness dictates',
    'an exception of the UNINTERRUPTED run (e.g. NEAT divides by zero when all members of a generation have the same fitness; an Evolution without any evaluated individual cannot reproduce) ends that run and is counted, not reported: the property speaks about recovery only. NEAT rewards get a position-dependent tie-break so that this is rare',
    'Deduping does not forward multi_objective, so Deduping(nsga2) is fed single float rewards (all that DNAGenerator.feedback and pg.sample admit for it)',
]


# ---------------------------------------------------------------------------
# Spaces
# ---------------------------------------------------------------------------

def _c(n):
  return [G.constant() for _ in range(n)]


Space = collections.namedtuple(
    'Space', 'name spec has_float weight custom n_min', defaults=(False, 0))


def make_spaces():
  """[Space] — small spaces so that duplicates are frequent."""
  return [Space(*t) for t in [
      ('oneof3', G.space([G.oneof(_c(3))]), False, 1),
      ('oneof4-manyof2of3-oneof3',
       G.space([G.oneof(_c(4)), G.manyof(2, _c(3), distinct=True), G.oneof(_c(3))]), False, 6),
      ('conditional+float',
       G.space([G.oneof([G.space([G.oneof(_c(2))]), G.constant(), G.constant()]),
                G.floatv(0.0, 1.0)]), True, 4),
      ('oneof3-oneof2', G.space([G.oneof(_c(3)), G.oneof(_c(2))]), False, 3),
      ('manyof2of4-sorted',
       G.space([G.manyof(2, _c(4), distinct=True, sorted=True)]), False, 3),
      ('oneof2', G.space([G.oneof(_c(2))]), False, 1),
      ('nested-conditional',
       G.space([G.oneof([G.space([G.oneof(_c(2)), G.oneof(_c(2))]),
                         G.space([G.manyof(2, _c(2), distinct=False)]),
                         G.constant()]),
                G.oneof(_c(2))]), False, 5),
      ('float-oneof2', G.space([G.floatv(-1.0, 1.0), G.oneof(_c(2))]), True, 3),
  ]]


def custom_point(values, name=None):
  """A custom decision point (`pg.geno.custom`) over the string `values`:
  `next_dna_fn` sweeps them in the given order, `random_dna_fn` draws one."""
  values = list(values)
  succ = dict(zip(values, values[1:]))

  def next_dna(dna):
    if dna is None:
      return pg.DNA(values[0])
    v = succ.get(dna.value)
    return None if v is None else pg.DNA(v)

  def random_dna(random_generator, previous_dna=None):
    del previous_dna
    return pg.DNA(random_generator.choice(values))

  return G.custom(hyper_type='c15', next_dna_fn=next_dna,
                  random_dna_fn=random_dna, name=name)


def _decimals(lo, hi):
  return [str(i) for i in range(lo, hi)]


def make_custom_spaces():
  """Spaces with custom decision points, alone and next to choices. The sweep
  order of a custom decision point is whatever its `next_dna_fn` says; the
  orders used here are mostly NOT the order of the string values (decimal
  counters beyond 9, descending letters, words). `n_min` = run length needed
  to get past the first place where the two orders disagree."""
  return [Space(*t) for t in [
      ('custom[7..12]', G.space([custom_point(_decimals(7, 13))]), False, 1, True),
      ('oneof2-custom[0..11]',
       G.space([G.oneof(_c(2)), custom_point(_decimals(0, 12))]), False, 6, True, 13),
      ('custom[d..a]-oneof3',
       G.space([custom_point('dcba'), G.oneof(_c(3))]), False, 3, True),
      ('conditional-custom[words]-oneof2',
       G.space([G.oneof([G.space([custom_point(['one', 'two', 'three', 'four'])]),
                         G.constant()]),
                G.oneof(_c(2))]), False, 4, True),
      ('custom[a..c]-custom[98..101]',
       G.space([custom_point('abc'), custom_point(_decimals(98, 102))]), False, 2, True),
  ]]


# Harness-driven de-duplication configurations enumerate the space.
PUPPET_MAX_WEIGHT = 5


# ---------------------------------------------------------------------------
# Harness-driven inner generators (probe of the de-duplication memory)
# ---------------------------------------------------------------------------

class Puppet(pg.DNAGenerator):
  """Proposes exactly what the harness queued; StopIteration when empty."""

  def _setup(self):
    self._queue = collections.deque()

  def load(self, dnas):
    self._queue = collections.deque(dnas)

  def _propose(self):
    if not self._queue:
      raise StopIteration()
    return self._queue.popleft().clone(deep=True)


class PuppetFeedback(Puppet):
  """Same, but takes feedback (so Deduping accounts at feedback time)."""

  def _feedback(self, dna, reward):
    pass


class Counting(pg.DNAGenerator):
  """A user-defined generator (the documented extension point, recovering
  through the default `recover`): its next proposal is a function of its
  public counters and of the best reward it was fed back."""

  def _setup(self):
    self._all = list(self.dna_spec.iter_dna())
    self._best = 0.0

  def _propose(self):
    i = self.num_proposals + 2 * self.num_feedbacks + int(self._best * 4)
    return self._all[i % len(self._all)].clone(deep=True)

  def _feedback(self, dna, reward):
    self._best = max(self._best, reward)


@pg.geno.dna_generator
def drawn(dna_spec):
  """A generator function (`pg.geno.dna_generator`): state is not recovered,
  the counters are."""
  r = random.Random(7)
  while True:
    yield pg.random_dna(dna_spec, r)


def numbers(dna):
  return tuple(dna.to_numbers())


def amounts(dna):
  """The decisions as numbers (the string of a custom decision point counts
  as its decimal value, or else as a small number made of its characters)."""
  return [(int(x) if x.isdigit() else sum(map(ord, x)) % 11)
          if isinstance(x, str) else x for x in dna.to_numbers()]


def hash_sum(dna):
  """A colliding hash function for Deduping(hash_fn=...)."""
  return int(sum(round(x * 8) if isinstance(x, float) else x
                 for x in amounts(dna)))


def auto_reward(rewards):
  """Encodes the cache entry it is handed (length and known rewards)."""
  known = [r for r in rewards if isinstance(r, float)]
  return float(1000 * len(rewards) + 10 * len(known)) + sum(known)


def auto_reward_mo(rewards):
  known = [r for r in rewards if isinstance(r, tuple)]
  return (float(1000 * len(rewards) + 10 * len(known)), float(len(known)))


def reward_of(algo, dna, ordinal=0, tiebreak=False):
  """Reward of the `ordinal`-th proposal of a run (a function of the DNA)."""
  s = sum(amounts(dna))
  r = float(int(s * 2) % 5) * 0.5 + 0.1
  if tiebreak:
    # NEAT allocates offspring proportionally to (fitness - minimum) and
    # divides by zero when a whole generation has one fitness value.
    r += ordinal / 1024.0
  return (r, 3.0 - r + float(int(s) % 2)) if algo.multi_objective else r


# ---------------------------------------------------------------------------
# Configurations
# ---------------------------------------------------------------------------
# name -> (family used in mechanism keys, maker(params) -> algorithm,
#          parameter generator, history-determined?, needs no-float space?)

def _p_none(rng):
  return {}


SEED0_RATE = float(os.environ.get('PGVERIF_C15_SEED0_RATE', '0.1'))


def _seed(rng):
  # 0 is a legal seed (and falsy): a boundary value of its own.
  return 0 if rng.random() < SEED0_RATE else rng.randint(0, 999)


def _p_seed(rng):
  return {'seed': _seed(rng)}


def _p_regevo(rng):
  n = rng.randint(2, 5)
  return {'seed': _seed(rng), 'population_size': n,
          'tournament_size': rng.randint(2, n)}


def _p_hill(rng):
  return {'seed': _seed(rng), 'batch_size': rng.randint(1, 3),
          'init_population_size': rng.randint(1, 3)}


def _p_pop(rng):
  return {'seed': _seed(rng), 'population_size': rng.randint(2, 4)}


def _p_neat(rng):
  # NEAT reproduces from the evaluated members of the latest generation only
  # and needs two of them: the population must exceed W + 1.
  return {'seed': _seed(rng), 'population_size': rng.randint(5, 6)}


def _regevo(p):
  return evo.regularized_evolution(
      evo.mutators.Uniform(seed=p['seed']), population_size=p['population_size'],
      tournament_size=p['tournament_size'], seed=p['seed'])


def _hill(p):
  return evo.hill_climb(
      evo.mutators.Uniform(seed=p['seed']), batch_size=p['batch_size'],
      init_population_size=p['init_population_size'], seed=p['seed'])


def _nsga2(p):
  return evo.nsga2(evo.mutators.Uniform(seed=p['seed']),
                   population_size=p['population_size'], seed=p['seed'])


def _neat(p):
  return evo.neat(evo.mutators.Uniform(seed=p['seed']),
                  population_size=p['population_size'], seed=p['seed'])


# Deduping gives up after this many consecutive duplicates (the default, 100,
# only makes exhausted spaces expensive).
ATTEMPTS = 12

# `few` = run on one plain space and one with custom decision points only.
Config = collections.namedtuple(
    'Config', 'name family make params determined nofloat feedback few',
    defaults=(False, False))

CONFIGS = [
    Config('Sweeping', 'Sweeping', lambda p: G.Sweeping(), _p_none, True, True),
    Config('Random[seeded]', 'Random[seeded]',
           lambda p: G.Random(seed=p['seed']), _p_seed, True, False),
    Config('Random[unseeded]', 'Random[unseeded]',
           lambda p: G.Random(), _p_none, False, False),
    Config('regularized_evolution', 'regularized_evolution', _regevo, _p_regevo, False, False, True),
    Config('hill_climb', 'hill_climb', _hill, _p_hill, False, False, True),
    Config('nsga2', 'nsga2', _nsga2, _p_pop, False, False, True),
    Config('neat', 'neat', _neat, _p_neat, False, False, True),
    Config('Deduping(Sweeping)', 'Deduping(Sweeping)',
           lambda p: G.Deduping(G.Sweeping(), max_proposal_attempts=ATTEMPTS), _p_none, True, True),
    Config('Deduping(Sweeping,hash_fn)', 'Deduping(Sweeping)',
           lambda p: G.Deduping(G.Sweeping(), hash_fn=hash_sum,
                                max_proposal_attempts=ATTEMPTS), _p_none, True, True),
    Config('Deduping(Sweeping,max_duplicates=2)', 'Deduping(Sweeping)',
           lambda p: G.Deduping(G.Sweeping(), max_duplicates=2,
                                max_proposal_attempts=ATTEMPTS), _p_none, True, True),
    Config('Deduping(Random[seeded])', 'Deduping(Random[seeded])',
           lambda p: G.Deduping(G.Random(seed=p['seed']),
                                max_proposal_attempts=ATTEMPTS), _p_seed, True, False),
    Config('Deduping(Random[seeded],hash_fn)', 'Deduping(Random[seeded])',
           lambda p: G.Deduping(G.Random(seed=p['seed']), hash_fn=hash_sum,
                                max_proposal_attempts=ATTEMPTS),
           _p_seed, True, False),
    Config('Deduping(Random[seeded],max_duplicates=2)',
           'Deduping(Random[seeded])',
           lambda p: G.Deduping(G.Random(seed=p['seed']), max_duplicates=2,
                                max_proposal_attempts=ATTEMPTS),
           _p_seed, True, False),
    Config('Deduping(Random[unseeded])', 'Deduping(Random[unseeded])',
           lambda p: G.Deduping(G.Random(), max_proposal_attempts=ATTEMPTS), _p_none, False, False),
    Config('Deduping(regularized_evolution)', 'Deduping(regularized_evolution)',
           lambda p: G.Deduping(_regevo(p), max_proposal_attempts=ATTEMPTS), _p_regevo, False, False, True),
    Config('Deduping(regularized_evolution,auto_reward_fn,max_duplicates=2)',
           'Deduping(regularized_evolution,max_duplicates>1)',
           lambda p: G.Deduping(_regevo(p), auto_reward_fn=auto_reward, max_duplicates=2),
           _p_regevo, False, False, True),
    Config('Deduping(hill_climb,hash_fn)', 'Deduping(hill_climb)',
           lambda p: G.Deduping(_hill(p), hash_fn=hash_sum,
                                max_proposal_attempts=ATTEMPTS), _p_hill, False, False, True),
    Config('Deduping(nsga2,auto_reward_fn)', 'Deduping(nsga2)',
           lambda p: G.Deduping(_nsga2(p), auto_reward_fn=auto_reward_mo),
           _p_pop, False, False, True),
    Config('custom[counters+feedback]', 'custom[counters+feedback]',
           lambda p: Counting(), _p_none, True, True, True, True),
    Config('custom[dna_generator]', 'custom[dna_generator]',
           lambda p: drawn(), _p_none, False, False, False, True),
    Config('Deduping(puppet)', 'Deduping(puppet)',
           lambda p: G.Deduping(Puppet()), _p_none, False, False),
    Config('Deduping(puppet,hash_fn,max_duplicates=2)',
           'Deduping(puppet,max_duplicates>1)',
           lambda p: G.Deduping(Puppet(), hash_fn=hash_sum, max_duplicates=2),
           _p_none, False, False),
    Config('Deduping(puppet-feedback)', 'Deduping(puppet-feedback)',
           lambda p: G.Deduping(PuppetFeedback()), _p_none, False, False),
    Config('Deduping(puppet-feedback,hash_fn)', 'Deduping(puppet-feedback)',
           lambda p: G.Deduping(PuppetFeedback(), hash_fn=hash_sum),
           _p_none, False, False),
    Config('Deduping(puppet-feedback,auto_reward_fn,max_duplicates=2)',
           'Deduping(puppet-feedback,max_duplicates>1)',
           lambda p: G.Deduping(PuppetFeedback(), auto_reward_fn=auto_reward,
                                max_duplicates=2), _p_none, False, False),
]


def is_puppet(cfg):
  return 'puppet' in cfg.name


# ---------------------------------------------------------------------------
# Observation
# ---------------------------------------------------------------------------

def observe(algo):
  """Public state, one record per wrapper level (outermost first)."""
  levels = []
  x = algo
  while isinstance(x, pg.DNAGenerator) and len(levels) < 4:
    s = {'num_proposals': x.num_proposals, 'num_feedbacks': x.num_feedbacks}
    if isinstance(x, evo.Evolution):
      s['population'] = [(numbers(d), evo.get_fitness(d)) for d in x.population]
      # The counter every Evolution keeps in its global state (the other
      # entries belong to the operations of the algorithm).
      s['num_generations'] = x.num_generations
    levels.append(s)
    x = getattr(x, 'generator', None)
  return levels


def persist(history):
  """History through JSON: [(DNA, reward-or-None)]."""
  out = []
  for dna, reward in history:
    d = pg.from_json_str(pg.to_json_str(dna))
    r = None if reward is None else pg.from_json_str(pg.to_json_str(reward))
    out.append((d, r))
  return out


def lib_raised(e):
  """True if the innermost frame of the exception is not harness code."""
  tb = e.__traceback__
  while tb.tb_next is not None:
    tb = tb.tb_next
  return os.sep + 'pgverif' + os.sep not in tb.tb_frame.f_code.co_filename


class Live:
  """An uninterrupted run, driven one event at a time."""

  def __init__(self, ctx, cfg, params, spec, all_dnas, script_rng):
    self.ctx, self.cfg, self.spec = ctx, cfg, spec
    self.algo = cfg.make(params)
    ctx.label = 'setup:' + cfg.family
    self.algo.setup(spec)
    ctx.label = None
    self.history = []          # [dna, reward or None]
    self.pending = collections.deque()
    self.exhausted = False
    self.answered = 0
    self.all_dnas, self.script_rng = all_dnas, script_rng

  def propose(self):
    """One proposal; False when the algorithm has no more proposals."""
    ctx = self.ctx
    if self.exhausted:
      return False
    if is_puppet(self.cfg):
      # The inner generator proposes a few harness-chosen candidates; the
      # wrapper takes the first it does not de-duplicate.
      self.algo.generator.load(
          [self.script_rng.choice(self.all_dnas) for _ in range(4)])
    try:
      dna = self.algo.propose()
    except StopIteration:
      if is_puppet(self.cfg):
        return True            # every candidate was a duplicate: no proposal
      self.exhausted = True
      return False
    except Exception as e:  # pylint: disable=broad-except
      if not lib_raised(e):
        raise
      # The uninterrupted run itself failed: nothing to compare from here on
      # (the property is about recovery, see ASSUMPTIONS).
      ctx.counters['live_runs_ended_by_library_error'] += 1
      ctx.counters[f'live_runs_ended_by_library_error:{self.cfg.family}:'
                   f'{type(e).__name__}'] += 1
      self.exhausted = True
      return False
    ctx.counters['live_proposals'] += 1
    entry = [dna, None]
    self.history.append(entry)
    self.pending.append(entry)
    return True

  def feedback_oldest(self):
    if not self.pending:
      return
    entry = self.pending.popleft()
    dna = entry[0]
    # As pg.sample: a proposal that carries a reward (Deduping's
    # auto_reward_fn) is fed back with it, without evaluation.
    r = dna.metadata.get('reward') if 'dedup_key' in dna.metadata else None
    if r is not None:
      self.ctx.counters['auto_rewarded_proposals'] += 1
    else:
      self.answered += 1
      r = reward_of(self.algo, dna, self.answered, self.cfg.family == 'neat')
    self.ctx.label = 'live-feedback:' + self.cfg.family
    self.algo.feedback(dna, r)
    self.ctx.label = None
    entry[1] = r


# Forms in which the persisted history is handed to `recover` (documented
# parameter type: an Iterable of (DNA, reward-or-None) tuples).

class OnceIterable:
  """An Iterable (neither a sequence nor an iterator) that hands out its
  entries once, like a cursor over a store: a second iteration finds nothing
  left."""

  def __init__(self, entries):
    self._left = collections.deque(entries)

  def __iter__(self):
    while self._left:
      yield self._left.popleft()


class Unsized:
  """An Iterable that can be iterated repeatedly but has no len()/index."""

  def __init__(self, entries):
    self._entries = tuple(entries)

  def __iter__(self):
    return iter(self._entries)


# (name, kind, builder from a list of (dna, reward) tuples)
HISTORY_FORMS = [
    ('list', 'sequence', list),
    ('generator', 'one-shot', lambda h: (e for e in h)),
    ('tuple', 'sequence', tuple),
    ('zip', 'one-shot', lambda h: zip([d for d, _ in h], [r for _, r in h])),
    ('unsized-iterable', 'iterable', Unsized),
    ('iter(list)', 'one-shot', iter),
    ('once-iterable', 'one-shot', OnceIterable),
    ('map', 'one-shot', lambda h: map(tuple, [list(e) for e in h])),
    ('deque', 'iterable', collections.deque),
]
LIST_FORM = HISTORY_FORMS[0]
# Mechanism suffix of a difference that a list of the same entries does not
# show (established by recovering a second instance from the list).
FORM_SUFFIX = {'one-shot': '+one-shot-history', 'iterable': '+non-list-history'}


def next_form(ctx):
  """Rotates through the forms, crash point after crash point."""
  ctx.c15_turn += 1
  return HISTORY_FORMS[ctx.c15_turn % len(HISTORY_FORMS)]


# Deliveries: `recover` "could be called multiple times if there are multiple
# source of history" (documented), so the persisted history reaches the fresh
# instance in 1..4 consecutive pieces, one recover() call per piece. The
# classes of split points rotate with the crash points (8 deliveries x 9 forms,
# coprime): a piece may be empty (a source without trials), a cut may separate
# the answered proposals from the pending ones, or fall inside / right after
# the proposals that fill the initial population of an Evolution.
DELIVERIES = ['whole', 'empty-last', 'cut-before-pending', '3-pieces',
              'empty-first', 'cut-in-fill', '4-pieces', 'cut-after-fill']
WHOLE = ('whole', ())
PIECEWISE_SUFFIX = '+piecewise-history'


def evolution_of(algo):
  """The Evolution of a configuration (itself or under wrappers), or None."""
  x = algo
  for _ in range(4):
    if x is None or isinstance(x, evo.Evolution):
      return x
    x = getattr(x, 'generator', None)
  return None


def recover_owner(algo):
  if isinstance(algo, G.Deduping):
    return 'Deduping'
  if isinstance(algo, evo.Evolution):
    return 'Evolution'
  return 'DNAGenerator'


def fill_size(algo):
  """Number of fed-back proposals that complete the initial population of
  the Evolution in `algo` (its public `population_init` member), or None."""
  e = evolution_of(algo)
  if e is None or not isinstance(e.population_init, tuple):
    return None
  return e.population_init[1]


def cut_classes(cuts, k, a, fill):
  """Classes of the split points `cuts` of a history of `k` entries of which
  the first `a` are answered (harness facts only)."""
  out = set()
  if not cuts:
    return out
  bounds = [0] + list(cuts) + [k]
  if bounds[1] == 0:
    out.add('empty-first-piece')
  if bounds[-2] == k:
    out.add('empty-last-piece')
  if any(x == y for x, y in zip(bounds[1:-1], bounds[2:-1])):
    out.add('empty-middle-piece')
  if any(0 < c < k for c in cuts):
    out.add('interior-cut')
  if 0 < a < k and a in cuts:
    out.add('cut-before-pending')
  if any(a < c < k for c in cuts):
    out.add('cut-between-pending')
  if fill:
    # In-order feedback: h[:c] holds min(c, a) answered proposals.
    if any(0 < min(c, a) < fill and c < k for c in cuts):
      out.add('cut-inside-population-fill')
    if a >= fill and fill in cuts:
      out.add('cut-after-population-fill')
  return out


def plan_delivery(ctx, live):
  """(name, cuts) of the delivery of this crash point (rotating)."""
  name = DELIVERIES[ctx.c15_turn % len(DELIVERIES)]
  rng = ctx.rng
  k = len(live.history)
  a = k - len(live.pending)
  fill = fill_size(live.algo)

  def interior():
    return rng.randint(1, k - 1) if k >= 2 else rng.randint(0, k)

  if name == 'whole':
    cuts = []
  elif name == 'empty-first':
    cuts = [0]
  elif name == 'empty-last':
    cuts = [k]
  elif name == 'cut-before-pending':
    cuts = [a] if 0 < a < k else [interior()]
  elif name == 'cut-in-fill':
    upper = min(a, fill) if fill else 0
    cuts = [rng.randint(1, upper - 1)] if upper >= 2 else [interior()]
  elif name == 'cut-after-fill':
    cuts = [fill] if fill and a >= fill else [interior()]
  elif name == '3-pieces':
    cuts = sorted(rng.randint(0, k) for _ in range(2))
  else:
    marks = [0, k, a, rng.randint(0, k), rng.randint(0, k), rng.randint(0, k)]
    if fill and fill <= k:
      marks += [fill, rng.randint(0, fill)]
    cuts = sorted(rng.choice(marks) for _ in range(3))
  return name, tuple(cuts)


def recovered_instance(ctx, cfg, params, spec, h, form, diffs, cuts=()):
  """Fresh instance + recover() of `h`, cut at `cuts` into consecutive pieces
  that are handed over one recover() call each in the given form; None if
  recover raised (recorded in `diffs`)."""
  b = cfg.make(params)
  ctx.label = 'setup:' + cfg.family
  b.setup(spec)
  h = list(h)
  bounds = [0] + list(cuts) + [len(h)]
  for lo, hi in zip(bounds, bounds[1:]):
    handed = form[2](h[lo:hi])
    ctx.label = 'recover:' + cfg.family
    try:
      b.recover(handed)
    except Exception as e:  # pylint: disable=broad-except
      if not lib_raised(e):
        raise
      ctx.label = None
      diffs.append(('recover-raises', cfg.family, f'{type(e).__name__}: {e!s:.300}', {}))
      return None
    ctx.label = None
  return b


def report(ctx, cfg, params, live, diffs, form, base_diffs, delivery=None):
  """Reports the differences [(clause, mechanism, detail, witness extras)] of
  an instance recovered from a history in `form`, delivered as `delivery` =
  (name, cuts, classes of the cuts). `base_diffs(cuts)` = the differences of
  an instance recovered from lists of the same entries cut at `cuts`: what a
  single list shows as well is reported under the plain mechanism; what only
  the pieces show (as lists, too) gets the piecewise suffix, what only the
  other form shows the suffix of the form's kind."""
  if not diffs:
    return
  name, kind, _ = form
  dname, cuts, classes = delivery or (WHOLE[0], (), set())
  plain = pieces = None
  seen = set()
  top = type(live.algo).__name__ + '.recover'
  for clause, mech, detail, extra in diffs:
    if kind != 'sequence' or cuts:
      if plain is None:
        ctx.counters['history_form_attributions'] += 1
        plain = {(c, m) for c, m, _, _ in base_diffs(())}
      if (clause, mech) not in plain:
        piecewise = bool(cuts)
        if cuts and kind != 'sequence':
          if pieces is None:
            pieces = {(c, m) for c, m, _, _ in base_diffs(cuts)}
          piecewise = (clause, mech) in pieces
        if piecewise:
          # The recover() the pieces are handed to: the one of the outermost
          # generator (Deduping's, Evolution's, or the default one that
          # Sweeping, Random and user-defined generators share).
          mech = recover_owner(live.algo) + '.recover' + PIECEWISE_SUFFIX
          if 'cut-inside-population-fill' in classes:
            mech += '+cut-inside-population-fill'
          detail += (f' [history handed over in {len(cuts) + 1} recover() calls, cut at '
                     f'{list(cuts)} ({dname}: {sorted(classes)}); an instance that recovers '
                     'the same entries in one call does not show this]')
        else:
          # The outermost generator is the one that consumes the Iterable: its
          # recover() is the mechanism, whatever it wraps.
          mech = top + FORM_SUFFIX[kind]
          detail += (f' [history handed to recover() as {name}; an instance recovered '
                     'from a list of the same entries does not show this]')
    if (clause, mech) in seen:
      continue
    seen.add((clause, mech))
    ctx.violation(clause, mech, detail,
                  witness(cfg, params, live, history_form=name, delivery=dname,
                          cuts=list(cuts), **extra))


def witness(cfg, params, live, **kw):
  w = {'configuration': cfg.name, 'params': params,
       'history': [[list(numbers(d)), r] for d, r in live.history[-12:]],
       'missing_feedbacks': len(live.pending)}
  w.update(kw)
  return w


def compare_state(ctx, cfg, sa, b, pending_sfx, diffs, count=True, in_fill=False):
  """Counts and population at every wrapper level (`sa` = observe(live));
  `in_fill` = the uninterrupted run has not received the feedbacks that
  complete the initial population of its Evolution yet."""
  c = ctx.counters if count else collections.Counter()
  sb = observe(b)
  for depth, (la, lb) in enumerate(zip(sa, sb)):
    # Differences at the outer level are attributed to the configuration,
    # below it to the wrapper that is responsible for recovering its inner
    # generator.
    mech = cfg.family + pending_sfx if depth == 0 else 'Deduping.generator'
    # Proposals of an inner generator that its wrapper dropped as duplicates
    # are not in the history: the recovered inner count may lack them.
    dropped = 0
    if depth:
      dropped = max(0, la['num_proposals'] - sa[depth - 1]['num_proposals'])
      if dropped:
        c['count_compares_with_dropped_inner_proposals'] += 1
    for clause, key in (('num-proposals', 'num_proposals'),
                        ('num-feedbacks', 'num_feedbacks')):
      c['count_compares'] += 1
      slack = dropped if key == 'num_proposals' else 0
      if not la[key] - slack <= lb[key] <= la[key]:
        diffs.append((clause, mech,
                      f'level {depth}: uninterrupted {key}={la[key]}, recovered {lb[key]}',
                      {'live_state': sa, 'recovered_state': sb}))
    if 'population' in la:
      c['population_compares'] += 1
      c['population_members_compared'] += len(la['population'])
      if la['population'] != lb.get('population'):
        diffs.append(('population', mech,
                      f'level {depth}: uninterrupted population {la["population"]!r:.500} '
                      f'recovered {lb.get("population")!r:.500}', {}))
    if 'num_generations' in la:
      c['num_generations_compares'] += 1
      ga, gb = la['num_generations'], lb.get('num_generations')
      # Children that a wrapper dropped as duplicates are not in the history,
      # and neither is the generation they were the first proposal of.
      if not (ga == gb or (dropped and isinstance(gb, int) and gb <= ga)):
        diffs.append(('num-generations',
                      'Evolution' + ('+population-fill' if in_fill else ''),
                      f'level {depth}: uninterrupted num_generations={ga}, recovered {gb}',
                      {'live_state': sa, 'recovered_state': sb}))


def next_proposals(ctx, cfg, algo, m):
  out = []
  for _ in range(m):
    ctx.label = 'continue-propose:' + cfg.family
    try:
      out.append(numbers(algo.propose()))
    except StopIteration:
      out.append('stop')
      break
    finally:
      ctx.label = None
  return out


def probe_memory(ctx, cfg, algo, probes):
  """Which probe proposals are de-duplicated (and which rewards they carry)."""
  inner = algo.generator
  max_dup = algo.max_duplicates
  out = []
  for dna in probes:
    accepted, end = 0, 'limit'
    for _ in range(max_dup + 1):
      inner.load([dna])
      ctx.label = 'probe-propose:' + cfg.family
      try:
        d = algo.propose()
      except StopIteration:
        end = 'deduplicated'
        break
      finally:
        ctx.label = None
      r = d.metadata.get('reward')
      if r is not None:
        end = ('auto-reward', r)
        break
      accepted += 1
      if algo.needs_feedback:
        ctx.label = 'probe-feedback:' + cfg.family
        algo.feedback(d, reward_of(algo, d))
        ctx.label = None
    out.append((numbers(dna), accepted, end))
  return out


def remembered(probe, max_dup):
  """Number of entries the memory held for the probed DNA before the probe."""
  _, accepted, end = probe
  if end == 'deduplicated':
    return max_dup - accepted
  if isinstance(end, tuple):                 # ('auto-reward', auto_reward(...))
    return int(end[1] // 1000) - accepted
  return -1                                  # never de-duplicated


def memory_mechanism(live, pa, pb):
  """Mechanism of a dedup-memory difference, from harness facts only."""
  acct = 'accounted-at-feedback' if live.algo.needs_feedback else 'accounted-at-proposal'
  pend = '+pending' if live.pending else ''
  md = live.algo.max_duplicates
  ra = [remembered(x, md) for x in pa]
  rb = [remembered(x, md) for x in pb]
  more = any(y > x for x, y in zip(ra, rb))
  less = any(y < x for x, y in zip(ra, rb))
  if more and not less:
    how = 'recovered-remembers-more'
  elif less and not more:
    how = 'recovered-remembers-less'
  else:
    how = 'recovered-remembers-differently'
  return f'{acct}{pend}:{how}'


def check_crash_point(ctx, cfg, params, spec, live, path, destructive, m):
  """Recovers at the current point of `live`; returns (recovered instance or
  None, persisted history, form it was handed over in, delivery)."""
  c = ctx.counters
  j = len(live.pending)
  form = next_form(ctx)
  dname, cuts = plan_delivery(ctx, live)
  k = len(live.history)
  classes = cut_classes(cuts, k, k - j, fill_size(live.algo))
  delivery = (dname, cuts, classes)
  fill = fill_size(live.algo)
  in_fill = fill is not None and k - j < fill
  c['crash_points'] += 1
  if j:
    c['crash_points_pending'] += 1
  c['crash_points:' + cfg.family] += 1
  c[f'crash_points:{path}:missing={j}'] += 1
  c['crash_points:history-form=' + form[0]] += 1
  c['crash_points:delivery=' + dname] += 1
  c['recover_calls'] += len(cuts) + 1
  if cuts:
    c['crash_points_piecewise'] += 1
    c['crash_points_piecewise:' + cfg.family] += 1
  for cls in classes:
    c['crash_points:' + cls] += 1
  if form[1] == 'one-shot' and live.history:
    c['crash_points_one_shot_history'] += 1
  ctx.seen('crash_point_kinds', (cfg.name, path, len(live.history), j))
  ctx.seen('delivery_kinds', (cfg.family, form[0], tuple(sorted(classes))))
  sfx = '+pending' if (j and live.algo.needs_feedback) else ''
  mech = cfg.family + sfx
  h = persist(live.history)

  # The uninterrupted side is observed once (the destructive part last).
  lv = {'state': observe(live.algo)}
  b_diffs = []
  b = recovered_instance(ctx, cfg, params, spec, h, form, b_diffs, cuts)
  if destructive and b is not None:
    if cfg.determined:
      c['continuation_compares'] += 1
      lv['next'] = next_proposals(ctx, cfg, live.algo, m)
    if is_puppet(cfg):
      # Probe the DNAs that occur in the history (latest first) plus one that
      # does not.
      seen, probes = set(), []
      for d, _ in reversed(live.history):
        if numbers(d) not in seen:
          seen.add(numbers(d))
          probes.append(d)
      fresh = [d for d in live.all_dnas if numbers(d) not in seen]
      probes = probes[:4] + fresh[:1]
      c['dedup_memory_probes'] += len(probes)
      lv['probes'] = probes
      lv['memory'] = probe_memory(ctx, cfg, live.algo, probes)

  def examine(x, diffs, count):
    """Differences of the recovered instance `x` from the uninterrupted one."""
    compare_state(ctx, cfg, lv['state'], x, sfx, diffs, count, in_fill)
    if 'next' in lv:
      cb = next_proposals(ctx, cfg, x, m)
      if lv['next'] != cb:
        diffs.append(('continuation', mech,
                      f'uninterrupted run continues with {lv["next"]}, recovered with {cb}',
                      {}))
    if 'memory' in lv:
      pa, pb = lv['memory'], probe_memory(ctx, cfg, x, lv['probes'])
      if pa != pb:
        diff = [(p, q) for p, q in zip(pa, pb) if p != q]
        diffs.append(('dedup-memory', memory_mechanism(live, pa, pb),
                      '(dna, accepted before de-duplication, then): uninterrupted vs '
                      f'recovered {diff!r:.600}', {}))

  def base_diffs(at):
    diffs = []
    x = recovered_instance(ctx, cfg, params, spec, h, LIST_FORM, diffs, at)
    if x is not None:
      examine(x, diffs, False)
    return diffs

  if b is None:
    c['recover_raised'] += 1
  else:
    examine(b, b_diffs, True)
  report(ctx, cfg, params, live, b_diffs, form, base_diffs, delivery)
  return b, h, form, delivery


# ---------------------------------------------------------------------------
# Cases
# ---------------------------------------------------------------------------

def needs_tail(cfg):
  """Does the feedback schedule matter for the state of this configuration?"""
  return is_puppet(cfg) or cfg.feedback


def case_cost(cfg, weight, n):
  """Rough relative cost of a case (for balancing the shards; factors fitted
  to measured CPU times)."""
  runs = 1.0
  if is_puppet(cfg):
    runs = 4.0
  elif cfg.feedback:
    runs = 3.0
  if 'Random[seeded]' in cfg.name:
    runs *= 4.0
  if cfg.family == 'neat':
    runs *= 2.0
  if 'nsga2' in cfg.name:
    runs *= 1.6
  return runs * (weight + 0.5) * n * n


def is_sweep(cfg):
  return cfg.nofloat


def admits(cfg, sp):
  if cfg.nofloat and sp.has_float:
    return False
  if is_puppet(cfg) and (sp.weight > PUPPET_MAX_WEIGHT or sp.n_min):
    return False
  return True


def case_table(ctx):
  """[(config index, space index, N)], the same in every shard."""
  spaces = make_spaces()
  customs = make_custom_spaces()
  per = int(ctx.params['per_config'])
  per_custom = int(ctx.params['per_custom'])
  per_custom_sweep = int(ctx.params['per_custom_sweep'])
  table, turn, cturn = [], 0, 0
  for ci, cfg in enumerate(CONFIGS):
    admitted = [si for si, sp in enumerate(spaces) if admits(cfg, sp)]
    chosen = []
    for _ in range(min(1 if cfg.few else per, len(admitted))):
      # Rotate through all spaces over the configurations.
      while True:
        si = turn % len(spaces)
        turn += 1
        if si in admitted and si not in chosen:
          chosen.append(si)
          break
    # Spaces with custom decision points (the sweep order is theirs to
    # define), rotating: `per_custom_sweep` of them for the sweeping
    # configurations, `per_custom` for the others.
    admitted = [si for si, sp in enumerate(customs) if admits(cfg, sp)]
    want = min(per_custom_sweep if is_sweep(cfg) else per_custom, len(admitted))
    if cfg.few:
      want = min(want, 1)
    cchosen = []
    while len(cchosen) < want:
      si = cturn % len(customs)
      cturn += 1
      if si in admitted and si not in cchosen:
        cchosen.append(si)
    chosen += [len(spaces) + si for si in cchosen]
    both = spaces + customs
    for si in chosen:
      for n in sorted({max(n, both[si].n_min) for n in ctx.params['Ns']}):
        table.append((ci, si, n))
  return table


def setup(ctx):
  spaces = make_spaces() + make_custom_spaces()
  table = case_table(ctx)
  # Longest-processing-time-first assignment of the cases to the shards.
  order = sorted(range(len(table)), key=lambda t: (-case_cost(
      CONFIGS[table[t][0]], spaces[table[t][1]].weight, table[t][2]), t))
  load = [0.0] * ctx.nshards
  mine = []
  for t in order:
    s = min(range(ctx.nshards), key=lambda x: (load[x], x))
    load[s] += case_cost(CONFIGS[table[t][0]], spaces[table[t][1]].weight, table[t][2])
    if s == ctx.shard:
      mine.append(table[t])
  ctx.table = mine
  ctx.spaces = spaces
  ctx.notes['configurations'] = [c.name for c in CONFIGS]
  ctx.notes['spaces'] = [s.name for s in spaces]
  ctx.notes['history_forms'] = [f[0] for f in HISTORY_FORMS]
  ctx.notes['deliveries'] = list(DELIVERIES)
  ctx.notes['cases_total'] = len(table)
  ctx.notes['configuration_x_space'] = len({(a, b) for a, b, _ in table})


def cases(ctx):
  return len(ctx.table)


def run_case(ctx, i):
  ci, si, n = ctx.table[i]
  cfg = CONFIGS[ci]
  sp = ctx.spaces[si]
  sname, spec, has_float = sp.name, sp.spec, sp.has_float
  rng = ctx.rng
  # The form of the history handed to recover() rotates from crash point to
  # crash point, from a start that depends on the seed.
  ctx.c15_turn = ctx.seed * 7 + i
  params = cfg.params(rng)
  if 'seed' in params and si % 3 == ctx.seed % 3:
    # Every seeded configuration is run with the boundary seed 0 (legal, and
    # falsy) on one of the spaces it is given.
    params['seed'] = 0
  wmax, m = ctx.params['W'], ctx.params['M']
  c = ctx.counters
  c['cases'] += 1
  all_dnas = []
  if is_puppet(cfg):
    if has_float:
      r2 = random.Random(rng.random())
      all_dnas = [pg.random_dna(spec, r2) for _ in range(6)]
    else:
      all_dnas = list(spec.iter_dna())
  st = {'longest': [], 'deep': 0, 'sample': None}

  def note(live, **kw):
    if len(live.history) >= 2:
      st['deep'] += 1
    if len(live.history) > len(st['longest']):
      st['longest'] = [numbers(d) for d, _ in live.history]
    if st['sample'] is None and len(live.history) >= min(n, 4) and live.pending:
      st['sample'] = witness(cfg, params, live, space=sname, N=n, **kw)

  def new_live(salt):
    return Live(ctx, cfg, params, spec, all_dnas, ctx.case_rng(i, salt))

  # -- schedule "lag": feedback i arrives after proposal i+w -----------------
  for w in range(wmax + 1):
    live = new_live(f'lag/{w}')
    recovered = []
    check_crash_point(ctx, cfg, params, spec, live, 'lag', False, m)
    if sp.custom:
      c['crash_points_custom_space'] += 1
    for _ in range(n):
      if not live.propose():
        break
      if len(live.pending) > w:
        live.feedback_oldest()
      b, h, form, delivery = check_crash_point(
          ctx, cfg, params, spec, live, 'lag', False, m)
      recovered.append((len(live.history), b, h, form, delivery))
      if sp.custom:
        c['crash_points_custom_space'] += 1
      note(live, schedule='lag', w=w)
    if live.exhausted:
      c['runs_ended_early'] += 1
    if cfg.determined and not is_puppet(cfg):
      # The uninterrupted run goes on for M more proposals; each recovered
      # instance must continue with what the live one proposed after its
      # crash point.
      for _ in range(m):
        if not live.propose():
          break
      future = [numbers(d) for d, _ in live.history]
      for at, b, h, form, delivery in recovered:
        if b is None:
          continue
        c['continuation_compares'] += 1
        # Feedbacks keep arriving between the later proposals of this run: a
        # configuration whose proposals depend on them is compared on the
        # proposal that follows the crash point (and on M proposals without
        # feedback at the end of schedule "tail").
        ahead = 1 if cfg.feedback else m
        exp = future[at:at + ahead]
        if len(exp) < ahead and live.exhausted:
          exp.append('stop')

        def continuation(x, exp=exp, at=at):
          got = next_proposals(ctx, cfg, x, m)[:len(exp)]
          if got == exp:
            return []
          return [('continuation', cfg.family,
                   f'after {at} proposals the uninterrupted run continues with {exp}, '
                   f'the recovered one with {got}', {'crash_point': at})]

        def base_diffs(cuts, h=h, continuation=continuation):
          diffs = []
          x = recovered_instance(ctx, cfg, params, spec, h, LIST_FORM,
                                 diffs, cuts)
          return diffs if x is None else continuation(x)

        report(ctx, cfg, params, live, continuation(b), form, base_diffs, delivery)
    elif cfg.feedback:
      # Evolution-based: the proposal that follows a crash point is either a
      # member of the initial population or a child of the population (public
      # `is_initial_population` of the DNA): which of the two is decided by
      # the history (the number of feedbacks), not by the seed. No feedback
      # lies between a crash point and the next proposal of this schedule.
      for at, b, h, form, delivery in recovered:
        if b is None or at >= len(live.history):
          continue
        exp = evo.is_initial_population(live.history[at][0])

        def phase(x, exp=exp, at=at):
          c['phase_compares'] += 1
          ctx.label = 'continue-propose:' + cfg.family
          try:
            got = evo.is_initial_population(x.propose())
          except StopIteration:
            c['phase_compares_without_proposal'] += 1
            return []
          except Exception as e:  # pylint: disable=broad-except
            if not lib_raised(e):
              raise
            # As for the uninterrupted run (see ASSUMPTIONS): how an Evolution
            # reproduces is not part of the compared state; the recovered one
            # reproduces anew where the live one still had children of its
            # latest batch to hand out.
            c['phase_probes_ended_by_library_error'] += 1
            c[f'phase_probes_ended_by_library_error:{cfg.family}:{type(e).__name__}'] += 1
            return []
          finally:
            ctx.label = None
          if got == exp:
            return []
          word = {True: 'a member of the initial population',
                  False: 'a child of the population'}
          return [('phase', cfg.family,
                   f'after {at} proposals the uninterrupted run proposes {word[exp]}, '
                   f'the recovered one {word[got]}', {'crash_point': at})]

        def base_phase(cuts, h=h, phase=phase):
          diffs = []
          x = recovered_instance(ctx, cfg, params, spec, h, LIST_FORM,
                                 diffs, cuts)
          return diffs if x is None else phase(x)

        report(ctx, cfg, params, live, phase(b), form, base_phase, delivery)

  # -- schedule "tail": answered proposals, then unanswered ones -------------
  if is_puppet(cfg):
    # A fresh run for every (k, w): the probe of the memory is destructive.
    for w in range(wmax + 1):
      for k in range(n + 1):
        live = new_live(f'tail/{w}/{k}')
        for p in range(k):
          live.propose()
          if p < k - w:
            live.feedback_oldest()
        check_crash_point(ctx, cfg, params, spec, live, 'tail', True, m)
        note(live, schedule='tail', w=w, crash_point=k)
  elif needs_tail(cfg):
    # (j, 0) is the crash point (j, 0) of schedule "lag" with w = 0.
    for j in range(n):
      live = new_live(f'tail/{j}')
      ok = True
      for _ in range(j):
        ok = ok and live.propose()
        live.feedback_oldest()
      for w in range(1, wmax + 1):
        if not ok or j + w > n or not live.propose():
          break
        last = w == wmax or j + w == n
        check_crash_point(ctx, cfg, params, spec, live, 'tail', last, m)
        note(live, schedule='tail', w=w, crash_point=j + w)
      if live.exhausted:
        c['runs_ended_early'] += 1

  if st['deep']:
    ctx.mark_nontrivial((cfg.name, sorted(params.items()), sname, n, st['longest']))
  ctx.seen('live_histories', (cfg.name, sname, st['longest']))
  if i < 2 and st['sample'] is not None:
    ctx.sample(st['sample'])
