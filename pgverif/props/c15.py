"""C15 — search algorithms recover their state from history at every crash point.

Two live instances side by side: an uninterrupted one and a fresh one that is
set up on the same space and `recover`s the JSON-persisted history.  State is
read through public attributes only (`num_proposals`, `num_feedbacks`,
`population` + `get_fitness`, `generator`), the de-duplication memory is
observed behaviourally (which later proposals are de-duplicated / which
rewards `auto_reward_fn` is handed), history-determined algorithms must go on
with identical proposals.
"""
import collections
import os
import random

import pyglove as pg
from pyglove.ext import evolution as evo

G = pg.geno

TIERS = {
    'quick': dict(shards=8, Ns=[10], W=3, M=3, spaces=8, timeout_s=600),
    'thorough': dict(shards=16, Ns=[6, 12, 24], W=3, M=4, spaces=8,
                     timeout_s=3000, case_timeout_s=600),
}
LEVEL = 'fault_enumeration'
EXHAUSTIVE = {'quick': False, 'thorough': False}
RULE = ('case = (algorithm configuration, search space, run length N, feedback '
        'pattern); inside a case EVERY crash point is executed: pattern "tail" = '
        'for every w in 0..W and every k in 0..N a fresh uninterrupted run of k '
        'proposals whose last min(w,k) feedbacks are missing; pattern "lag" = for '
        'every w one run of N proposals in which feedback i arrives after '
        'proposal i+w, stopped after every proposal. At each crash point the '
        'history (DNA with metadata, reward or None) goes through JSON, a fresh '
        'instance is set up and recovers it, and proposal/feedback counts at '
        'every wrapper level, population with fitness, the de-duplication memory '
        '(probe proposals through a harness-driven inner generator) and, for '
        'history-determined algorithms, the next M proposals are compared. '
        'Algorithm seeds and sizes are drawn from the case RNG. Non-trivial = '
        'the case compared at least one crash point with k >= 2; distinct by '
        '(configuration, parameters, space, N, pattern, longest live history).')
REQUIRED_COUNTERS = ['crash_points', 'crash_points_pending', 'count_compares',
                     'population_compares', 'continuation_compares',
                     'dedup_memory_probes']
ASSUMPTIONS = [
    'feedback is given in proposal order (as the quantifier states); rewards are a deterministic function of the DNA',
    'the history is persisted at the crash point: each DNA (with the metadata the algorithm attached so far) and each reward go through pg.to_json_str/from_json_str',
    'Sweeping (alone or under Deduping) is not run on spaces with float decision points (documented as unsupported by next_dna)',
    'continuation is compared only for sweeping, seeded random and Deduping over them; evolution-based algorithms are compared on counts and population with fitness',
    'state of the population initializer of an Evolution and its global_state are not part of the compared state (not named by the property)',
    'de-duplication memory is probed with a harness-defined inner DNAGenerator (the documented extension point) whose next proposal the harness dictates',
]


# ---------------------------------------------------------------------------
# Spaces
# ---------------------------------------------------------------------------

def _c(n):
  return [G.constant() for _ in range(n)]


def make_spaces():
  """[(name, spec, has_float)] — small spaces so that duplicates are frequent."""
  return [
      ('oneof3', G.space([G.oneof(_c(3))]), False),
      ('oneof4-manyof2of3-oneof3',
       G.space([G.oneof(_c(4)), G.manyof(2, _c(3), distinct=True), G.oneof(_c(3))]), False),
      ('conditional+float',
       G.space([G.oneof([G.space([G.oneof(_c(2))]), G.constant(), G.constant()]),
                G.floatv(0.0, 1.0)]), True),
      ('oneof3-oneof2', G.space([G.oneof(_c(3)), G.oneof(_c(2))]), False),
      ('manyof2of4-sorted',
       G.space([G.manyof(2, _c(4), distinct=True, sorted=True)]), False),
      ('oneof2', G.space([G.oneof(_c(2))]), False),
      ('nested-conditional',
       G.space([G.oneof([G.space([G.oneof(_c(2)), G.oneof(_c(2))]),
                         G.space([G.manyof(2, _c(2), distinct=False)]),
                         G.constant()]),
                G.oneof(_c(2))]), False),
      ('float-oneof2', G.space([G.floatv(-1.0, 1.0), G.oneof(_c(2))]), True),
  ]


# ---------------------------------------------------------------------------
# Harness-driven inner generators (probe of the de-duplication memory)
# ---------------------------------------------------------------------------

class Puppet(pg.DNAGenerator):
  """Proposes exactly what the harness queued; StopIteration when empty."""

  def _setup(self):
    self._queue = collections.deque()

  def load(self, dnas):
    self._queue = collections.deque(dnas)

  def _propose(self):
    if not self._queue:
      raise StopIteration()
    return self._queue.popleft().clone(deep=True)


class PuppetFeedback(Puppet):
  """Same, but takes feedback (so Deduping accounts at feedback time)."""

  def _feedback(self, dna, reward):
    pass


def numbers(dna):
  return tuple(dna.to_numbers())


def hash_sum(dna):
  """A colliding hash function for Deduping(hash_fn=...)."""
  return int(sum(round(x * 8) if isinstance(x, float) else x
                 for x in dna.to_numbers()))


def auto_reward(rewards):
  """Encodes the cache entry it is handed (length and known rewards)."""
  known = [r for r in rewards if isinstance(r, float)]
  return float(1000 * len(rewards) + 10 * len(known)) + sum(known)


def auto_reward_mo(rewards):
  known = [r for r in rewards if isinstance(r, tuple)]
  return (float(1000 * len(rewards) + 10 * len(known)), float(len(known)))


def reward_of(algo, dna):
  s = sum(dna.to_numbers())
  r = float(int(s * 2) % 5) * 0.5 + 0.1
  return (r, 3.0 - r + float(int(s) % 2)) if algo.multi_objective else r


# ---------------------------------------------------------------------------
# Configurations
# ---------------------------------------------------------------------------
# name -> (family used in mechanism keys, maker(params) -> algorithm,
#          parameter generator, history-determined?, needs no-float space?)

def _p_none(rng):
  return {}


def _p_seed(rng):
  return {'seed': rng.randint(0, 999)}


def _p_regevo(rng):
  n = rng.randint(2, 5)
  return {'seed': rng.randint(0, 999), 'population_size': n,
          'tournament_size': rng.randint(2, n)}


def _p_hill(rng):
  return {'seed': rng.randint(0, 999), 'batch_size': rng.randint(1, 3),
          'init_population_size': rng.randint(1, 3)}


def _p_pop(rng):
  return {'seed': rng.randint(0, 999), 'population_size': rng.randint(2, 4)}


def _regevo(p):
  return evo.regularized_evolution(
      evo.mutators.Uniform(seed=p['seed']), population_size=p['population_size'],
      tournament_size=p['tournament_size'], seed=p['seed'])


def _hill(p):
  return evo.hill_climb(
      evo.mutators.Uniform(seed=p['seed']), batch_size=p['batch_size'],
      init_population_size=p['init_population_size'], seed=p['seed'])


def _nsga2(p):
  return evo.nsga2(evo.mutators.Uniform(seed=p['seed']),
                   population_size=p['population_size'], seed=p['seed'])


def _neat(p):
  return evo.neat(evo.mutators.Uniform(seed=p['seed']),
                  population_size=p['population_size'], seed=p['seed'])


Config = collections.namedtuple(
    'Config', 'name family make params determined nofloat')

CONFIGS = [
    Config('Sweeping', 'Sweeping', lambda p: G.Sweeping(), _p_none, True, True),
    Config('Random[seeded]', 'Random[seeded]',
           lambda p: G.Random(seed=p['seed']), _p_seed, True, False),
    Config('Random[unseeded]', 'Random[unseeded]',
           lambda p: G.Random(), _p_none, False, False),
    Config('regularized_evolution', 'regularized_evolution', _regevo, _p_regevo, False, False),
    Config('hill_climb', 'hill_climb', _hill, _p_hill, False, False),
    Config('nsga2', 'nsga2', _nsga2, _p_pop, False, False),
    Config('neat', 'neat', _neat, _p_pop, False, False),
    Config('Deduping(Sweeping)', 'Deduping(Sweeping)',
           lambda p: G.Deduping(G.Sweeping()), _p_none, True, True),
    Config('Deduping(Sweeping,hash_fn)', 'Deduping(Sweeping)',
           lambda p: G.Deduping(G.Sweeping(), hash_fn=hash_sum), _p_none, True, True),
    Config('Deduping(Random[seeded])', 'Deduping(Random[seeded])',
           lambda p: G.Deduping(G.Random(seed=p['seed'])), _p_seed, True, False),
    Config('Deduping(Random[seeded],hash_fn)', 'Deduping(Random[seeded])',
           lambda p: G.Deduping(G.Random(seed=p['seed']), hash_fn=hash_sum),
           _p_seed, True, False),
    Config('Deduping(Random[seeded],max_duplicates=2)',
           'Deduping(Random[seeded],max_duplicates>1)',
           lambda p: G.Deduping(G.Random(seed=p['seed']), max_duplicates=2),
           _p_seed, True, False),
    Config('Deduping(Random[unseeded])', 'Deduping(Random[unseeded])',
           lambda p: G.Deduping(G.Random()), _p_none, False, False),
    Config('Deduping(regularized_evolution)', 'Deduping(regularized_evolution)',
           lambda p: G.Deduping(_regevo(p)), _p_regevo, False, False),
    Config('Deduping(regularized_evolution,auto_reward_fn,max_duplicates=2)',
           'Deduping(regularized_evolution,max_duplicates>1)',
           lambda p: G.Deduping(_regevo(p), auto_reward_fn=auto_reward, max_duplicates=2),
           _p_regevo, False, False),
    Config('Deduping(hill_climb,hash_fn)', 'Deduping(hill_climb)',
           lambda p: G.Deduping(_hill(p), hash_fn=hash_sum), _p_hill, False, False),
    Config('Deduping(nsga2,auto_reward_fn)', 'Deduping(nsga2)',
           lambda p: G.Deduping(_nsga2(p), auto_reward_fn=auto_reward_mo),
           _p_pop, False, False),
    Config('Deduping(puppet)', 'Deduping(puppet)',
           lambda p: G.Deduping(Puppet()), _p_none, False, False),
    Config('Deduping(puppet,hash_fn,max_duplicates=2)',
           'Deduping(puppet,max_duplicates>1)',
           lambda p: G.Deduping(Puppet(), hash_fn=hash_sum, max_duplicates=2),
           _p_none, False, False),
    Config('Deduping(puppet-feedback)', 'Deduping(puppet-feedback)',
           lambda p: G.Deduping(PuppetFeedback()), _p_none, False, False),
    Config('Deduping(puppet-feedback,hash_fn)', 'Deduping(puppet-feedback)',
           lambda p: G.Deduping(PuppetFeedback(), hash_fn=hash_sum),
           _p_none, False, False),
    Config('Deduping(puppet-feedback,auto_reward_fn,max_duplicates=2)',
           'Deduping(puppet-feedback,max_duplicates>1)',
           lambda p: G.Deduping(PuppetFeedback(), auto_reward_fn=auto_reward,
                                max_duplicates=2), _p_none, False, False),
]


def is_puppet(cfg):
  return 'puppet' in cfg.name


# ---------------------------------------------------------------------------
# Observation
# ---------------------------------------------------------------------------

def observe(algo):
  """Public state, one record per wrapper level (outermost first)."""
  levels = []
  x = algo
  while isinstance(x, pg.DNAGenerator) and len(levels) < 4:
    s = {'num_proposals': x.num_proposals, 'num_feedbacks': x.num_feedbacks}
    if isinstance(x, evo.Evolution):
      s['population'] = [(numbers(d), evo.get_fitness(d)) for d in x.population]
    levels.append(s)
    x = getattr(x, 'generator', None)
  return levels


def persist(history):
  """History through JSON: [(DNA, reward-or-None)]."""
  out = []
  for dna, reward in history:
    d = pg.from_json_str(pg.to_json_str(dna))
    r = None if reward is None else pg.from_json_str(pg.to_json_str(reward))
    out.append((d, r))
  return out


def lib_raised(e):
  """True if the innermost frame of the exception is not harness code."""
  tb = e.__traceback__
  while tb.tb_next is not None:
    tb = tb.tb_next
  return os.sep + 'pgverif' + os.sep not in tb.tb_frame.f_code.co_filename


class Live:
  """An uninterrupted run, driven one event at a time."""

  def __init__(self, ctx, cfg, params, spec, all_dnas, script_rng):
    self.ctx, self.cfg, self.spec = ctx, cfg, spec
    self.algo = cfg.make(params)
    ctx.label = 'setup:' + cfg.family
    self.algo.setup(spec)
    ctx.label = None
    self.history = []          # [dna, reward or None]
    self.pending = collections.deque()
    self.exhausted = False
    self.all_dnas, self.script_rng = all_dnas, script_rng

  def propose(self):
    """One proposal; False when the algorithm has no more proposals."""
    ctx = self.ctx
    if is_puppet(self.cfg):
      # The inner generator proposes a few harness-chosen candidates; the
      # wrapper takes the first it does not de-duplicate.
      self.algo.generator.load(
          [self.script_rng.choice(self.all_dnas) for _ in range(4)])
    ctx.label = 'live-propose:' + self.cfg.family
    try:
      dna = self.algo.propose()
    except StopIteration:
      ctx.label = None
      if is_puppet(self.cfg):
        return True            # every candidate was a duplicate: no proposal
      self.exhausted = True
      return False
    ctx.label = None
    ctx.counters['live_proposals'] += 1
    entry = [dna, None]
    self.history.append(entry)
    self.pending.append(entry)
    return True

  def feedback_oldest(self):
    if not self.pending:
      return
    entry = self.pending.popleft()
    dna = entry[0]
    r = dna.metadata.get('reward') if 'dedup_key' in dna.metadata else None
    if r is not None:
      self.ctx.counters['auto_rewarded_proposals'] += 1
    else:
      r = reward_of(self.algo, dna)
    self.ctx.label = 'live-feedback:' + self.cfg.family
    self.algo.feedback(dna, r)
    self.ctx.label = None
    entry[1] = r


def recovered_instance(ctx, cfg, params, spec, live, mech):
  """Fresh instance + recover(JSON history); None if recover raised."""
  h = persist(live.history)
  b = cfg.make(params)
  ctx.label = 'setup:' + cfg.family
  b.setup(spec)
  ctx.label = 'recover:' + cfg.family
  try:
    b.recover(h)
  except Exception as e:  # pylint: disable=broad-except
    if not lib_raised(e):
      raise
    ctx.label = None
    ctx.violation('recover-raises', mech,
                  f'{type(e).__name__}: {e!s:.300}', witness(cfg, params, live))
    return None
  ctx.label = None
  return b


def witness(cfg, params, live, **kw):
  w = {'configuration': cfg.name, 'params': params,
       'history': [[list(numbers(d)), r] for d, r in live.history[-12:]],
       'missing_feedbacks': len(live.pending)}
  w.update(kw)
  return w


def compare_state(ctx, cfg, params, live, b, pending_sfx):
  """Counts and population at every wrapper level. Returns True if equal."""
  c = ctx.counters
  sa, sb = observe(live.algo), observe(b)
  ok = True
  for depth, (la, lb) in enumerate(zip(sa, sb)):
    # Differences at the outer level are attributed to the configuration,
    # below it to the wrapper that is responsible for recovering its inner
    # generator.
    mech = cfg.family + pending_sfx if depth == 0 else 'Deduping.generator'
    for clause, key in (('num-proposals', 'num_proposals'),
                        ('num-feedbacks', 'num_feedbacks')):
      c['count_compares'] += 1
      if la[key] != lb[key]:
        ok = False
        ctx.violation(clause, mech,
                      f'level {depth}: uninterrupted {key}={la[key]}, recovered {lb[key]}',
                      witness(cfg, params, live, live_state=sa, recovered_state=sb))
    if 'population' in la:
      c['population_compares'] += 1
      c['population_members_compared'] += len(la['population'])
      if la['population'] != lb.get('population'):
        ok = False
        ctx.violation('population', mech,
                      f'level {depth}: uninterrupted population {la["population"]!r:.500} '
                      f'recovered {lb.get("population")!r:.500}',
                      witness(cfg, params, live))
  return ok


def next_proposals(ctx, cfg, algo, m):
  out = []
  for _ in range(m):
    ctx.label = 'continue-propose:' + cfg.family
    try:
      out.append(numbers(algo.propose()))
    except StopIteration:
      out.append('stop')
      break
    finally:
      ctx.label = None
  return out


def probe_memory(ctx, cfg, algo, probes):
  """Which probe proposals are de-duplicated (and which rewards they carry)."""
  inner = algo.generator
  max_dup = algo.max_duplicates
  out = []
  for dna in probes:
    accepted, end = 0, 'limit'
    for _ in range(max_dup + 1):
      inner.load([dna])
      ctx.label = 'probe-propose:' + cfg.family
      try:
        d = algo.propose()
      except StopIteration:
        end = 'deduplicated'
        break
      finally:
        ctx.label = None
      r = d.metadata.get('reward')
      if r is not None:
        end = ('auto-reward', r)
        break
      accepted += 1
      if algo.needs_feedback:
        ctx.label = 'probe-feedback:' + cfg.family
        algo.feedback(d, reward_of(algo, d))
        ctx.label = None
    out.append((numbers(dna), accepted, end))
  return out


def check_crash_point(ctx, cfg, params, spec, live, k, destructive, m):
  """Recovers at the current point of `live`; returns the recovered instance."""
  c = ctx.counters
  j = len(live.pending)
  c['crash_points'] += 1
  if j:
    c['crash_points_pending'] += 1
  c['crash_points:' + cfg.family] += 1
  ctx.seen('crash_point_kinds', (cfg.name, len(live.history), j))
  sfx = '+pending' if (j and live.algo.needs_feedback) else ''
  mech = cfg.family + sfx
  b = recovered_instance(ctx, cfg, params, spec, live, mech)
  if b is None:
    return None
  compare_state(ctx, cfg, params, live, b, sfx)
  if not destructive:
    return b
  if cfg.determined:
    c['continuation_compares'] += 1
    ca = next_proposals(ctx, cfg, live.algo, m)
    cb = next_proposals(ctx, cfg, b, m)
    if ca != cb:
      ctx.violation('continuation', mech,
                    f'uninterrupted run continues with {ca}, recovered with {cb}',
                    witness(cfg, params, live))
  if is_puppet(cfg):
    # Probe every DNA that occurs in the history plus a few that do not.
    seen, probes = set(), []
    for d, _ in live.history:
      if numbers(d) not in seen:
        seen.add(numbers(d))
        probes.append(d)
    fresh = [d for d in live.all_dnas if numbers(d) not in seen]
    probes = probes[-6:] + fresh[:2]
    c['dedup_memory_probes'] += len(probes)
    pa = probe_memory(ctx, cfg, live.algo, probes)
    pb = probe_memory(ctx, cfg, b, probes)
    if pa != pb:
      diff = [(x, y) for x, y in zip(pa, pb) if x != y]
      ctx.violation('dedup-memory', mech,
                    '(dna, accepted before de-duplication, then): uninterrupted vs '
                    f'recovered {diff!r:.600}', witness(cfg, params, live))
  return b


# ---------------------------------------------------------------------------
# Cases
# ---------------------------------------------------------------------------

def case_table(ctx):
  spaces = make_spaces()[:ctx.params['spaces']]
  table = []
  for ci, cfg in enumerate(CONFIGS):
    for si, (_, _, has_float) in enumerate(spaces):
      if cfg.nofloat and has_float:
        continue
      for n in ctx.params['Ns']:
        for pattern in ('tail', 'lag'):
          table.append((ci, si, n, pattern))
  return table


def setup(ctx):
  ctx.table = [t for i, t in enumerate(case_table(ctx)) if i % ctx.nshards == ctx.shard]
  ctx.spaces = make_spaces()
  ctx.notes['configurations'] = [c.name for c in CONFIGS]
  ctx.notes['spaces'] = [s[0] for s in ctx.spaces[:ctx.params['spaces']]]
  ctx.notes['cases_total'] = len(case_table(ctx))


def cases(ctx):
  return len(ctx.table)


def run_case(ctx, i):
  ci, si, n, pattern = ctx.table[i]
  cfg = CONFIGS[ci]
  sname, spec, _ = ctx.spaces[si]
  rng = ctx.rng
  params = cfg.params(rng)
  wmax, m = ctx.params['W'], ctx.params['M']
  c = ctx.counters
  c['cases:' + pattern] += 1
  all_dnas = []
  if is_puppet(cfg):
    if spec.space_size > 0 and spec.space_size <= 64:
      all_dnas = list(spec.iter_dna())
    else:
      r2 = random.Random(rng.random())
      all_dnas = [pg.random_dna(spec, r2) for _ in range(8)]
  longest, deep_points = [], 0
  sample = None

  for w in range(wmax + 1):
    if pattern == 'tail':
      for k in range(n + 1):
        script_rng = ctx.case_rng(i, f'script/{w}/{k}')
        live = Live(ctx, cfg, params, spec, all_dnas, script_rng)
        for p in range(k):
          if not live.propose():
            break
          if p < k - w:
            live.feedback_oldest()
        check_crash_point(ctx, cfg, params, spec, live, k, True, m)
        if len(live.history) >= 2:
          deep_points += 1
        if len(live.history) > len(longest):
          longest = [numbers(d) for d, _ in live.history]
        if sample is None and k == min(n, 5) and w == min(wmax, 1):
          sample = witness(cfg, params, live, space=sname, N=n, pattern=pattern,
                           crash_point=k)
        if live.exhausted:
          c['runs_ended_by_exhausted_space'] += 1
          break
    else:
      script_rng = ctx.case_rng(i, f'script/{w}')
      live = Live(ctx, cfg, params, spec, all_dnas, script_rng)
      recovered = []
      check_crash_point(ctx, cfg, params, spec, live, 0, False, m)
      for p in range(n):
        if not live.propose():
          break
        if len(live.pending) > w:
          live.feedback_oldest()
        b = check_crash_point(ctx, cfg, params, spec, live, p + 1, False, m)
        recovered.append((len(live.history), b))
        if len(live.history) >= 2:
          deep_points += 1
      if cfg.determined and not is_puppet(cfg):
        # The uninterrupted run goes on for M more proposals; each recovered
        # instance must continue with what the live one proposed after its
        # crash point.
        for _ in range(m):
          if live.exhausted or not live.propose():
            break
        future = [numbers(d) for d, _ in live.history]
        for at, b in recovered:
          if b is None:
            continue
          c['continuation_compares'] += 1
          exp = future[at:at + m]
          if len(exp) < m and live.exhausted:
            exp.append('stop')
          got = next_proposals(ctx, cfg, b, m)[:len(exp)]
          if got != exp:
            ctx.violation('continuation', cfg.family,
                          f'after {at} proposals the uninterrupted run continues with {exp}, '
                          f'the recovered one with {got}', witness(cfg, params, live))
      if len(live.history) > len(longest):
        longest = [numbers(d) for d, _ in live.history]
      if sample is None and w == min(wmax, 1):
        sample = witness(cfg, params, live, space=sname, N=n, pattern=pattern)
  if deep_points:
    ctx.mark_nontrivial((cfg.name, sorted(params.items()), sname, n, pattern, longest))
  ctx.seen('live_histories', (cfg.name, sname, longest))
  if i < 2 and sample is not None:
    ctx.sample(sample)
