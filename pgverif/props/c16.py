"""C16 — concurrent sampling hands out each trial once and loses no feedback.

One case = one sampling session: 2-8 worker threads iterate the same named
`pg.sample` loop of the in-memory backend under a seeded schedule of
`pgverif.monitors.sched` (token scheduler, statement granularity in the tuning,
generator and evolution code; a fraction of the sessions runs free on real
threads as a cross-check).  Everything is recorded at the client boundary
(per-worker lists, merged after join) and by a harness-defined recording
`DNAGenerator` that wraps the algorithm; an offline checker decides all
clauses from the merged history and `pg.poll_result(name)`.  Group ids come
from the whole documented domain (ints and strs, the falsy 0 and '' included,
next to workers without a group); the evaluation of a trial may take several
iterations of its worker (the pending trial is handed out again), every worker
iterates until its loop ends.

A second family of cases ("window sessions", case indices >= `cases`) aims at
races of first use, which have one chance per study: short fresh studies whose
workers meet at a rendezvous in the evaluation code and are released together,
with a window policy of the scheduler (lock-step / random strides / coin flips
/ enumerated pre-emption depths at every statement) from the release until
every worker has returned from the step, and - most of the time - a
user-written algorithm with ordinary multi-statement bookkeeping that audits
itself (`monitors/tallygen.py`): its own counts and reward sum must agree with
the propose()/feedback() calls that were made on it.
"""
import ast
import collections
import itertools
import logging
import random
import threading
import traceback

from pgverif.monitors import sched as S
# Before the library is imported: locks it creates at import time (module-level
# locks) must be cooperative too, or a descheduled holder stalls the session.
S.install_process_wide()
import pyglove as pg  # pylint: disable=g-import-not-at-top,g-bad-import-order
from pyglove.ext import evolution as evo  # pylint: disable=g-import-not-at-top
from pgverif.monitors import tallygen  # pylint: disable=g-import-not-at-top

TIERS = {
    'quick': dict(shards=8, cases=80, window_cases=40, free_every=8, replay_every=20,
                  watchdog_s=60, timeout_s=600),
    'thorough': dict(shards=16, cases=1200, window_cases=300, free_every=10,
                     replay_every=50, watchdog_s=60, timeout_s=4500, case_timeout_s=300),
}
LEVEL = 'exploration'
EXHAUSTIVE = {'quick': False, 'thorough': False}
RULE = ('case = one sampling session = (workers 2..8, group assignment with 1..4 '
        'groups incl. co-workers or one group per worker, group ids drawn from the documented '
        'domain int|str (names, 0..g-1, signed/large ints, strings incl. the empty one, mixed; '
        'the falsy ids 0 and \'\' on purpose) or None, N=4..20, iterations per trial: one | '
        'per trial 0..3 extra deliveries that only report a measurement or nothing before the '
        'finishing one | every trial takes m=2..6 iterations (progressive evaluation), algorithm in '
        '{Random, Sweeping, regularized evolution(population 3), the same evolution '
        'started after the first feedback}, per-worker plan '
        'of done / multi-measurement done(metadata) / done before the first measurement '
        '(rejected) then done / feedback(reward) / skip / skip by '
        'skip_on_exceptions / early-stop probe, optional end_loop, early-stopping policy or none, start mode '
        'simultaneous|staggered, schedule seed with switch probability and PCT '
        'change points). The session runs once under that schedule; the offline '
        'checker evaluates every clause on the recorded client history. '
        'Non-trivial = token-scheduled session that completed with >= 3 thread '
        'switches and >= 4 trials; distinct by switch-trace hash (the '
        'interleaving) together with the configuration. '
        'Window sessions (the last `window_cases` indices of a shard): 2..4 workers, '
        '1..3 trials each, solo / distinct / shared groups, algorithm mostly the '
        'self-auditing tally generator, all workers released together from a rendezvous '
        'before (the evaluation or the finish call of) their trial number k in sync_at, '
        'optionally also at the simultaneous start; inside each window the scheduler '
        'pre-empts by lock-step(stride 1..3) | random strides | coin flip per statement | '
        'enumerated pre-emption depths (i, i+d[, j]); outside, the seeded default rule. '
        'Non-trivial = some window with >= 2 pre-emptions and >= 2 trials; distinct by '
        'trace hash, window hashes and configuration.')
REQUIRED_COUNTERS = ['sessions', 'sessions_token', 'sessions_free', 'switches',
                     'client_events_checked', 'check:ids', 'check:one-group',
                     'check:feedback-once', 'check:quiescence',
                     'check:group-hold', 'trials_checked',
                     'sessions_simultaneous', 'sessions_staggered',
                     'sessions_window', 'window_policy_switches',
                     'check:algorithm-tally', 'tally_feedbacks_checked',
                     'sessions_first_two_feedbacks_in_overlapping_done_calls',
                     'sessions_with_redelivery', 'trials_redelivered_to_their_worker',
                     'groups_with_co-workers_and_falsy_id_checked']
ASSUMPTIONS = [
    'interleavings are sampled at statement granularity (LINE events) inside pyglove/core/tuning/*, geno/dna_generator.py, geno/random.py, geno/sweeping.py, geno/deduping.py and ext/evolution/base.py; switches inside C code or between bytecodes of one statement are not explored',
    'every worker keeps iterating until its loop ends and finishes (done or skip) each trial it is handed, at the first or at a later delivery of that trial (unless a co-worker finished it or end_loop was called meanwhile); rewards are a function of the DNA, so co-workers report the same reward',
    'group ids are ints and strs (the documented type of `group`); an int and its decimal string are not used as two ids of one session',
    'the space is larger than N (an exhausted Sweeping is not generated); the in-memory backend only',
    'a trial is identified by the unique proposal number the recording generator attaches to the DNA it returns (public DNA.set_userdata)',
    'a worker "holds" a pending trial from the moment next() returned it until the first done()/skip() call on that trial by anybody starts (conservative on both ends)',
    'status counters are read from the public summary Result.format(compact=True)',
    'a session whose watchdog fires or that deadlocks is inconclusive, never a violation',
    'the in-memory backend hands the shared algorithm of a study one propose() and one feedback() at a time (its documented serialization); the tally generator relies on exactly that, as a user-written algorithm would, and is itself a scheduler target so that overlapping calls lose an update at statement granularity',
    'window sessions explore the windows densely but not exhaustively; the evidence counts the distinct pre-emption sequences per window kind (distinct_observed: window_interleavings:*, first_finish_window_interleavings)',
]

TARGETS = ['pyglove/core/tuning/', 'pyglove/core/geno/dna_generator.py',
           'pyglove/core/geno/random.py', 'pyglove/core/geno/sweeping.py',
           'pyglove/core/geno/deduping.py', 'pyglove/ext/evolution/base.py',
           'pgverif/monitors/tallygen.py']

SPACE = pg.Dict(a=pg.oneof([1, 2, 3, 4]), b=pg.oneof([1, 2, 3]), c=pg.oneof([1, 2]))
# `space` is handed to pg.sample either as the hyper value (every worker then
# brings its own early-stopping policy object, as separate processes would) or
# as one shared DNASpec object (then the policy object is shared as well).  A
# policy object shared between calls that pass a hyper value is rejected by the
# backend even sequentially (it compares the freshly built DNASpec with `!=`),
# which is not a statement about schedules and is therefore not generated.

ACTIONS = ['done', 'done', 'done2', 'call', 'skip', 'early', 'skipx', 'done0']

# `Feedback.skip_on_exceptions` reports the skipped trial with a warning; the
# sessions hand the library a silent logger (public pg.logging.set_logger).
_QUIET = logging.getLogger('pgverif.c16.quiet')
_QUIET.disabled = True
pg.logging.set_logger(_QUIET)


class EvaluationFailed(Exception):
  """Raised by the harness' evaluation code inside `skip_on_exceptions`."""


# Group ids: `group` of pg.sample is documented as Union[None, int, str]; every
# int and every str is a legal id, the falsy ones (0, '') included.  An int and
# the str of the same int are never used in one session (whether they name the
# same group is not documented), nor are long digit strings (the in-memory
# backend's private ids for group=None look like that).
_INT_IDS = [0, 0, -1, 1, 2, -7, 255, 10 ** 12, -2 ** 40]
_STR_IDS = ['', '', ' ', 'a', 'A', 'None', 'g/1', 'w.0', '\u00e9', 'False']


def gen_group_ids(rng, g):
  """g distinct legal group ids of one session; returns (kind, ids)."""
  kind = rng.choice(['named', 'range', 'range', 'ints', 'strings', 'mixed'])
  if kind == 'named':
    ids = [f'g{i}' for i in range(g)]
  elif kind == 'range':
    ids = list(range(g))                    # worker_index // workers_per_group
  elif kind == 'ints':
    ids = rng.sample(sorted(set(_INT_IDS)), g)
  elif kind == 'strings':
    ids = rng.sample(sorted(set(_STR_IDS)), g)
  else:
    ids = rng.sample([0, -1, 3, '', 'w', 'None', ' '], g)
  if kind != 'named' and rng.random() < 0.6 and not any(x in (0, '') for x in ids):
    ids[rng.randrange(g)] = rng.choice([0, ''] if kind == 'mixed' else
                                       [0] if isinstance(ids[0], int) else [''])
  return kind, ids


def is_falsy_id(g):
  return g is not None and not g


def gen_defers(rng, w, n):
  """Per worker and per trial ordinal: (deliveries before the finishing one, what they do).

  A trial that was neither done() nor skip()ped is handed to the worker again
  by its next iteration (documented failover behaviour of pg.sample), so an
  evaluation may take several iterations: report a measurement and `continue`
  (progressive evaluation), or `continue` without having reported anything
  (retry after a transient error).  Returns (style, n, defers).
  """
  style = rng.choice(['single'] * 4 + ['some'] * 3 + ['progressive'] * 3)
  if style == 'single':
    return style, n, None
  if style == 'some':
    return style, n, [[(rng.choice([0, 0, 0, 1, 1, 2, 3]),
                        rng.choice(['measure', 'measure', 'nothing']))
                       for _ in range(n + 2)] for _ in range(w)]
  m = rng.randint(2, 6)                      # iterations per trial, every trial
  n = rng.randint(4, max(4, 24 // m))
  kind = rng.choice(['measure', 'measure', 'measure', 'nothing'])
  return style, n, [[(m - 1, kind)] * (n + 2) for _ in range(w)]


def reward_of(nums):
  """Reward reported for a DNA (function of the DNA only; has ties)."""
  return float((nums[0] * 7 + nums[1] * 3 + nums[2] * 5) % 11)


# ---------------------------------------------------------------------------
# Harness-defined pieces handed to pg.sample
# ---------------------------------------------------------------------------


class Recorder:
  """Log shared by the recording generator (appends are atomic)."""

  def __init__(self, scheduler):
    self.sched = scheduler
    self.events = []
    self.pids = itertools.count(1)
    self.setups = 0


@pg.members([('inner', pg.typing.Object(pg.geno.DNAGenerator))])
class RecordingGenerator(pg.geno.DNAGenerator):
  """Logs every propose() return and feedback() argument; forwards to `inner`."""

  def attach(self, recorder):
    self._recorder = recorder
    return self

  def _setup(self):
    self._recorder.setups += 1
    self.inner.setup(self.dna_spec)

  @property
  def needs_feedback(self):
    return True

  def _propose(self):
    rec = self._recorder
    dna = self.inner.propose()
    pid = next(rec.pids)
    dna.set_userdata('pid', pid)
    rec.events.append((rec.sched.stamp(), 'propose', pid,
                       tuple(dna.to_numbers()), rec.sched.worker_index()))
    return dna

  def _feedback(self, dna, reward):
    rec = self._recorder
    rec.events.append((rec.sched.stamp(), 'feedback', dna.userdata.get('pid'),
                       tuple(dna.to_numbers()), reward, rec.sched.worker_index()))
    self.inner.feedback(dna, reward)
    rec.events.append((rec.sched.stamp(), 'feedback-end', dna.userdata.get('pid')))


@pg.members([('threshold', pg.typing.Float())])
class DnaThresholdPolicy(pg.tuning.EarlyStoppingPolicy):
  """Stops a trial early iff the reward of its DNA is below the threshold."""

  def should_stop_early(self, trial):
    return reward_of(tuple(trial.dna.to_numbers())) < self.threshold


def make_algorithm(kind, seed):
  if kind == 'random':
    return pg.geno.Random(seed=seed)
  if kind == 'sweeping':
    return pg.geno.Sweeping()
  if kind == 'evolution':
    return evo.regularized_evolution(evo.mutators.Uniform(seed=seed), population_size=3,
                                     tournament_size=2, seed=seed)
  if kind == 'tally':
    # A user-written algorithm with ordinary, not thread-safe bookkeeping that
    # observes itself (see monitors/tallygen.py).
    return tallygen.TallyGenerator(seed=seed)
  if kind == 'evolution-init1':
    # Same operators, but evolution starts with the very first feedback: a
    # proposal that sees "population initialized" must also see that member.
    return evo.Evolution(
        evo.selectors.Random(2, seed=seed) >> evo.selectors.Top(1)
        >> evo.mutators.Uniform(seed=seed),
        population_init=(pg.geno.Random(seed=seed), 1),
        population_update=evo.selectors.Last(3))
  raise ValueError(kind)


# ---------------------------------------------------------------------------
# Session generation
# ---------------------------------------------------------------------------


def gen_config(rng, mode):
  w = rng.choice([2, 2, 3, 3, 3, 4, 4, 4, 5, 6, 7, 8])
  layout = rng.choice(['shared', 'shared', 'shared', 'solo'])
  if layout == 'solo':
    groups = [None] * w                      # group=None: every worker its own group
  else:
    g = rng.randint(1, min(4, w))
    _, gids = gen_group_ids(rng, g)
    groups = [gids[i % g] for i in range(w)]
    rng.shuffle(groups)
    if w > 2 and rng.random() < 0.2:
      groups[rng.randrange(w)] = None        # a worker without group next to groups
  n = rng.randint(4, 20)
  iterations, n, defers = gen_defers(rng, w, n)
  plans = []
  style = rng.choice(['mixed', 'mixed', 'mixed', 'all-done', 'skip-heavy'])
  for _ in range(w):
    if style == 'all-done':
      acts = ['done', 'call', 'done2']
    elif style == 'skip-heavy':
      acts = ['skip', 'skip', 'early', 'done']
    else:
      acts = ACTIONS
    plans.append([rng.choice(acts) for _ in range(n + 2)])
  end_loop = None
  if rng.random() < 0.25:
    end_loop = (rng.randrange(w), rng.randint(1, max(1, n // 2)))   # worker, after its k-th trial
  return dict(
      workers=w, groups=groups, n=n, plans=plans, end_loop=end_loop,
      iterations=iterations, defers=defers,
      algorithm=rng.choice(['random', 'sweeping', 'evolution', 'evolution', 'evolution-init1']),
      algo_seed=rng.randint(0, 99),
      policy=rng.choice([None, None, 3.0, 6.0]),
      space_form=rng.choice(['hyper', 'spec']),
      start=rng.choice(['staggered', 'staggered', 'staggered', 'simultaneous']),
      mode=mode,
      sched_seed=rng.getrandbits(32),
      p_switch=rng.choice([0.02, 0.05, 0.1, 0.1, 0.3]),
      change_points=rng.choice([0, 1, 2, 3]),
  )


def gen_window_config(rng):
  """A short fresh study whose workers arrive at the same logical time.

  2-4 workers, 1-3 trials each; before the finish of their trial number k
  (k in `sync_at`, mostly the first) all workers meet at a rendezvous in the
  evaluation code and are released together; from the release until each has
  returned from that evaluation step a window policy of the scheduler
  pre-empts densely (lock-step, random strides, coin flips, enumerated
  pre-emption depths), because races of "first use" (lazily created shared
  state, first feedback, first completion) need two workers inside the same
  few statements and have no second chance later in the study.
  """
  w = rng.choice([2, 2, 2, 3, 3, 4])
  layout = rng.choice(['solo', 'solo', 'distinct', 'distinct', 'shared'])
  if layout == 'solo':
    groups = [None] * w
  elif layout == 'distinct':
    groups = gen_group_ids(rng, w)[1]
  else:
    g = rng.randint(1, max(1, w - 1))
    gids = gen_group_ids(rng, g)[1]
    groups = [gids[i % g] for i in range(w)]
    rng.shuffle(groups)
  per = rng.randint(1, 3)
  n = w * per + rng.choice([0, 0, 1])
  first = rng.choice(['done', 'done', 'done', 'call', 'done2', 'early', 'skip'])
  plans = []
  for _ in range(w):
    head = first if rng.random() < 0.7 else rng.choice(ACTIONS)
    plans.append([head] + [rng.choice(ACTIONS) for _ in range(n + 1)])
  end_loop = None
  if rng.random() < 0.15:
    end_loop = (rng.randrange(w), rng.randint(1, per))
  kind = rng.choice(['lockstep', 'lockstep', 'stutter', 'stutter', 'stutter',
                     'dense', 'dense', 'preempt'])
  window = dict(kind=kind)
  if kind == 'lockstep':
    window['stride'] = rng.choice([1, 1, 2, 3])
  elif kind == 'stutter':
    window['stride_max'] = rng.choice([2, 3, 3, 4])
  elif kind == 'dense':
    window['p'] = rng.choice([0.3, 0.5, 0.7])
  else:
    # depth 2-3: the leader is stopped after i statements, the next worker
    # after it has got a little further than the leader, ...
    i = rng.randint(1, 70)
    quotas = [i, i + rng.randint(0, 25)]
    if rng.random() < 0.4:
      quotas.append(rng.randint(1, 40))
    window['quotas'] = quotas
  start = rng.choice(['simultaneous', 'staggered'])
  return dict(
      workers=w, groups=groups, n=n, plans=plans, end_loop=end_loop,
      algorithm=rng.choice(['tally', 'tally', 'tally', 'tally', 'evolution-init1',
                            'evolution', 'random', 'sweeping']),
      algo_seed=rng.randint(0, 99),
      policy=rng.choice([None, None, None, 3.0, 6.0]),
      space_form=rng.choice(['hyper', 'spec']),
      start=start,
      mode='token',
      sched_seed=rng.getrandbits(32),
      p_switch=rng.choice([0.05, 0.1, 0.3]),
      change_points=rng.choice([0, 1, 2]),
      window=window,
      sync_at=rng.choice([[0], [0], [0], [0], [0, 1], [1]]),
      sync_where=rng.choice(['act', 'finish']),
      window_at_start=start == 'simultaneous' and rng.random() < 0.5,
  )


def horizon_of(cfg):
  per_trial = 1
  if cfg.get('defers'):
    per_trial = 1 + max(d[0] for d in cfg['defers'][0]) // 2
  return 150 * cfg['n'] * per_trial + 120 * cfg['workers']


class Rendezvous:
  """All workers of a session meet here and are released together.

  Built on `threading.Condition` (cooperative under the token scheduler: a
  waiting worker is descheduled; its timed wait "times out" as soon as nobody
  else can run, e.g. because a worker left the loop before getting here, and
  the rendezvous is then broken instead of deadlocking the session).
  """

  def __init__(self, n, on_release, timeout=5.0):
    self.cond = threading.Condition()
    self.n, self.timeout, self.on_release = n, timeout, on_release
    self.members = []
    self.open = False
    self.broken = False

  def wait(self, idx):
    with self.cond:
      if self.open:
        return
      self.members.append(idx)
      if len(self.members) >= self.n:
        self._release()
        return
      while not self.open:
        if not self.cond.wait(self.timeout) and not self.open:
          self.broken = True
          self._release()

  def _release(self):
    self.open = True
    self.on_release(list(self.members))
    self.cond.notify_all()


class Session:
  """Runs one configured session and keeps the recorded history."""

  def __init__(self, cfg, name, watchdog_s=30):
    self.cfg, self.name = cfg, name
    win = cfg.get('window')
    self.wpolicy = S.WindowPolicy(cfg['sched_seed'], **win) if win else None
    self.sched = S.Scheduler(
        cfg['sched_seed'], targets=TARGETS, p_switch=cfg['p_switch'],
        change_points=cfg['change_points'], horizon=horizon_of(cfg),
        mode=cfg['mode'], watchdog_s=watchdog_s,
        solo_first=cfg['start'] == 'staggered', first=0 if cfg['start'] == 'staggered' else None,
        free_sleep=0.0, policy=self.wpolicy)
    # Windows of dense pre-emption: tag -> set of workers still inside.
    self.inside = {}
    self.rendezvous = {
        k: Rendezvous(cfg['workers'], lambda members, k=k: self._open_window(f'finish-{k}', members))
        for k in cfg.get('sync_at', ())}
    if self.wpolicy is not None and cfg.get('window_at_start'):
      self._open_window('start', range(cfg['workers']))
    self.recorder = Recorder(self.sched)
    self.inner = make_algorithm(cfg['algorithm'], cfg['algo_seed'])
    self.algorithm = RecordingGenerator(inner=self.inner).attach(self.recorder)
    self.space = SPACE if cfg['space_form'] == 'hyper' else pg.dna_spec(SPACE)
    shared = (DnaThresholdPolicy(threshold=cfg['policy'])
              if cfg['policy'] is not None else None)
    self.policies = [
        shared if cfg['space_form'] == 'spec' or shared is None
        else DnaThresholdPolicy(threshold=cfg['policy'])
        for _ in range(cfg['workers'])]
    self.logs = [[] for _ in range(cfg['workers'])]
    self.run = None

  def group_label(self, i):
    g = self.cfg['groups'][i]
    return repr(g) if g is not None else f'solo{i}'

  def _open_window(self, tag, members):
    self.inside[tag] = set(members)
    if self.wpolicy is not None:
      self.wpolicy.arm(tag)

  def _leave_window(self, tag, i):
    members = self.inside.get(tag)
    if members is not None and i in members:
      members.discard(i)
      if not members and self.wpolicy is not None:
        self.wpolicy.disarm()

  def execute(self):
    self.run = self.sched.run(
        [self._make_worker(i) for i in range(self.cfg['workers'])])
    return self.run

  def _make_worker(self, i):
    cfg, sc, log = self.cfg, self.sched, self.logs[i]
    plan = cfg['plans'][i]
    stamp = sc.stamp

    def client_call(op, pid, fn, label=None):
      """Brackets one client call; returns None or the exception."""
      log.append((stamp(), 'call', op, pid))
      try:
        r = fn()
      except pg.tuning.RaceConditionError as e:
        log.append((stamp(), 'ret', op, pid, 'race'))
        return e
      except Exception as e:  # pylint: disable=broad-except
        log.append((stamp(), 'ret', op, pid, 'raise', type(e).__name__,
                    traceback.format_exc()[-6000:], label or op))
        return e
      log.append((stamp(), 'ret', op, pid, 'ok', r))
      return None

    def act(action, fb, pid, reward, pre_finish=lambda: None):
      if action == 'call':
        # feedback(reward) = add_measurement + done
        pre_finish()
        client_call('done', pid, lambda: _ignore_race(fb, lambda: fb(reward)),
                    'add_measurement')
        return
      if action == 'skip':
        pre_finish()
        client_call('skip', pid, fb.skip)
        return
      if action == 'skipx':
        # the evaluation code fails inside the documented skip_on_exceptions scope
        pre_finish()
        client_call('skip', pid, lambda: _fail_inside_skip_scope(fb), 'skip_on_exceptions')
        return
      if action == 'done0':
        # done() before any measurement was reported: documented ValueError, the
        # trial stays pending (it completes the trial if a co-worker has reported
        # one meanwhile; a no-op if a co-worker has finished it).
        log.append((stamp(), 'call', 'done', pid))
        try:
          fb.done()
          log.append((stamp(), 'ret', 'done', pid, 'ok', None))
        except ValueError:
          log.append((stamp(), 'ret', 'done', pid, 'rejected'))
        except Exception as e:  # pylint: disable=broad-except
          log.append((stamp(), 'ret', 'done', pid, 'raise', type(e).__name__,
                      traceback.format_exc()[-6000:], 'done-before-measurement'))
      if client_call('measure', pid, lambda: fb.add_measurement(reward, step=1),
                     'add_measurement'):
        pre_finish()
        return
      if action == 'early':
        log.append((stamp(), 'call', 'probe', pid))
        try:
          stop = fb.should_stop_early()
        except Exception as e:  # pylint: disable=broad-except
          log.append((stamp(), 'ret', 'probe', pid, 'raise', type(e).__name__,
                      traceback.format_exc()[-6000:], 'should_stop_early'))
          pre_finish()
          return
        log.append((stamp(), 'ret', 'probe', pid, 'ok', stop))
        if stop:
          pre_finish()
          client_call('skip', pid, fb.skip)
          return
      if action in ('done2', 'early'):
        if client_call('measure', pid, lambda: fb.add_measurement(reward, step=2),
                       'add_measurement'):
          pre_finish()
          return
      pre_finish()
      if action == 'done2':
        client_call('done', pid, lambda: fb.done(metadata={'steps': 2, 'worker': f'w{i}'}))
      else:
        client_call('done', pid, fb.done)

    sync_at = self.rendezvous
    sync_where = cfg.get('sync_where', 'act')

    def meet(k):
      """Rendezvous of all workers before the finish of their trial number k."""
      log.append((stamp(), 'meet', k))
      sync_at[k].wait(i)
      log.append((stamp(), 'released', k))

    def worker():
      it = iter(pg.sample(self.space, self.algorithm, num_examples=cfg['n'],
                          name=self.name, group=cfg['groups'][i],
                          early_stopping_policy=self.policies[i]))
      defers = (cfg.get('defers') or [None] * cfg['workers'])[i]
      seen = {}                      # proposal -> [ordinal among this worker's trials, deliveries]
      it_no = 0                      # iterations (deliveries) of this worker
      acted = 0                      # finishing attempts of this worker
      while True:
        log.append((stamp(), 'next-call', it_no))
        try:
          _, fb = next(it)
        except StopIteration:
          log.append((stamp(), 'stop'))
          self._leave_window('start', i)
          break
        except Exception as e:  # pylint: disable=broad-except
          log.append((stamp(), 'next-raise', it_no, type(e).__name__,
                      traceback.format_exc()[-2500:]))
          self._leave_window('start', i)
          break
        dna = fb.dna
        pid = dna.userdata.get('pid')
        nums = tuple(dna.to_numbers())
        tid = fb.id
        log.append((stamp(), 'got', tid, pid, nums))
        if it_no == 0:
          sc.enable_switching()        # staggered start: the first trial is held
          self._leave_window('start', i)
        it_no += 1
        ent = seen.get(pid)
        if ent is None:
          ent = seen[pid] = [len(seen), 0]
        ent[1] += 1
        k = ent[0]                     # this is the worker's trial number k
        wait, how = defers[k % len(defers)] if defers else (0, '')
        if ent[1] <= wait:
          # The evaluation of this trial takes several iterations: the trial is
          # left pending and is handed out again by the next iteration.
          log.append((stamp(), 'defer', pid, ent[1]))
          if how == 'measure':
            client_call('measure', pid,
                        lambda: fb.add_measurement(reward_of(nums), step=100 + ent[1]),
                        'add_measurement')
          continue
        attempt = ent[1] - wait        # > 1: handed out again after a finishing attempt
        if attempt > 4:
          log.append((stamp(), 'stuck', pid))
          break
        action = plan[k % len(plan)] if attempt == 1 else 'done'
        if k in sync_at and attempt == 1:
          if sync_where == 'act':
            meet(k)
            act(action, fb, pid, reward_of(nums))
          else:
            act(action, fb, pid, reward_of(nums), lambda k=k: meet(k))
          self._leave_window(f'finish-{k}', i)
        else:
          act(action, fb, pid, reward_of(nums))
        acted += 1
        if cfg['end_loop'] is not None and cfg['end_loop'] == (i, acted):
          client_call('end_loop', pid, fb.end_loop)
      return it_no

    return worker


def _ignore_race(fb, fn):
  with fb.ignore_race_condition():
    fn()


def _fail_inside_skip_scope(fb):
  with fb.skip_on_exceptions((EvaluationFailed,)):
    raise EvaluationFailed()


# ---------------------------------------------------------------------------
# Offline checker
# ---------------------------------------------------------------------------


def check_session(sess, counters):
  """Returns [(clause, mechanism, detail)] for one finished session."""
  cfg = sess.cfg
  c = counters
  out = []

  def bad(clause, mech, detail):
    out.append((clause, mech, detail))

  start = cfg['start']
  # -- merge the per-thread client logs ---------------------------------------
  events = []
  for i, log in enumerate(sess.logs):
    for e in log:
      events.append((e[0], i) + tuple(e[1:]))
  events.sort()
  c['client_events_checked'] += len(events)
  gens = sorted(sess.recorder.events)
  c['generator_events_checked'] += len(gens)

  # -- exceptions escaping the library into a worker ---------------------------------
  died = False
  finish_calls = collections.defaultdict(list)     # pid -> [(call stamp, worker)]
  for e in events:
    if e[2] == 'call' and e[3] in ('done', 'skip'):
      finish_calls[e[4]].append((e[0], e[1]))
  exceptions = []                                   # (mechanism, detail), emitted below
  for i, err in enumerate(sess.run.errors):
    if err is not None:
      died = True
      exceptions.append(('outside-client-call', f'worker {i}: {sess.run.tracebacks[i]}'))
  first_next_raised = False
  for e in events:
    if e[2] == 'next-raise':
      died = True
      first_next_raised = first_next_raised or e[3] == 0
      exceptions.append(('next', f'worker {e[1]} next() #{e[3]} raised {e[4]}:\n{e[5]}'))
    elif e[2] == 'ret' and e[5] == 'raise':
      died = True
      # harness fact: a co-worker had begun to finish the same trial before
      # this call returned
      co = any(st < e[0] and w != e[1] for st, w in finish_calls.get(e[4], []))
      exceptions.append((e[8] + ('@same-group-finish' if co else ''),
                         f'worker {e[1]} {e[3]}() on proposal {e[4]} raised {e[6]}:\n{e[7]}'))

  def emit_exceptions(construction_raced):
    # In a session in which the harness itself saw the construction race of
    # simultaneous first callers (its generator was set up more than once, a
    # first next() failed, or workers got trials of a private study) every
    # later exception is a consequence of it: one key.
    for mech, detail in exceptions:
      bad('unexpected-exception', 'construction-race' if construction_raced else mech, detail)

  # -- what the clients saw ----------------------------------------------------------
  got = collections.defaultdict(list)        # pid -> [(stamp, worker, tid, nums)]
  next_call = {}                             # (worker, got stamp) -> stamp of the next() call
  last_next = {}
  finish = collections.defaultdict(list)     # pid -> [(call stamp, ret stamp, worker, op, outcome)]
  open_call = {}
  end_loop_called = False
  for e in events:
    st, w, kind = e[0], e[1], e[2]
    if kind == 'next-call':
      last_next[w] = st
    elif kind == 'got':
      got[e[4]].append((st, w, e[3], e[5]))
      next_call[(w, st)] = last_next[w]
    elif kind == 'call':
      open_call[w] = (st, e[3], e[4])
      if e[3] == 'end_loop':
        end_loop_called = True
    elif kind == 'ret':
      st0, op, pid = open_call.pop(w)
      if op in ('done', 'skip'):
        finish[pid].append((st0, st, w, op, e[5]))
  if None in got:
    bad('unidentified-trial', 'next' + _at(start),
        f'a worker was handed a trial whose DNA carries no proposal number: {got[None][:3]}')
    del got[None]

  proposals = {e[2]: e for e in gens if e[1] == 'propose'}
  feedbacks = collections.defaultdict(list)
  for e in gens:
    if e[1] == 'feedback':
      feedbacks[e[2]].append(e)

  try:
    result = pg.poll_result(sess.name)
  except ValueError:
    result = None
  setup_raced = start == 'simultaneous' and (
      sess.recorder.setups != 1 or first_next_raised)
  if result is None:
    emit_exceptions(setup_raced)
    if not died:
      bad('no-result', 'poll_result' + _at(start), f'pg.poll_result({sess.name!r}) raised')
    return out, {}
  trials = list(result.trials)
  by_pid = {}
  for t in trials:
    by_pid.setdefault(t.dna.userdata.get('pid'), []).append(t)

  # -- private studies (construction race) -----------------------------------------
  c['check:private-study'] += 1
  foreign = sorted(p for p in got if p not in by_pid)
  emit_exceptions(setup_raced or (start == 'simultaneous' and bool(foreign)))
  if foreign:
    seen_ids = sorted((g[2], p) for p in foreign for g in got[p])
    mech = 'get-or-create' if start == 'simultaneous' else 'after-start'
    bad('private-study', mech,
        f'{len(foreign)} trials (id, proposal) {seen_ids[:8]} were handed to workers but are '
        f'not in pg.poll_result({sess.name!r}).trials (ids {[t.id for t in trials]}): '
        f'the workers sampled from different study objects')
    return out, dict(private=True)

  # -- ids 1..N, each once -----------------------------------------------------------
  c['check:ids'] += 1
  ids = [t.id for t in trials]
  n = cfg['n']
  dup = sorted(k for k, v in collections.Counter(ids).items() if v > 1)
  if dup:
    bad('ids', 'duplicate-id', f'trial ids {dup} used more than once: {ids}')
  elif sorted(ids) != list(range(1, len(ids) + 1)):
    bad('ids', 'gap', f'trial ids are not 1..{len(ids)}: {ids}')
  # Harness fact: some worker was handed the same trial by more than one of
  # its iterations (it left the trial pending and came back for it).
  redelivered = sorted(p for p, gs in got.items()
                       if len({g[1] for g in gs}) < len(gs))
  c['trials_redelivered_to_their_worker'] += len(redelivered)
  c['sessions_with_redelivery'] += bool(redelivered)
  rtag = '@redelivery' if redelivered else ''
  if len(ids) > n:
    bad('ids', 'too-many', f'{len(ids)} trials for num_examples={n}: {ids}')
  elif len(ids) < n and not end_loop_called and not died:
    bad('ids', 'too-few' + rtag,
        f'{len(ids)} trials for num_examples={n} without end_loop: {ids}; every worker '
        f'iterated until its loop ended; deliveries per worker '
        f'{sorted(collections.Counter(g[1] for gs in got.values() for g in gs).items())}')
  for p, ts in by_pid.items():
    if p is None or len(ts) > 1:
      bad('ids', 'proposal-shared',
          f'proposal {p} is carried by trials {[t.id for t in ts]}')
  for p, gs in got.items():
    seen = {g[2] for g in gs}
    if seen != {by_pid[p][0].id}:
      bad('ids', 'id-changed', f'proposal {p} was handed out as trial {sorted(seen)} '
          f'but is trial {by_pid[p][0].id} in the result')
  c['trials_checked'] += len(trials)

  # -- one group per trial -------------------------------------------------------------
  c['check:one-group'] += 1
  for p, gs in got.items():
    groups = {sess.group_label(g[1]) for g in gs}
    c['deliveries_checked'] += len(gs)
    if len(groups) > 1:
      bad('two-groups', 'next', f'trial {by_pid[p][0].id} (proposal {p}) was delivered to '
          f'groups {sorted(groups)}: {gs}')

  # -- exactly-once feedback -------------------------------------------------------------
  c['check:feedback-once'] += 1

  def overlapping(fin, op_a, op_b):
    """Two finish calls (op_a, op_b) of different workers overlap in time."""
    return any(x[2] != y[2] and x[3] == op_a and y[3] == op_b
               and x[0] < y[1] and y[0] < x[1] for x in fin for y in fin)

  finish_race = False            # some trial was finished by co-workers at the same time
  for p, ts in by_pid.items():
    t = ts[0]
    fbs = feedbacks.get(p, [])
    fin = finish.get(p, [])
    ops = {f[3] for f in fin}
    dd = overlapping(fin, 'done', 'done')
    ds = overlapping(fin, 'done', 'skip')
    ss = overlapping(fin, 'skip', 'skip')
    finish_race = finish_race or dd or ds or ss
    c['feedback_counts_checked'] += 1
    if t.status != 'COMPLETED':
      continue                                  # decided by the quiescence clause
    nums = tuple(t.dna.to_numbers())
    detail = (f'trial {t.id} (proposal {p}, dna {nums}) infeasible={t.infeasible} '
              f'feedbacks (stamp, reward, worker)={[(f[0], f[4], f[5]) for f in fbs]} finish '
              f'calls (call stamp, return stamp, worker, op, outcome)={sorted(fin)}')
    if ops == {'skip'} and not t.infeasible:
      bad('skipped-trial-feasible', 'skip', detail)
    if ops == {'done'} and t.infeasible:
      bad('done-trial-infeasible', 'done', detail)
    if t.infeasible:
      if fbs:
        bad('feedback-for-skipped',
            'same-group-done+skip' if ds else 'no-overlapping-done+skip', detail)
    else:
      if len(fbs) > 1:
        bad('double-feedback', 'same-group-done' if dd else 'no-overlapping-done', detail)
      elif not fbs:
        bad('lost-feedback', 'same-group-done+skip' if ds else 'done', detail)
      for f in fbs:
        c['feedback_args_checked'] += 1
        if f[3] != nums or f[4] != reward_of(nums):
          bad('wrong-feedback', 'done', detail + f' expected reward {reward_of(nums)}')
      fm = t.final_measurement
      if fm is None or fm.reward != reward_of(nums):
        bad('wrong-final-measurement', 'same-group-done+skip' if ds else 'done',
            detail + f' final={fm!r}')
  stray = sorted(p for p in feedbacks if p not in by_pid)
  if stray:
    bad('feedback-for-unknown-trial', 'feedback', f'feedback for proposals {stray} '
        f'that no trial of the study carries')
  c['check:proposals'] += 1
  unused = sorted(p for p in proposals if p not in by_pid)
  if unused and not died:
    bad('lost-proposal', 'create-trial', f'proposals {unused} were returned by the '
        f'algorithm but no trial carries them (trials {ids})')

  # -- quiescence --------------------------------------------------------------------------
  # Session-level clauses name the co-worker finish race when the history
  # contains one (harness fact: overlapping done/skip calls of two workers on
  # one trial), because a double completion shows up in counters/best trial.
  tag = '@same-group-finish' if finish_race else ''
  c['check:quiescence'] += 1
  if not died:
    pending = [t for t in trials if t.status != 'COMPLETED']
    if end_loop_called:
      # A trial whose evaluation was still going on (no done/skip call yet)
      # when the loop was ended stays pending; one that was finished does not.
      # One that nobody was ever handed has no evaluation going on either.
      pending = [t for t in pending
                 if t.dna.userdata.get('pid') not in got
                 or any(f[4] == 'ok' for f in finish.get(t.dna.userdata.get('pid'), []))]
      c['check:not-completed-after-end_loop'] += 1
    if pending:
      # harness fact: (one of) the unfinished trial(s) had been handed to its
      # worker by more than one iteration
      again = any(t.dna.userdata.get('pid') in redelivered for t in pending)
      bad('not-completed', 'quiescence' + ('@redelivery' if again else ''),
          f'trials {[t.id for t in pending]} are not COMPLETED after all '
          f'workers returned: {[(t.id, t.status) for t in trials]}; finish calls on them: '
          f'{[(t.id, sorted(finish.get(t.dna.userdata.get("pid"), []))) for t in pending]}')
    c['check:counters'] += 1
    try:
      summary = ast.literal_eval(result.format(compact=True))
    except Exception:  # pylint: disable=broad-except
      summary = None
    if not isinstance(summary, dict):
      c['summary_unparsable'] += 1
    else:
      exp_status = {}
      ncomp = sum(1 for t in trials if t.status == 'COMPLETED')
      if ncomp:
        exp_status['COMPLETED'] = f'{ncomp}/{len(trials)}'
      if len(trials) - ncomp:
        exp_status['PENDING'] = f'{len(trials) - ncomp}/{len(trials)}'
      ninf = sum(1 for t in trials if t.infeasible)
      exp_inf = f'{ninf}/{len(trials)}' if ninf else None
      if dict(summary.get('status', {})) != exp_status or summary.get('infeasible') != exp_inf:
        bad('counters', 'quiescence' + tag,
            f'summary says status={summary.get("status")} infeasible={summary.get("infeasible")}; '
            f'the trials say status={exp_status} infeasible={exp_inf}')
    c['check:best-trial'] += 1
    feas = [t for t in trials if t.status == 'COMPLETED' and not t.infeasible
            and t.final_measurement is not None]
    best = result.best_trial
    if not feas:
      if best is not None:
        bad('best-trial', 'no-feasible-trial' + tag, f'best_trial is trial {best.id} '
            f'(infeasible={best.infeasible}) but no trial is feasible')
    else:
      mx = max(t.final_measurement.reward for t in feas)
      if best is None:
        bad('best-trial', 'none' + tag, f'best_trial is None; max reward is {mx}')
      elif best.infeasible:
        bad('best-trial', 'infeasible' + tag, f'best_trial {best.id} is infeasible')
      elif best.final_measurement.reward != mx or not any(best is t for t in trials):
        bad('best-trial', 'not-maximal' + tag, f'best_trial {best.id} has reward '
            f'{best.final_measurement.reward}; max is {mx}: '
            f'{[(t.id, t.final_measurement.reward) for t in feas]}')
  if sess.recorder.setups == 1 and not died:
    c['check:algorithm-counters'] += 1
    if sess.inner.num_proposals != len(proposals):
      bad('algorithm-counters', 'num_proposals', f'num_proposals={sess.inner.num_proposals} '
          f'after {len(proposals)} propose() calls returned')
    nfb = sum(len(v) for v in feedbacks.values())
    if sess.inner.num_feedbacks != nfb:
      bad('algorithm-counters', 'num_feedbacks', f'num_feedbacks={sess.inner.num_feedbacks} '
          f'after {nfb} feedback() calls')
    if cfg['algorithm'] == 'tally':
      # The algorithm's own books against the calls that were made on it
      # (recorded by the wrapper around it): the backend hands a shared
      # algorithm one propose() / one feedback() at a time, so ordinary
      # multi-statement bookkeeping must not lose an update.
      c['check:algorithm-tally'] += 1
      alg = sess.inner
      fb_events = [f for fbs in feedbacks.values() for f in fbs]
      exp_total = sum(f[4] for f in fb_events)
      c['tally_feedbacks_checked'] += nfb
      if (alg.count != nfb or alg.total != exp_total
          or sorted(alg.fed) != sorted(f[2] for f in fb_events)):
        bad('algorithm-tally', 'feedback',
            f'{nfb} feedback() calls (proposal, reward, worker) '
            f'{sorted((f[2], f[4], f[5]) for f in fb_events)} with reward sum {exp_total}, '
            f'but the algorithm accounted for {alg.count} feedbacks, reward sum {alg.total}, '
            f'proposals {list(alg.fed)}; at most {alg.max_inside} feedback() calls were '
            f'inside the algorithm at the same time')
      if alg.proposed != len(proposals):
        bad('algorithm-tally', 'propose',
            f'{len(proposals)} propose() calls returned but the algorithm accounted for '
            f'{alg.proposed}')
  elif sess.recorder.setups > 1:
    c['sessions_algorithm_setup_twice'] += 1
  # Evidence only: feedback() calls that overlapped in logical time.
  spans = []
  open_fb = {}
  for e in gens:
    if e[1] == 'feedback':
      open_fb.setdefault(e[2], []).append(e[0])
    elif e[1] == 'feedback-end' and open_fb.get(e[2]):
      spans.append((open_fb[e[2]].pop(0), e[0]))
  spans.sort()
  c['feedback_calls_overlapping_in_algorithm'] += sum(
      1 for a, b in zip(spans, spans[1:]) if b[0] < a[1])

  # -- the evolution's population reflects the feedbacks (Last(3)) -----------------------
  if (cfg['algorithm'].startswith('evolution') and sess.recorder.setups == 1
      and not died):
    ops = []                                   # (begin, end, pid) per feedback() call
    ends = collections.defaultdict(list)
    for e in gens:
      if e[1] == 'feedback-end':
        ends[e[2]].append(e[0])
    for p, fbs in feedbacks.items():
      for k, f in enumerate(sorted(fbs)):
        es = sorted(ends.get(p, []))
        ops.append((f[0], es[k] if k < len(es) else float('inf'), p))
    if len({o[2] for o in ops}) != len(ops):
      c['population_checks_skipped_double_feedback'] += 1
    else:
      c['check:population'] += 1
      pop = [d.userdata.get('pid') for d in sess.inner.population]
      fed = {o[2] for o in ops}
      if (len(pop) != min(3, len(ops)) or len(set(pop)) != len(pop)
          or not set(pop) <= fed):
        bad('algorithm-population', 'membership',
            f'population (proposal numbers) {pop} after feedbacks for proposals '
            f'{sorted(fed)}; expected the last {min(3, len(ops))} of them')
      else:
        # Last(3): a kept feedback that had returned before a dropped one
        # began means the dropped one was lost.
        kept = [o for o in ops if o[2] in pop]
        dropped = [o for o in ops if o[2] not in pop]
        lost = [(y, x) for y in kept for x in dropped if y[1] < x[0]]
        if lost:
          bad('algorithm-population', 'lost-update',
              f'population {pop} keeps feedback (begin, end, proposal) {lost[0][0]} but not '
              f'the later {lost[0][1]}; all feedback calls: {sorted(ops)}')

  # -- co-workers hold the same pending trial ------------------------------------------------
  c['check:group-hold'] += 1
  first_finish = {p: min(f[0] for f in fin if f[4] != 'rejected')
                  for p, fin in finish.items() if any(f[4] != 'rejected' for f in fin)}
  holds = collections.defaultdict(list)      # group -> [(from, to, worker, pid, next-call stamp)]
  inf = float('inf')
  for p, gs in got.items():
    for (st, w, _, _) in gs:
      end = first_finish.get(p, inf)
      if st < end:
        holds[sess.group_label(w)].append((st, end, w, p, next_call[(w, st)]))
  next_calls = collections.defaultdict(list)
  for e in events:
    if e[2] == 'next-call':
      next_calls[e[1]].append(e[0])
  for g in set(holds):
    members = [w for w in range(cfg['workers']) if sess.group_label(w) == g]
    if len(members) > 1:
      c['groups_with_co-workers_checked'] += 1
      if is_falsy_id(cfg['groups'][members[0]]):
        c['groups_with_co-workers_and_falsy_id_checked'] += 1
  for g, hs in sorted(holds.items()):
    # The earliest-created "second" trial of the group decides (later splits
    # are consequences: the group's latest trial is no longer the held one).
    root = None
    for x, y in itertools.combinations(hs, 2):
      if x[2] == y[2]:
        continue
      c['group_hold_pairs_checked'] += 1
      if x[3] != y[3] and max(x[0], y[0]) < min(x[1], y[1]):
        early, late = (x, y) if proposals[x[3]][0] < proposals[y[3]][0] else (y, x)
        if root is None or proposals[late[3]][0] < proposals[root[1][3]][0]:
          root = (early, late)
    if root is not None:
      early, late = root
      created, creator = proposals[late[3]][0], proposals[late[3]][4]
      began = max([st for st in next_calls.get(creator, []) if st < created], default=0)
      # "concurrent": two trials of this group were created by next() calls of
      # different workers that overlapped in time (not later than this split);
      # the group's latest trial is then no longer the one every member holds.
      # "sequential": no such overlap - the pending trial was simply not reused.
      spans = {}
      for h in hs:
        q = h[3]
        cw = proposals[q][4]
        if q not in spans and proposals[q][0] <= created:
          b0 = max([st for st in next_calls.get(cw, []) if st < proposals[q][0]], default=0)
          e0 = min([x[0] for x in got[q] if x[1] == cw], default=proposals[q][0])
          spans[q] = (b0, e0, cw)
      sequential = not any(
          u[2] != v[2] and u[0] < v[1] and v[0] < u[1]
          for u, v in itertools.combinations(spans.values(), 2))
      falsy = is_falsy_id(cfg['groups'][early[2]])
      bad('group-split', ('sequential-next' if sequential else 'concurrent-next')
          + ('@falsy-group-id' if falsy else ''),
          f'group {g}: worker {early[2]} held pending trial {by_pid[early[3]][0].id} during '
          f'stamps [{early[0]}, {early[1]}) and worker {late[2]} held the different pending '
          f'trial {by_pid[late[3]][0].id} during [{late[0]}, {late[1]}); the latter was created '
          f'at {created} by worker {creator}, whose next() began at {began}')
  return out, dict(private=False, trials=len(trials), finish_race=finish_race)


def _at(start):
  return '@simultaneous' if start == 'simultaneous' else ''


# ---------------------------------------------------------------------------
# Runner interface
# ---------------------------------------------------------------------------


def cases(ctx):
  return ctx.params['cases'] + ctx.params.get('window_cases', 0)


def normalized_history(sess):
  """Client + generator history without wall-clock dependent values."""
  rows = []
  for i, log in enumerate(sess.logs):
    for e in log:
      rows.append((e[0], i) + tuple(x for x in e[1:] if not isinstance(x, str) or len(x) < 40))
  rows.extend(sess.recorder.events)
  return sorted(rows, key=lambda r: (r[0], str(r[1])))


def first_feedbacks_concurrent(sess):
  """Harness fact: the first two feedback() calls came from overlapping done() calls."""
  fbs = sorted(e for e in sess.recorder.events if e[1] == 'feedback')[:2]
  if len(fbs) < 2 or fbs[0][5] == fbs[1][5] or None in (fbs[0][5], fbs[1][5]):
    return False
  spans = []
  for f in fbs:
    call = None
    for e in sess.logs[f[5]]:
      if e[1] == 'call' and e[2] == 'done':
        call = e[0]
      elif e[1] == 'ret' and e[2] == 'done' and call is not None:
        if call < f[0] < e[0]:
          spans.append((call, e[0]))
          break
        call = None
  return len(spans) == 2 and spans[0][0] < spans[1][1] and spans[1][0] < spans[0][1]


def run_case(ctx, i):
  p = ctx.params
  c = ctx.counters
  windowed = i >= p['cases']
  if windowed:
    cfg = gen_window_config(ctx.rng)
  else:
    free = p['free_every'] and i % p['free_every'] == p['free_every'] - 1
    cfg = gen_config(ctx.rng, 'free' if free else 'token')
  name = f'c16-{ctx.tier}-{ctx.seed}-{ctx.shard}-{i}'
  sess = Session(cfg, name, p['watchdog_s'])
  run = sess.execute()
  c['sessions'] += 1
  c['sessions_' + cfg['mode']] += 1
  c['sessions_' + cfg['start']] += 1
  c['sessions_algo_' + cfg['algorithm']] += 1
  c['sessions_iterations_' + cfg.get('iterations', 'single')] += 1
  c['workers'] += cfg['workers']
  c['switches'] += run.switches
  c['schedule_points'] += run.points
  c['lock_blocks'] += run.blocks
  if run.outcome != 'ok':
    c['sessions_inconclusive'] += 1
    c['sessions_outcome_' + run.outcome] += 1
    ctx.notes.setdefault('inconclusive_sessions', []).append(
        dict(index=i, shard=ctx.shard, outcome=run.outcome,
             cfg={k: v for k, v in cfg.items() if k not in ('plans', 'defers')}))
    return
  if cfg['mode'] == 'token':
    ctx.seen('interleavings', run.trace_hash)
    c['interleavings_recorded'] += 1
  window_fp = ()
  if windowed:
    c['sessions_window'] += 1
    c['sessions_window_' + cfg['window']['kind']] += 1
    c['sessions_window_algo_' + cfg['algorithm']] += 1
    pol = sess.wpolicy
    c['windows_opened'] += len(pol.windows)
    c['rendezvous_broken'] += sum(r.broken for r in sess.rendezvous.values())
    for wdw in pol.windows:
      tag, sw = wdw[0], wdw[1:]
      c['window_policy_switches'] += len(sw)
      if len(sw) >= 2:
        c['windows_with_2_or_more_preemptions:' + tag.rstrip('0123456789-')] += 1
      # the explored interleaving of the window: who was pre-empted where
      ctx.seen('window_interleavings:' + tag, repr(sw))
      if tag == 'finish-0':
        ctx.seen('first_finish_window_interleavings', repr(sw))
      for x in sw:
        ctx.seen('window_preemption_sites', x[2])
    window_fp = tuple(pol.window_hashes())
    if first_feedbacks_concurrent(sess):
      # the first two feedbacks of the algorithm's life were reported by
      # done() calls of different workers that overlapped in time
      c['sessions_first_two_feedbacks_in_overlapping_done_calls'] += 1
  case = dict(config=cfg, study=name, trace_hash=run.trace_hash,
              switches=run.switches, points=run.points,
              switch_trace=[list(t[:3]) + [list(t[3])] for t in run.trace[:400]])
  problems, info = check_session(sess, c)
  seen_keys = set()
  for clause, mech, detail in problems:
    if cfg['mode'] == 'free':
      c['free_mode_violations'] += 1
      c[f'free_mode:{clause}:{mech}'] += 1
    if (clause, mech) in seen_keys:
      continue
    seen_keys.add((clause, mech))
    ctx.violation(clause, mech, detail, case)
  if info.get('private'):
    c['sessions_private_study'] += 1
  if windowed:
    if any(len(wdw) >= 3 for wdw in sess.wpolicy.windows) and info.get('trials', 0) >= 2:
      ctx.mark_nontrivial((run.trace_hash, window_fp, cfg['workers'],
                           tuple(map(repr, cfg['groups'])), cfg['n'], cfg['algorithm'],
                           cfg['start']))
  elif cfg['mode'] == 'token' and run.switches >= 3 and info.get('trials', 0) >= 4:
    ctx.mark_nontrivial((run.trace_hash, cfg['workers'], tuple(map(repr, cfg['groups'])),
                         cfg['n'], cfg['algorithm'], cfg['start']))
  # Determinism of the schedule: the same configuration again gives the same
  # interleaving and the same history (what makes a witness replayable).
  if (cfg['mode'] == 'token' and p['replay_every']
      and i % p['replay_every'] == 0):
    again = Session(cfg, name + '-again', p['watchdog_s'])
    run2 = again.execute()
    c['replay_checks'] += 1
    if run2.outcome == 'ok' and run2.trace_hash == run.trace_hash and (
        normalized_history(again) == normalized_history(sess)):
      c['replay_identical'] += 1
    else:
      c['replay_different'] += 1
      ctx.notes.setdefault('replay_different', []).append(dict(index=i, shard=ctx.shard))
  if i < 2 or p['cases'] <= i < p['cases'] + 2:
    ctx.sample(dict(config={k: v for k, v in cfg.items() if k not in ('plans', 'defers')},
                    plan_worker0=cfg['plans'][0][:8], switches=run.switches,
                    points=run.points, trace_hash=run.trace_hash,
                    first_switches=[list(t[:3]) + [list(t[3])] for t in run.trace[:8]],
                    violations=sorted(f'{a}:{b}' for a, b in seen_keys)))


def teardown(ctx):
  n = ctx.counters.get('sessions_inconclusive', 0)
  if n:
    raise RuntimeError(
        f'{n} sessions ended by the scheduler watchdog/deadlock detector: '
        f'{ctx.notes.get("inconclusive_sessions")}')


def minimal_repro(which, seeds=range(200)):
  """Bare-API reproductions (no recording wrapper) of the findings seen on /repo.

  which: private | setup | double | doneskip | split | racemsg.  Returns
  [(seed, text)].  `racemsg` needs switches inside pyglove/core/symbolic/dict.py
  (outside the C16 target files; the free-running sessions reach it).
  """
  targets = TARGETS
  space = pg.Dict(a=pg.oneof([1, 2, 3, 4]), b=pg.oneof([1, 2, 3]))
  hits = []
  for seed in seeds:
    name = f'c16-repro-{which}-{seed}'
    algo = (evo.regularized_evolution(evo.mutators.Uniform(seed=1), population_size=3,
                                      tournament_size=2, seed=1)
            if which in ('setup', 'racemsg') else pg.geno.Random(seed=1))
    handed, errs, snap, cur = [], [], [], {}
    if which in ('private', 'setup'):
      # two simultaneous first callers of a named study, N=4
      sc = S.Scheduler(seed, targets=targets, p_switch=0.3 if which == 'setup' else 0.1)

      def w():
        try:
          for _, fb in pg.sample(space, algo, num_examples=4, name=name):
            handed.append(fb.id)
            fb(1.0)
        except Exception as e:  # pylint: disable=broad-except
          errs.append(repr(e))

      sc.run([w, w])
      ids = [t.id for t in pg.poll_result(name).trials]
      if which == 'private' and len(handed) > 4:
        hits.append((seed, f'num_examples=4 but trial ids handed out: {sorted(handed)}; '
                     f'pg.poll_result ids: {ids}'))
      if which == 'setup' and errs:
        hits.append((seed, f'worker raised {errs}'))
    else:
      # two co-workers (group "g"); worker 0 holds its first trial before worker 1 starts
      sc = S.Scheduler(seed, targets=targets, p_switch=0.1, solo_first=True)
      if which == 'racemsg':
        sc = S.Scheduler(seed, targets=targets + ['pyglove/core/symbolic/dict.py'],
                         p_switch=0.01, change_points=3, horizon=6000, solo_first=True)

      def mk(i):
        def w():
          try:
            body(i)
          except Exception as e:  # pylint: disable=broad-except
            errs.append(repr(e))

        def body(i):
          for _, fb in pg.sample(space, algo, num_examples={'split': 4, 'racemsg': 3}.get(which, 2),
                                 name=name, group='g'):
            sc.enable_switching()
            if which == 'split':
              cur[i] = fb
              o = cur.get(1 - i)
              if (o is not None and o.id != fb.id and o.get_trial().status == 'PENDING'
                  and fb.get_trial().status == 'PENDING'):
                snap.append((i, fb.id, 1 - i, o.id))
            with fb.ignore_race_condition():
              if which == 'doneskip' and i == 1:
                fb.skip()
              else:
                fb(1.0)
        return w

      sc.run([mk(0), mk(1)])
      r = pg.poll_result(name)
      feas = sum(not t.infeasible for t in r.trials)
      if which == 'racemsg':
        if errs:
          hits.append((seed, f'worker raised {errs}'))
      elif which == 'split':
        if snap:
          hits.append((seed, f'(worker, its PENDING trial, co-worker, its PENDING trial): {snap}'))
      elif algo.num_feedbacks != feas:
        hits.append((seed, f'{feas} feasible trials but algorithm.num_feedbacks='
                     f'{algo.num_feedbacks}; summary {r.format(compact=True)}'))
  return hits


def main(argv):
  """Re-runs one case and prints what the checker saw.

  /venv/bin/python -m pgverif.props.c16 <tier> <seed> <shard> <index> [-v]
  /venv/bin/python -m pgverif.props.c16 repro private|setup|double|doneskip|split|racemsg [first_seed [n]]
  """
  if argv and argv[0] == 'repro':
    first = int(argv[2]) if len(argv) > 2 else 0
    n = int(argv[3]) if len(argv) > 3 else 200
    hits = minimal_repro(argv[1], range(first, first + n))
    print(f'{argv[1]}: {len(hits)} of {n} schedule seeds from {first} show it')
    for seed, text in hits[:3]:
      print(f'  schedule seed {seed}: {text}')
    return
  tier, seed, shard, index = argv[0], int(argv[1]), int(argv[2]), int(argv[3])
  verbose = '-v' in argv
  p = TIERS[tier]
  rng = random.Random(f'C16/{seed}/{shard}/{index}/')
  if index >= p['cases']:
    cfg = gen_window_config(rng)
  else:
    free = p['free_every'] and index % p['free_every'] == p['free_every'] - 1
    cfg = gen_config(rng, 'free' if free else 'token')
  sess = Session(cfg, f'c16-main-{tier}-{seed}-{shard}-{index}', p['watchdog_s'])
  run = sess.execute()
  print('config:', {k: v for k, v in cfg.items() if k not in ('plans', 'defers')})
  if cfg.get('defers'):
    print('defers of worker 0:', cfg['defers'][0][:8])
  print('run:', run)
  counters = collections.Counter()
  problems, _ = check_session(sess, counters)
  if verbose:
    rows = []
    for i, log in enumerate(sess.logs):
      rows.extend((e[0], f'worker {i} [{sess.group_label(i)}]') + tuple(
          x if not isinstance(x, str) or len(x) < 60 else x[-200:] for x in e[1:])
                  for e in log)
    rows.extend((e[0], 'algorithm') + tuple(e[1:]) for e in sess.recorder.events)
    for r in sorted(rows, key=lambda r: r[0]):
      print('  ', *r)
    print('switch trace:', run.trace[:200])
    if sess.wpolicy is not None:
      print('windows:', sess.wpolicy.windows)
  for clause, mech, detail in problems:
    print(f'VIOLATED {clause}:{mech}\n    {detail}')
  if not problems:
    print('all clauses held')


if __name__ == '__main__':
  import sys
  main(sys.argv[1:])
