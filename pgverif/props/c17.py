"""C17 — scoped settings restore exactly and never leak across threads.

The table of context managers (argument generators, observers = public getter
+ behavioural probe, reference nesting rule, documented scope) lives in
`pgverif/monitors/scopes.py`.  This module generates well-nested programs over
that table, executes them against the library and a model side by side, and
evaluates three monitors:

  effective-inside   at every block entry (and before every nested entry) all
                     observers agree with the nesting model; also right after
                     an event inside the block (scopes.EVENTS: user code the
                     library dispatches to raises and the program catches the
                     exception inside the block), and for every nested block
                     entered after it;
  restore            model-free: the full snapshot of all observers taken
                     before a `with` statement equals the snapshot taken after
                     it, for normal exit, exception exit, a raising enter and
                     a raising (validating) exit; residue observers (behaviour
                     no setting governs) are judged under this clause wherever
                     a deviation is noticed;
  thread-isolation   the same programs on 2-4 threads (free running, lock-step
                     and under the deterministic scheduler of monitors/sched.py);
                     every thread checks its own model at every step; fresh
                     threads spawned in the middle of a program must see the
                     defaults of every per-thread setting; the only sanctioned
                     propagation is `pg.with_contextual_override`.
"""
import collections
import copy
import sys
import threading
import time

import pyglove as pg
from pgverif.monitors import scopes as S

try:
  from pgverif.monitors import sched as SCHED   # pylint: disable=g-import-not-at-top
except Exception:  # pylint: disable=broad-except
  SCHED = None

TIERS = {
    'quick': dict(shards=8, programs=250, thread_cases=25, timeout_s=600, case_timeout_s=300),
    'thorough': dict(shards=16, programs=2000, thread_cases=200, timeout_s=3000, case_timeout_s=300),
}
RULE = ('case = one random well-nested program of `with` blocks over the 24 scoped '
        'context managers of scopes.MANAGERS (all documented argument values, '
        'incl. DynamicEvaluationContext.apply over collected / external, '
        'positional / named search spaces with list and DNA decisions, whose '
        'validating exit raises when the body leaves decisions unused: the block '
        'is then left by the exception of the exit path itself, the same context '
        'applied inside its own block; empty collections as arguments '
        '(apply_wrappers([]), detour([]), no types / overrides / kwargs); '
        'arguments that pass the documented check but make ENTERING fail '
        'half-way (a detour source class whose __new__ cannot be set) at any '
        'nesting position, '
        'nesting depth <= 6, different managers mixed; dict-valued options of '
        'view_options / mutable values of thread_local_arg_scope and coding.context, '
        'the same option refined at several levels), `pg.view(..., **kwargs)` calls '
        '(implicit view_options scope), the caller\'s argument objects compared '
        'with a copy taken before the statement, with `raise` statements '
        '(two Exception classes and one BaseException) at arbitrary points, caught '
        'by `try` blocks / pg.catch_errors at arbitrary levels or escaping, and '
        'documented public uses (scopes.USES: every public method of TimeIt, '
        'reads of yielded mappings / error contexts) of the object any '
        'enclosing block yielded, at arbitrary points of the block; '
        'events at arbitrary points (scopes.EVENTS: a detour destination class / '
        'function, a wrapped class, a change callback / _on_change / _on_bound, a '
        'view or extension method, format, a functor body, evaluated code, the '
        'dynamic-evaluation function, a preset-args function, a propagated '
        'function raises and the exception is caught inside all enclosing blocks; '
        'the ContextualObject an override is attached to is rebound inside the block); '
        'threads started inside the blocks observe the defaults, also on the objects '
        'the spawning thread\'s settings are attached to (its ContextualObject, its '
        'DynamicEvaluationContext); a subclass of a detour source class is '
        'constructed before / after every detour block; '
        'for 30% of the `with` statements the scope object is created ahead of '
        'the statement (at program start, in an enclosing block before the blocks '
        'in between are entered, or inside a block that has been left) and '
        'entered later, for every manager; '
        'first `thread_cases` indices run 2-4 such programs concurrently '
        '(free-running with sleep(0), lock-step barriers, or token scheduler with '
        'LINE events in the scope implementation files). Non-trivial = at least 3 '
        'blocks entered, nesting depth >= 2 and at least 2 different managers; '
        'distinct by the nested sequence of (manager, exit kind).')
REQUIRED_COUNTERS = ['model_checks', 'restore_checks', 'restore_checks_exc_exit',
                     'restore_checks_exit_raised', 'first_statement_checks',
                     'yielded_uses', 'argument_unchanged_checks', 'view_calls',
                     'events_raised', 'scopes_entered_late',
                     'nested_same_dict_option',
                     'fresh_thread_checks', 'same_object_checks_while_in_scope',
                     'thread_model_checks',
                     'thread_checks_while_other_in_scope']
ASSUMPTIONS = [
    'observers are public API only (getters of pg.symbolic/pg.utils/pg.coding/'
    'pg.detouring, values bound by `with ... as`, and behavioural probes); '
    'pg.hyper.base.get_dynamic_evaluate_fn and pg.utils.thread_local.* are '
    'module-level functions without a leading underscore',
    'process-wide managers (apply_wrappers, dynamic_evaluate(per_thread=False), '
    'load_types_for_deserialization) are driven by one thread only and are not '
    'checked for isolation; their restore law is also observed from a fresh thread',
    'construction probes are don\'t-care under as_sealed(True), '
    'allow_writable_accessors(False) and enable_type_check(False) '
    '(entangled, not C17)',
    'mixing per-thread and process-wide dynamic_evaluate is undocumented: only '
    'the restore law is checked for it',
    'every program runs on a fresh thread, so a case starts from pristine '
    'thread-local state',
    'public uses of a yielded object (TimeIt.end/start/add/status/properties, '
    'reads of yielded mappings) are not documented to change any scoped '
    'setting: the model state is unchanged by them; only an exception from a '
    'use and the unchanged restore / effective-inside laws are judged',
    'creating a scope object without entering it is not documented to have any '
    'effect (every manager is documented as a context manager: its setting is '
    'effective "inside the block"); a scope object is entered at most once',
    'an exception raised by user code the library dispatches to and caught '
    'inside the block is not documented to change any scoped setting; how many '
    'calls of an event raise is not judged',
]
LEVEL = 'exploration'

SCHED_TARGETS = [
    'pyglove/core/utils/thread_local.py', 'pyglove/core/symbolic/flags.py',
    'pyglove/core/utils/contextual.py', 'pyglove/core/utils/formatting.py',
    'pyglove/core/utils/timing.py', 'pyglove/core/utils/error_utils.py',
    'pyglove/core/detouring/class_detour.py', 'pyglove/core/coding/permissions.py',
    'pyglove/core/coding/execution.py', 'pyglove/core/views/base.py',
    'pyglove/core/typing/callable_ext.py', 'pyglove/core/hyper/base.py',
    'pyglove/core/hyper/dynamic_evaluation.py',
    'pyglove/core/symbolic/contextual_object.py',
]
MAX_DEPTH = 6
P_USE = 0.2          # a use of an enclosing block's yielded object per statement
P_EVENT = 0.12       # an event (scopes.EVENTS) per statement
P_EARLY = 0.3        # the scope object of a `with` is created ahead of the statement
SAME_CONTEXT_NESTING = True   # `ctx.apply` inside a block of the same context object


class _Abort(BaseException):
  """Unwinds a program (scheduler abort / watchdog)."""


def _passthrough(e):
  return type(e).__name__ in ('SchedulerAbort', 'CaseTimeout', '_Abort')


# ---------------------------------------------------------------------------
# Program generation.
# ---------------------------------------------------------------------------
class EnvSpec:
  """Generation-time facts about the thread that will run a program."""

  def __init__(self, tid, process_ok, solo, foreign_process_de=False,
               allow_spawn=True, process_de_ok=None):
    self.tid, self.process_ok, self.solo = tid, process_ok, solo
    self.foreign_process_de = foreign_process_de
    self.allow_spawn = allow_spawn
    # may this thread use dynamic_evaluate(per_thread=False)?
    self.process_de_ok = process_ok if process_de_ok is None else process_de_ok


def available(spec, disabled=()):
  out = []
  for name, m in sorted(S.MANAGERS.items()):
    if name in disabled:
      continue
    if m.scope == 'process' and not spec.process_ok:
      continue
    if name in ('dynamic_evaluate', S.APPLY) and spec.foreign_process_de:
      continue
    out.append(name)
  return out


def gen_program(rng, spec, disabled=()):
  names = available(spec, disabled)
  budget = [rng.randint(5, 24)]
  target = rng.choice([1, 2, 2, 3, 3, 4, 4, 5, 6, 6])
  ids = [0]
  events = sorted(n for n, e in S.EVENTS.items()
                  if e.mgr not in disabled and (e.scope != 'process' or spec.process_ok))

  def place_creation(node, outs):
    """Puts the statement that creates the scope object of `node` somewhere
    before the `with` statement: at the very start of the program, at the
    current end of an enclosing block (i.e. before the chain of blocks that
    leads here is entered), or inside a block / try that has been completed
    already (the object is created under settings that are gone when it is
    entered)."""
    create = {'k': 'create', 'id': node['id'], 'm': node['m']}
    r = rng.random()
    if r < 0.15:
      outs[0].insert(0, create)
      node['early'] = 'program-start'
      return
    if r < 0.45:
      rng.choice(outs).append(create)
      node['early'] = 'enclosing-block'
      return
    # inside a completed statement of an enclosing block
    cands = [x for o in outs for x in o if x['k'] in ('with', 'try')]
    if not cands:
      rng.choice(outs).append(create)
      node['early'] = 'enclosing-block'
      return
    body = rng.choice(cands)['body']
    while True:
      deeper = [x for x in body if x['k'] in ('with', 'try')]
      if not deeper or rng.random() < 0.5:
        break
      body = rng.choice(deeper)['body']
    stop = next((k for k, x in enumerate(body) if x['k'] == 'raise'), len(body))
    body.insert(rng.randint(0, stop), create)
    node['early'] = 'left-block'

  def gen_with(depth, state, stack, outs):
    for _ in range(8):
      # The nesting rule of a manager only shows when it is nested in itself
      # (or in the manager it shares its setting with).
      again = [x for x in stack if x in names]
      if again and rng.random() < 0.3:
        name = rng.choice(again)
        if name in ('detour', 'apply_wrappers') and 'apply_wrappers' in names:
          name = rng.choice(['detour', 'detour', 'apply_wrappers'])
      else:
        name = rng.choice(names)
      m = S.MANAGERS[name]
      if not m.usable(state, spec):
        continue
      args = m.gen(rng, spec, state)
      if name == S.APPLY and args['ctx'] in state['dectx'] and not SAME_CONTEXT_NESTING:
        continue
      if name == 'dynamic_evaluate' and not args.get('invalid'):
        mixed = ((args['per_thread'] and state['de_glob'] is not None) or
                 (not args['per_thread'] and state['de_tls'] != S.NOSCOPE))
        # The undocumented mix is generated rarely and never while other
        # threads run (its residue is process-wide).
        if mixed and (not spec.solo or rng.random() < 0.4):
          continue
      break
    else:
      name, m = 'notify_on_change', S.MANAGERS['notify_on_change']
      args = m.gen(rng, spec, state)
    inner = state
    ids[0] += 1
    node = {'k': 'with', 'm': name, 'a': args, 'body': None, 'id': ids[0],
            'heavy': rng.random() < 0.1}
    if m.enter(state, args, spec) == 'no':
      inner = m.push(state, args, spec)
      if rng.random() < P_EARLY:
        place_creation(node, outs)
    node['body'] = block(depth + 1, inner, stack + [name], outs)
    return node

  def gen_event(stack):
    # an event of a manager the statement is inside of, or any event
    near = [n for n in events if any(f in stack for f in S.EVENTS[n].focus)
            or (n == 'wrapped-init-raises' and 'detour' in stack)]
    return {'k': 'event', 'e': rng.choice(near if near and rng.random() < 0.7
                                          else events)}

  def gen_use(stack):
    # the object yielded by any enclosing block, used as documented
    level = rng.choice([k for k, x in enumerate(stack) if x in S.USES])
    return {'k': 'use', 'level': level, 'm': stack[level],
            'u': rng.choice(S.USES[stack[level]]).name}

  def block(depth, state, stack, outs):
    out = []
    outs = outs + [out]
    n = rng.randint(1, 3)
    for j in range(n):
      if budget[0] <= 0:
        break
      if any(x in S.USES for x in stack) and rng.random() < P_USE:
        out.append(gen_use(stack))      # (does not count against the budget)
      if events and rng.random() < P_EVENT:
        out.append(gen_event(stack))    # (neither)
      budget[0] -= 1
      r = rng.random()
      if depth < MAX_DEPTH and (r < 0.58 or (j == 0 and depth < target)):
        out.append(gen_with(depth, state, stack, outs))
      elif r < 0.70:
        body = block(depth, state, stack, outs) if budget[0] > 0 else []
        if body and not (len(body) == 1 and body[0]['k'] == 'try'):
          out.append({'k': 'try', 'catch': rng.choice(['E1', 'E2', 'any', 'any']),
                      'body': body})
      elif r < 0.82:
        kind = rng.choice(['E1', 'E2', 'E2', 'E3'])
        out.append({'k': 'raise', 'exc': kind,
                    'msg': rng.choice(['boom-1', 'boom-2', 'other'])})
        break                      # the rest of the block would be unreachable
      elif r < 0.86 and 'view_options' in names:
        # a render call with per-call options opens a view_options scope itself
        out.append({'k': 'view-call',
                    'a': S.MANAGERS['view_options'].gen(rng, spec, state)})
      elif r < 0.90 and spec.allow_spawn:
        out.append({'k': 'spawn'})
      elif r < 0.95 and spec.allow_spawn:
        out.append({'k': 'propagate'})
      else:
        out.append({'k': 'obs'})
    return out

  program = block(0, S.default_state(), [], [])

  # (a generated statement can be dropped with the block it is in: drop the
  # creation statements of scope objects that are never entered by the program)
  def with_ids(ns):
    for n in ns:
      if n['k'] == 'with':
        yield n['id']
      yield from with_ids(n.get('body', ()))
  present = set(with_ids(program))

  def prune(ns):
    ns[:] = [n for n in ns if n['k'] != 'create' or n['id'] in present]
    for n in ns:
      if 'body' in n:
        prune(n['body'])
  prune(program)
  return program


def show(nodes, indent=0):
  out = []
  pad = '  ' * indent
  for n in nodes:
    if n['k'] == 'with':
      early = f"   # scope object cm{n['id']} ({n['early']})" if n.get('early') else ''
      out.append(f"{pad}with {n['m']}({n['a']}):{early}")
      out.extend(show(n['body'], indent + 1) or [pad + '  pass'])
    elif n['k'] == 'try':
      out.append(f'{pad}try:')
      out.extend(show(n['body'], indent + 1) or [pad + '  pass'])
      out.append(f"{pad}except {n['catch']}: pass")
    elif n['k'] == 'raise':
      out.append(f"{pad}raise {n['exc']}({n['msg']!r})")
    elif n['k'] == 'use':
      out.append(f"{pad}use {n['u']} of y bound by {n['m']} (block level {n['level']})")
    elif n['k'] == 'view-call':
      out.append(f"{pad}pg.view(1, view_id=<probe view>, **{n['a']['kw']})")
    elif n['k'] == 'create':
      out.append(f"{pad}cm{n['id']} = {n['m']}(...)   # entered later")
    elif n['k'] == 'event':
      out.append(f"{pad}event {n['e']} (caught here)")
    else:
      out.append(pad + n['k'])
  return out


def m_exit_raises(n):
  return S.MANAGERS[n['m']].exit_raises(n['a'])


# ---------------------------------------------------------------------------
# Execution of one program against library and model.
# ---------------------------------------------------------------------------
class Shared:
  """Facts shared by the threads of one concurrent case (harness-only)."""

  def __init__(self, n):
    self.depth = [0] * n


class Exec:
  """Runs a program in the calling thread; thread-confined."""

  def __init__(self, env, hook=None, shared=None, concurrent=False, muted_mgrs=()):
    self.env = env
    self.muted_mgrs = set(muted_mgrs)
    self.state = S.default_state()
    self.hook = hook or (lambda: None)
    self.shared = shared
    self.concurrent = concurrent
    self.counters = collections.Counter()
    self.violations = []            # (clause, mechanism, detail)
    self.muted = set()
    self.path = []                  # labels of the enclosing with-blocks
    self.ys = []                    # (manager, label, yielded object) of the same
    self.shape = []                 # fingerprint of what happened
    self.max_depth = 0
    self.managers_entered = set()
    self.had_thread_de = False      # a per-thread dynamic_evaluate block was left
    self.deaf_reported = False
    self.created_note = ''
    self.withs = {}                 # id -> `with` node of the program
    self.cms = {}                   # id -> (scope object created ahead, exit token, where)

  # -- observation -------------------------------------------------------------
  def snapshot(self, full, fresh=False, focus=None):
    env, st = self.env, self.state
    snap = {}
    foci = focus if isinstance(focus, tuple) else (focus,)
    for o in S.OBSERVERS:
      if o.name in self.muted or not any(S.applicable(o, env, full, f) for f in foci):
        continue
      if o.mgr.split('[')[0] in self.muted_mgrs:
        continue
      if o.intrusive and o.expect(st, env) == S.DONTCARE:
        continue
      if o.perturbs is not None and o.perturbs(st):
        continue
      try:
        snap[o.name] = o.observe(env)
      except Exception as e:  # pylint: disable=broad-except
        # a getter / probe that raises is an observation like any other
        snap[o.name] = ('observer-raised', type(e).__name__)
      self.counters['observer_evals'] += 1
    if fresh:
      r = S.in_fresh_thread(lambda: fresh_process_view())
      if r[0] == 'ok':
        for k, v in r[1].items():
          snap['fresh-thread:' + k] = v
        self.counters['fresh_thread_process_views'] += 1
    return snap

  def setting_muted(self, mname):
    """Was a violation on the setting of manager `mname` reported already?"""
    mgrs = {'detour', 'apply_wrappers'} if mname in ('detour', 'apply_wrappers') else {mname}
    return any(S.OBS_BY_NAME[k].mgr.split('[')[0] in mgrs
               for k in self.muted if k in S.OBS_BY_NAME)

  def report(self, clause, mech, detail):
    self.violations.append((clause, mech, detail + '\n  at: ' + ' > '.join(self.path)))

  def de_expects_process_fn(self):
    st = self.state
    return st['de_tls'] == S.NOSCOPE and self.env.process_ok

  def check_model(self, snap, clause, via=None):
    """Compares the observers with the nesting model of the current state.

    via: the event (scopes.EVENTS) that happened since the previous, passing
    comparison of the same observers."""
    env, st = self.env, self.state
    bad = collections.OrderedDict()
    other_in_scope = (self.shared is not None and any(
        d > 0 for k, d in enumerate(self.shared.depth) if k != env.tid))
    for name, got in snap.items():
      o = S.OBS_BY_NAME.get(name)
      if o is None or name in self.muted:
        continue
      exp = o.expect(st, env)
      if exp == S.DONTCARE:
        self.counters['model_dontcare'] += 1
        continue
      if o.mgr.startswith('dynamic_evaluate') and self.deaf_reported \
          and self.de_expects_process_fn():
        continue
      self.counters['model_checks'] += 1
      self.counters['model_checks:' + o.kind] += 1
      if self.concurrent:
        self.counters['thread_model_checks'] += 1
        if other_in_scope:
          self.counters['thread_checks_while_other_in_scope'] += 1
      if not S.match(got, exp):
        bad.setdefault(o.mgr, []).append((name, got, exp))
    for mgr, items in bad.items():
      detail = '; '.join(f'{n}: observed {g!r}, model {e!r}' for n, g, e in items)
      if mgr.startswith('dynamic_evaluate') and self.de_expects_process_fn() \
          and (st['de_glob'] is not None or mgr == 'dynamic_evaluate[process]'):
        # a process-wide function should be effective in this thread
        self.report('process-scope-ignored',
                    'dynamic_evaluate' + ('@after-thread-scope'
                                          if self.had_thread_de else ''), detail)
        self.deaf_reported = True
        self.muted.add('de.process-scope-effective')
        continue
      label = mgr
      if mgr == 'dynamic_evaluate':
        label = next((p for p in reversed(self.path)
                      if p.startswith('dynamic_evaluate')), mgr)
      elif mgr in S.RESIDUE_MECHS:
        self.report('restore', mgr, 'left behind by an earlier block (noticed '
                    'here): ' + detail)
        for n, _, _ in items:
          self.muted.add(n)
        continue
      else:
        # (the innermost enclosing block of that manager, with its variant)
        label = next((p for p in reversed(self.path)
                      if p != mgr and p.startswith(mgr) and p[len(mgr)] in ':@'), mgr)
      if via:
        label = f'{label}@after:{via}'
        detail = f'after the event {via} (exceptions caught inside the block): ' + detail
      self.report(clause if self.path else 'default-state', label, detail)
      for n, _, _ in items:
        self.muted.add(n)

  # -- program interpreter -----------------------------------------------------
  def run(self, nodes, full=True):
    """Runs a whole program; returns how it ended."""
    def index(ns):
      for n in ns:
        if n['k'] == 'with':
          self.withs[n['id']] = n
        if 'body' in n:
          index(n['body'])
    index(nodes)
    S.prepare_contexts(self.env, nodes)    # (in the default state)
    snap = self.snapshot(full)
    self.check_model(snap, 'default-state')
    try:
      self.run_nodes(nodes)
      end = 'normal'
    except (S.E1, S.E2, S.E3) as e:
      end = 'escaped:' + type(e).__name__
      self.counters['exceptions_escaped_to_top'] += 1
    snap = self.snapshot(full)
    self.check_model(snap, 'default-state')
    return end

  def run_nodes(self, nodes):
    for n in nodes:
      self.hook()
      k = n['k']
      if k == 'with':
        self.run_with(n)
      elif k == 'try':
        catch = {'E1': S.E1, 'E2': S.E2, 'any': (S.E1, S.E2, S.E3)}[n['catch']]
        try:
          self.run_nodes(n['body'])
        except catch:
          self.counters['caught_by_try'] += 1
          self.shape.append('caught')
      elif k == 'raise':
        self.counters['raised:' + n['exc']] += 1
        self.shape.append('raise-' + n['exc'])
        raise S.EXC[n['exc']](n['msg'])
      elif k == 'obs':
        self.check_model(self.snapshot(False), 'effective-inside')
      elif k == 'use':
        self.run_use(n)
      elif k == 'view-call':
        self.run_view_call(n)
      elif k == 'create':
        self.run_create(n)
      elif k == 'event':
        self.run_event(n)
      elif k == 'spawn':
        self.spawn_check()
      elif k == 'propagate':
        self.propagate_check()

  def run_use(self, n):
    """A documented public use of the object an enclosing block yielded."""
    mname, label, y = self.ys[n['level']]
    assert mname == n['m'], (mname, n)
    use = next(u for u in S.USES[mname] if u.name == n['u'])
    self.counters['yielded_uses'] += 1
    self.counters[f'use:{mname}.{use.name}'] += 1
    self.shape.append(('use', mname, use.name))
    try:
      use.apply(y, self.env)
    except Exception as e:  # pylint: disable=broad-except
      if _passthrough(e):
        raise
      self.report('unexpected-exception', f'{label}.use:{use.name}',
                  f'{use.name} of the object yielded by {mname} raised {e!r}')

  def run_create(self, n):
    """Creates the scope object of a later `with` statement now (a scope
    object stored / returned by a helper and entered elsewhere).  Creating it
    is not documented to have any effect: the model state is unchanged and the
    statement that enters it is judged as any other."""
    w = self.withs[n['id']]
    m = S.MANAGERS[w['m']]
    if w['m'] in self.muted_mgrs or n['id'] in self.cms:
      return
    env = self.env
    env.exit_token = None
    self.counters['scopes_created_early'] += 1
    self.counters['created_early:' + w['m']] += 1
    try:
      cm = m.make(w['a'], env)
    except Exception as e:  # pylint: disable=broad-except
      if _passthrough(e):
        raise
      self.report('unexpected-exception', w['m'] + '.create',
                  f'creating {w["m"]}({w["a"]}) (not entered yet) raised {e!r}')
      return
    self.cms[n['id']] = (cm, env.exit_token, ' > '.join(self.path) or '<top level>')

  def run_event(self, n):
    """User code the library dispatches to raises; the program catches it here.
    Every setting must be as effective afterwards as it was before."""
    ev = S.EVENTS[n['e']]
    if ev.mgr in self.muted_mgrs:
      return
    if ev.perturbs is not None and ev.perturbs(self.state):
      return
    before = self.snapshot(False, False, ev.focus)
    self.check_model(before, 'effective-inside')
    self.counters['events'] += 1
    self.counters['event:' + ev.name] += 1
    self.shape.append(('event', ev.name))
    outcomes = ev.apply(self.env)
    raised = sum(1 for r in outcomes if r[0] == 'raise')
    self.counters['event_calls'] += len(outcomes)
    self.counters['event_calls_raised'] += raised
    if raised:
      self.counters['events_raised'] += 1
    self.hook()
    after = self.snapshot(False, False, ev.focus)
    self.check_model(after, 'effective-inside', via=ev.name)
    # (model-free, covers the observers whose expectation is a don't-care)
    by_mgr = collections.OrderedDict()
    for k in before:
      if k in after and before[k] != after[k] and k not in self.muted:
        by_mgr.setdefault(S.OBS_BY_NAME[k].mgr, []).append((k, before[k], after[k]))
    for mgr, items in by_mgr.items():
      self.report('effective-inside' if self.path else 'default-state',
                  f'{mgr}@after:{ev.name}',
                  f'the event {ev.name} (exceptions caught inside the block) changed ' +
                  '; '.join(f'{k}: before {b!r}, after {a!r}' for k, b, a in items))
      for k, _, _ in items:
        self.muted.add(k)

  def run_view_call(self, n):
    """`pg.view(value, **kwargs)`: the per-call options are effective for the
    call (merged into the enclosing scope's), gone after it, and the caller's
    argument objects are left as they were."""
    if 'view_options' in self.muted_mgrs or any(
        k.startswith('viewopt.') for k in self.muted):
      return
    kw = n['a']['kw']
    kw0 = copy.deepcopy(kw)
    label = 'view(**kwargs)'
    before = self.snapshot(False, False, 'view_options')
    self.check_model(before, 'effective-inside')
    self.counters['view_calls'] += 1
    self.shape.append(label)
    try:
      got = pg.view(1, view_id=S.ProbeView.VIEW_ID, **kw).content
    except Exception as e:  # pylint: disable=broad-except
      if _passthrough(e):
        raise
      self.report('unexpected-exception', label, f'pg.view(1, **{kw0}) raised {e!r}')
      return
    want = repr(S.canon_yield('view_options', S.deep_merge(self.state['viewopt'], kw0)))
    self.counters['model_checks'] += 1
    if got != want:
      self.report('effective-inside', label,
                  f'pg.view(1, **{kw0}) rendered with {got}, model {want}')
    after = self.snapshot(False, False, 'view_options')
    self.counters['restore_checks'] += 1
    self.counters['restore_checks_view_call'] += 1
    diff = [(k, before[k], after[k]) for k in before
            if k in after and before[k] != after[k] and k not in self.muted]
    if diff:
      self.report('restore', label, f'after pg.view(1, **{kw0}): ' + '; '.join(
          f'{k}: before {b!r}, after {a!r}' for k, b, a in diff))
      for k, _, _ in diff:
        self.muted.add(k)
    self.counters['argument_unchanged_checks'] += 1
    if kw != kw0:
      self.report('argument-modified', label,
                  f'keyword arguments {kw0} of pg.view are {kw} after the call')
      n['a']['kw'] = kw0

  def run_with(self, n):
    env = self.env
    m = S.MANAGERS[n['m']]
    args = n['a']
    args0 = copy.deepcopy(args)
    label = m.label(self.state, args, env)
    heavy = n['heavy']
    fresh = m.scope == 'process' or n['m'] in ('dynamic_evaluate', S.APPLY)
    fresh = fresh and env.solo and not self.concurrent
    before = self.snapshot(heavy, fresh, n['m'])
    self.check_model(before, 'effective-inside')
    saved = self.state
    expect_enter = m.enter(saved, args, env)
    entered = False
    body_exc = out_exc = None
    y = exit_token = None
    env.exit_exc = None
    env.exit_token = None
    depth = len(self.path) + 1
    created_at = None
    try:
      if n['id'] in self.cms:
        # created ahead of the statement (possibly under other settings)
        cm, exit_token, created_at = self.cms.pop(n['id'])
        self.counters['scopes_entered_late'] += 1
        self.counters['entered_late:' + n.get('early', '?')] += 1
      else:
        cm = m.make(args, env)
        exit_token = env.exit_token
      with cm as y:
        entered = True
        self.state = m.push(saved, args, env)
        if n['m'] == 'view_options' and any(
            isinstance(v, dict) and isinstance(saved['viewopt'].get(k), dict)
            and set(v) - set(saved['viewopt'][k]) for k, v in args['kw'].items()):
          # the same dict-valued option refined with other keys by a nested scope
          self.counters['nested_same_dict_option'] += 1
        self.path.append(label)
        self.ys.append((n['m'], label, y))
        if n['m'] == 'timeit':
          env.timeits.append(y)
        if self.shared is not None:
          self.shared.depth[env.tid] = depth
        self.counters['blocks_entered'] += 1
        self.counters['enter:' + label] += 1
        self.counters[f'depth:{depth}'] += 1
        self.max_depth = max(self.max_depth, depth)
        self.managers_entered.add(n['m'])
        self.hook()
        if m.first is not None and not self.setting_muted(n['m']):
          # the first statement of the block: the documented use of the setting
          self.counters['first_statement_checks'] += 1
          self.counters['model_checks'] += 1
          got_f, exp_f = m.first(args, env), m.first_expect(self.state, args, env)
          if got_f != exp_f:
            self.report('effective-inside', label, f'first statement of `with '
                        f'{n["m"]}({args})`: observed {got_f!r}, model {exp_f!r}')
        elif m.first is not None:
          m.first(args, env)
        inside = self.snapshot(heavy, False, n['m'])
        exp_y = m.yielded(self.state, args, env)
        if exp_y != S.DONTCARE and not self.setting_muted(n['m']):
          self.counters['yield_checks'] += 1
          got_y = S.canon_yield(n['m'], y)
          if got_y != exp_y:
            self.report('yielded', label, f'`with {n["m"]}({args}) as y`: y is '
                        f'{got_y!r}, model {exp_y!r}')
        self.check_model(inside, 'effective-inside')
        try:
          self.run_nodes(n['body'])
        except BaseException as e:
          body_exc = e
          raise
    except BaseException as e:  # pylint: disable=broad-except
      if _passthrough(e):
        raise
      out_exc = e
    # ---- after the with statement ----
    self.state = saved
    if entered:
      self.path.pop()
      self.ys.pop()
      if n['m'] == 'timeit':
        env.left_timeits.append(env.timeits.pop())
      if self.shared is not None:
        self.shared.depth[env.tid] = depth - 1
      if (n['m'] == 'dynamic_evaluate' and args['per_thread']) or n['m'] == S.APPLY:
        self.had_thread_de = True
    self.hook()
    after = self.snapshot(heavy, fresh, n['m'])
    exit_kind = ('enter-raised' if not entered else
                 # the manager's validating exit raised: the block was left by
                 # an exception of the exit path itself (the body finished, or
                 # a non-`Exception` left it and the exit validated all the same)
                 'exit-raised' if (out_exc is not None and out_exc is not body_exc
                                   and m.exit_raises(args)) else
                 'exception' if body_exc is not None else 'normal')
    self.shape.append((label, exit_kind) if created_at is None
                      else (label, exit_kind, n.get('early')))
    self.created_note = '' if created_at is None else (
        f' [the scope object was created ahead of the statement, at: {created_at}]')

    # exception flow
    reraise = None
    self.path.append(label + '[exit]')
    try:
      if not entered:
        self.counters['enter_raised'] += 1
        if expect_enter == 'no':
          self.report('unexpected-exception', label + '.enter',
                      f'{n["m"]}({args}) raised {out_exc!r}')
        out_exc = None
      else:
        if expect_enter == 'must':
          self.report('invalid-arguments-accepted', label,
                      f'{n["m"]}({args}) entered the block')
        reraise = self.check_flow(n, label, args, y, body_exc, out_exc, exit_token)
        if not isinstance(reraise, (S.E1, S.E2, S.E3)):
          reraise = None       # an exception of the library's own was reported above
      # restore law (model-free)
      self.counters['restore_checks'] += 1
      self.counters['restore_checks_' + {'normal': 'normal_exit', 'exception':
                                         'exc_exit', 'enter-raised':
                                         'enter_raised', 'exit-raised':
                                         'exit_raised'}[exit_kind]] += 1
      diff = [(k, before[k], after[k]) for k in before
              if k in after and before[k] != after[k] and k not in self.muted]
      self.counters['restore_observer_comparisons'] += len(before)
      if diff:
        self.report_restore(label, exit_kind, diff, n)
      # the caller's argument objects are as they were before the statement
      # (also after deeper scopes were entered and left inside the block)
      self.counters['argument_unchanged_checks'] += 1
      if args != args0:
        self.report('argument-modified', label,
                    f'arguments {args0} of `with {n["m"]}(...)` are {args} after the '
                    f'statement (left by {exit_kind})')
        n['a'] = args0
    finally:
      self.path.pop()
    if reraise is not None:
      raise reraise

  def report_restore(self, label, exit_kind, diff, n):
    by_mgr = collections.OrderedDict()
    residue = [d for d in diff if getattr(S.OBS_BY_NAME.get(d[0]), 'residue', False)]
    for k, b, a in residue:
      self.report('restore', S.OBS_BY_NAME[k].mgr,
                  f'`with {n["m"]}({n["a"]})` left by {exit_kind}: {k}: before {b!r}, '
                  f'after {a!r}')
      self.muted.add(k)
    diff = [d for d in diff if d not in residue]
    local_de = [d for d in diff if d[0] in ('de.getter', 'de.oneof')]
    fresh_de = [d for d in diff if d[0].startswith('fresh-thread:de.')]
    if local_de and not fresh_de and self.had_thread_de and self.de_expects_process_fn():
      # The process-wide function was restored (other threads see the same as
      # before) but this thread does not see it: it left a per-thread block
      # earlier and ignores process-wide functions since.
      self.report('process-scope-ignored', 'dynamic_evaluate@after-thread-scope',
                  f'`with {n["m"]}({n["a"]})` left by {exit_kind}: ' +
                  '; '.join(f'{k}: before {b!r}, after {a!r}' for k, b, a in local_de))
      self.deaf_reported = True
      self.muted.add('de.process-scope-effective')
      diff = [d for d in diff if d not in local_de]
    elif fresh_de and self.had_thread_de and label == 'dynamic_evaluate[process]':
      # Same defect, other symptom: the thread that ignores process-wide
      # functions also saved the wrong "previous" function when it entered
      # this process-wide block, so the block restored that instead.
      self.report('process-scope-ignored', 'dynamic_evaluate@after-thread-scope',
                  f'`with {n["m"]}({n["a"]})` left by {exit_kind}: ' +
                  '; '.join(f'{k}: before {b!r}, after {a!r}'
                            for k, b, a in fresh_de + local_de))
      self.deaf_reported = True
      self.muted.add('de.process-scope-effective')
      if self.env.process_ok:
        S.heal_process_state(self.state['de_glob'])
        self.counters['process_state_heals'] += 1
      diff = [d for d in diff if d not in local_de and d not in fresh_de]
    for k, b, a in diff:
      name = k[len('fresh-thread:'):] if k.startswith('fresh-thread:') else k
      o = S.OBS_BY_NAME.get(name)
      by_mgr.setdefault(o.mgr if o else name, []).append((k, b, a))
    own = n['m']
    # (the exit kind is in the detail; only a raising enter and a raising
    # validating exit are different mechanisms)
    suffix = ('!' + exit_kind) if exit_kind in ('enter-raised', 'exit-raised') else ''
    if self.had_thread_de and 'dynamic_evaluate[process]' in by_mgr:
      # leaving a per-thread block changed whether process-wide blocks work
      # (seen at this exit or, if the probe was a don't-care there, at the
      # exit of an enclosing block)
      items = by_mgr.pop('dynamic_evaluate[process]')
      self.report('process-scope-ignored', 'dynamic_evaluate@after-thread-scope',
                  f'`with {n["m"]}({n["a"]})` left by {exit_kind}: ' +
                  '; '.join(f'{k}: before {b!r}, after {a!r}' for k, b, a in items))
      self.deaf_reported = True
      self.muted.add('de.process-scope-effective')

    def is_own(mgr):
      return (mgr == own or mgr.split('[')[0] == own or
              (own == 'apply_wrappers' and mgr == 'detour'))
    if any(is_own(mgr) for mgr in by_mgr):
      # The block's own setting was not restored; behavioural probes of other
      # managers that depend on it differ as a consequence.
      merged = [it for items in by_mgr.values() for it in items]
      by_mgr = collections.OrderedDict([(own, merged)])
    for mgr, items in by_mgr.items():
      detail = (f'`with {n["m"]}({n["a"]})`{self.created_note} left by {exit_kind}: ' +
                '; '.join(f'{k}: before {b!r}, after {a!r}' for k, b, a in items))
      mech = label + suffix if is_own(mgr) else f'{label}{suffix}>{mgr}'
      self.report('restore', mech, detail)
      for k, _, _ in items:
        self.muted.add(k[len('fresh-thread:'):] if k.startswith('fresh-thread:') else k)
      if mgr.startswith('dynamic_evaluate') and self.env.process_ok:
        S.heal_process_state(self.state['de_glob'])
        self.counters['process_state_heals'] += 1

  def check_flow(self, n, label, args, y, body_exc, out_exc, exit_token):
    """Checks how exceptions travel through the block; returns what to re-raise."""
    env = self.env
    self.counters['exception_flow_checks'] += 1
    if n['m'] == 'catch_errors':
      if body_exc is not None and S.catch_spec_matches(args['spec'], body_exc):
        self.counters['caught_by_catch_errors'] += 1
        if out_exc is not None or getattr(y, 'error', None) is not body_exc:
          self.report('exception-flow', label,
                      f'spec {args["spec"]} matches {body_exc!r} but the block '
                      f'raised {out_exc!r}, context.error={getattr(y, "error", None)!r}')
        return None
      if getattr(y, 'error', None) is not None and body_exc is None:
        self.report('exception-flow', label, 'context.error set without an exception')
    if n['m'] == 'dynamic_evaluate' and args.get('exit'):
      if body_exc is None:
        if args['exit'] == 'count' and exit_token[0] != 1:
          self.report('exception-flow', label, 'exit_fn not called exactly once on '
                      'normal exit')
        if args['exit'] == 'raise':
          self.counters['raised_by_exit_fn'] += 1
          if out_exc is None or out_exc is not env.exit_exc:
            self.report('exception-flow', label, 'exception raised by exit_fn did '
                        f'not propagate: {out_exc!r}')
          return out_exc
        if out_exc is not None:
          self.report('exception-flow', label, f'normal body, block raised {out_exc!r}')
        return out_exc
      # exit_fn on an exceptional exit is not documented: accept either
      if out_exc is not body_exc and out_exc is not env.exit_exc:
        self.report('exception-flow', label, f'body raised {body_exc!r}, block '
                    f'raised {out_exc!r}')
      return out_exc if out_exc is not None else body_exc
    if m_exit_raises(n):
      # validating exit: documented for a block whose body finished; whether
      # it also runs (and masks) when a non-`Exception` leaves the body is open
      own = out_exc is not None and out_exc is not body_exc \
          and not isinstance(out_exc, (S.E1, S.E2, S.E3))
      if body_exc is None:
        self.counters['validating_exit_expected'] += 1
        if own:
          self.counters['validating_exit_raised'] += 1
          return None              # (the program catches it at the statement)
        if out_exc is not None:
          self.report('exception-flow', label,
                      f'normal body, block raised {out_exc!r}')
        return None
      if own and not isinstance(body_exc, Exception):
        return body_exc
    if out_exc is not body_exc:
      self.report('exception-flow', label,
                  f'body raised {body_exc!r}, block raised {out_exc!r}')
    return body_exc

  # -- other threads -----------------------------------------------------------
  def spawn_check(self):
    """A thread started now must see every per-thread setting at its default,
    also on the very objects the settings of this thread are attached to
    (a ContextualObject / DynamicEvaluationContext handed to the thread)."""
    r = S.in_fresh_thread(lambda: (fresh_thread_view(), S.same_object_view(self.env)))
    self.counters['fresh_thread_checks'] += 1
    if r[0] == 'ok':
      self.same_object_check(r[1][1])
      r = ('ok', r[1][0])
    if r[0] != 'ok':
      if _passthrough(r[1]):
        raise _Abort()
      self.report('unexpected-exception', 'fresh-thread-observer', repr(r[1]))
      return
    default = S.default_state()
    env0 = S.ExpectEnv(self.env)
    for name, got in r[1].items():
      o = S.OBS_BY_NAME[name]
      if name in self.muted:
        continue
      exp = o.expect(default, env0)
      if exp == S.DONTCARE:
        continue
      self.counters['fresh_thread_observer_checks'] += 1
      if not S.match(got, exp):
        self.report('thread-isolation', o.mgr, f'a thread started inside the '
                    f'blocks sees {name}: {got!r}, default {exp!r}')
        self.muted.add(name)

  def same_object_check(self, view):
    default = S.default_state()
    env0 = S.ExpectEnv(self.env)
    env0.dectx = self.env.dectx
    for name, got in view.items():
      o = S.OBS_BY_NAME[name]
      if 'same-object:' + name in self.muted or o.mgr.split('[')[0] in self.muted_mgrs:
        continue
      exp = o.expect(default, env0)
      self.counters['fresh_thread_same_object_checks'] += 1
      if self.state['dectx'] or self.state['objov']:
        self.counters['same_object_checks_while_in_scope'] += 1
      if not S.match(got, exp):
        self.report('thread-isolation', o.mgr + '[same-object]',
                    f'a thread started inside the blocks sees, on the object '
                    f'this thread\'s setting is attached to, {name}: {got!r}, '
                    f'default {exp!r}')
        self.muted.add('same-object:' + name)

  def propagate_check(self):
    """`pg.with_contextual_override` carries the overrides (and nothing else)."""
    f = pg.with_contextual_override(fresh_thread_view)
    r = S.in_fresh_thread(f)
    self.counters['propagation_checks'] += 1
    if r[0] != 'ok':
      if _passthrough(r[1]):
        raise _Abort()
      self.report('unexpected-exception', 'with_contextual_override', repr(r[1]))
      return
    st = S.default_state()
    st['ctxov'] = self.state['ctxov']
    env0 = S.ExpectEnv(self.env)
    for name, got in r[1].items():
      o = S.OBS_BY_NAME[name]
      if name in self.muted:
        continue
      exp = o.expect(st, env0)
      if exp == S.DONTCARE:
        continue
      self.counters['propagation_observer_checks'] += 1
      if not S.match(got, exp):
        clause = ('explicit-propagation' if o.mgr == 'contextual_override'
                  else 'thread-isolation')
        self.report(clause, 'with_contextual_override' if clause ==
                    'explicit-propagation' else o.mgr,
                    f'propagated function sees {name}: {got!r}, expected {exp!r}')
        self.muted.add(name)


def _observe(o, env):
  try:
    return o.observe(env)
  except Exception as e:  # pylint: disable=broad-except
    return ('observer-raised', type(e).__name__)


def fresh_thread_view():
  """All per-thread observers, from the calling (fresh) thread."""
  env = S.Env(tid=-1, process_ok=False, solo=False)
  return {o.name: _observe(o, env) for o in S.OBSERVERS
          if S.applicable(o, env, False)}


def fresh_process_view():
  """Observers of process-wide settings, from the calling (fresh) thread."""
  names = ('de.getter', 'ltypes.getter', 'ltypes.from_json')
  if 'de.getter' not in S.OBS_BY_NAME:
    names += ('de.oneof',)
  return {n: _observe(S.OBS_BY_NAME[n], None) for n in names if n in S.OBS_BY_NAME}


# ---------------------------------------------------------------------------
# Case drivers.
# ---------------------------------------------------------------------------
def setup(ctx):
  S.prepare()
  ctx.notes['managers'] = {n: f'{m.scope}/{m.rule}' for n, m in sorted(S.MANAGERS.items())}
  ctx.notes['observers'] = len(S.OBSERVERS)
  ctx.notes['scheduler'] = 'available' if SCHED is not None else 'unavailable'
  ctx.c17_disabled = set()


def cases(ctx):
  return ctx.params['thread_cases'] + ctx.params['programs']


def _merge(ctx, ex, prefix=''):
  for k, v in ex.counters.items():
    ctx.counters[prefix + k] += v


def _emit(ctx, violations, case, relabel=None, skip=()):
  keys = set()
  for clause, mech, detail in violations:
    if (clause, mech) in skip:
      continue
    if relabel and clause not in ('thread-isolation', 'explicit-propagation') \
        and mech not in S.RESIDUE_MECHS:
      detail = f'[{clause} in the concurrent run only] ' + detail
      clause = relabel
    keys.add((clause, mech))
    ctx.violation(clause, mech, detail, case)
  return keys


def _run_in_thread(fn):
  r = S.in_fresh_thread(fn)
  if r[0] == 'raise':
    raise r[1]
  return r[1]


def run_solo(ctx, program, spec, full=True):
  """One program on a fresh thread; returns the Exec."""
  def body():
    env = S.Env(tid=0, process_ok=spec.process_ok, solo=spec.solo)
    env.foreign_process_de = spec.foreign_process_de
    ex = Exec(env, muted_mgrs={d.split('[')[0] for d in ctx.c17_disabled})
    ex.end = ex.run(program, full)
    return ex
  return _run_in_thread(body)


def process_baseline(ctx):
  """Process-wide residue left by an earlier case (after a reported violation)."""
  view = _run_in_thread(fresh_process_view)
  env = S.Env(tid=-1, process_ok=True, solo=False)
  st = S.default_state()
  for name, got in view.items():
    o = S.OBS_BY_NAME[name]
    if not S.match(got, o.expect(st, env)) and o.mgr not in ctx.c17_disabled:
      S.heal_process_state()
      again = _run_in_thread(fresh_process_view)
      if not S.match(again[name], o.expect(st, env)):
        ctx.c17_disabled.add(o.mgr)
        ctx.violation('default-state', o.mgr, f'process-wide residue at the start '
                      f'of a case: {name} is {got!r}', None)
      ctx.counters['process_residue_found'] += 1


def run_case(ctx, i):
  nviol = sum(r['count'] for r in ctx.violations.values())
  if i % 16 == 0 or nviol != getattr(ctx, 'c17_nviol', 0):
    process_baseline(ctx)      # after a violation: look for process-wide residue
    ctx.c17_nviol = sum(r['count'] for r in ctx.violations.values())
  if i < ctx.params['thread_cases']:
    run_thread_case(ctx, i)
  else:
    run_program_case(ctx, i)


def run_program_case(ctx, i):
  rng = ctx.rng
  spec = EnvSpec(0, process_ok=True, solo=True)
  disabled = {d.split('[')[0] for d in ctx.c17_disabled}
  program = gen_program(rng, spec, disabled)
  ex = run_solo(ctx, program, spec, full=rng.random() < 0.2)
  _merge(ctx, ex)
  ctx.counters['programs'] += 1
  ctx.counters['program_end:' + ex.end.split(':')[0]] += 1
  case = {'program': show(program)}
  _emit(ctx, ex.violations, case)
  for m in ex.managers_entered:
    ctx.seen('managers', m)
  ctx.seen('program_shapes', ex.shape)
  if (ex.counters['blocks_entered'] >= 3 and ex.max_depth >= 2
      and len(ex.managers_entered) >= 2):
    ctx.mark_nontrivial(ex.shape)
  if i - ctx.params['thread_cases'] < 2:
    ctx.sample({'program': show(program), 'ended': ex.end,
                'blocks_entered': ex.counters['blocks_entered'],
                'observer_evals': ex.counters['observer_evals']})


# -- concurrent cases -----------------------------------------------------------
class Phaser:
  """Barrier whose party count shrinks as threads finish."""

  def __init__(self, n):
    self.cv = threading.Condition()
    self.active, self.arrived, self.gen = n, 0, 0

  def arrive(self):
    with self.cv:
      g = self.gen
      self.arrived += 1
      if self.arrived >= self.active:
        self.arrived = 0
        self.gen += 1
        self.cv.notify_all()
        return
      while self.gen == g:
        if not self.cv.wait(60):
          raise _Abort()

  def leave(self):
    with self.cv:
      self.active -= 1
      if self.active > 0 and self.arrived >= self.active:
        self.arrived = 0
        self.gen += 1
        self.cv.notify_all()


def run_thread_case(ctx, i):
  rng = ctx.rng
  nthreads = rng.randint(2, 4)
  modes = ['free', 'lockstep'] + (['sched', 'sched'] if SCHED is not None else [])
  mode = modes[i % len(modes)]
  process_de = rng.random() < 0.4        # thread 0 may use process-wide dynamic_evaluate
  disabled = {d.split('[')[0] for d in ctx.c17_disabled}
  specs, programs = [], []
  for t in range(nthreads):
    # Thread 0 owns the process-wide managers; when it does not use the
    # process-wide dynamic_evaluate, every thread may use the per-thread one.
    spec = EnvSpec(t, process_ok=(t == 0), solo=False,
                   foreign_process_de=(t != 0 and process_de),
                   allow_spawn=(mode != 'sched'),
                   process_de_ok=(t == 0 and process_de))
    specs.append(spec)
    programs.append(gen_program(rng, spec, disabled))
  case = {'mode': mode, 'threads': nthreads,
          'programs': [show(p) for p in programs]}

  # 1. each program alone (attribution baseline, also plain coverage)
  solo_keys = set()
  for t in range(nthreads):
    ex = run_solo(ctx, programs[t], specs[t], full=False)
    _merge(ctx, ex, 'threadcase_solo_')
    solo_keys |= _emit(ctx, ex.violations, case)

  # 2. all programs concurrently
  shared = Shared(nthreads)
  execs = [None] * nthreads
  errors = [None] * nthreads

  def make_worker(t, hook_factory, leave=None):
    def worker():
      try:
        env = S.Env(tid=t, process_ok=specs[t].process_ok, solo=False)
        env.foreign_process_de = specs[t].foreign_process_de
        ex = Exec(env, hook=hook_factory(), shared=shared, concurrent=True,
                  muted_mgrs=disabled)
        execs[t] = ex
        ex.end = ex.run(programs[t], full=(t == 0))
      except BaseException as e:  # pylint: disable=broad-except
        errors[t] = e
        if type(e).__name__ == 'SchedulerAbort':
          raise
      finally:
        shared.depth[t] = 0
        if leave is not None:
          leave()
    return worker

  # pg.coding.evaluate() captures output with contextlib.redirect_stdout, which
  # swaps the process-wide sys.stdout: concurrent calls can leave it pointing at
  # a StringIO for good.  Not a C17 manager; the harness protects its own output.
  stdout0 = sys.stdout
  ctx.counters['thread_cases'] += 1
  ctx.counters['thread_cases:' + mode] += 1
  ctx.counters[f'thread_cases_with_{nthreads}_threads'] += 1
  outcome = 'ok'
  if mode == 'sched':
    s = SCHED.Scheduler(f'{ctx.seed}/{ctx.shard}/{i}', targets=SCHED_TARGETS,
                        p_switch=rng.choice([0.02, 0.05, 0.15]),
                        change_points=rng.choice([0, 2, 4]), horizon=6000,
                        watchdog_s=60.0)
    run = s.run([make_worker(t, lambda: (lambda: s.point('step')))
                 for t in range(nthreads)])
    outcome = run.outcome
    ctx.counters['sched_points'] += run.points
    ctx.counters['sched_switches'] += run.switches
    if outcome == 'ok':
      ctx.counters['sched_sessions_ok'] += 1
      ctx.seen('interleavings', run.trace_hash)
      if run.switches >= 2:
        ctx.seen('interleavings_with_2plus_switches', run.trace_hash)
    for t, e in enumerate(run.errors):
      if e is not None and errors[t] is None:
        errors[t] = e
  else:
    old = sys.getswitchinterval()
    sys.setswitchinterval(1e-5)
    try:
      if mode == 'lockstep':
        ph = Phaser(nthreads)
        workers = [make_worker(t, lambda: ph.arrive, ph.leave) for t in range(nthreads)]
      else:
        workers = [make_worker(t, lambda: (lambda: time.sleep(0))) for t in range(nthreads)]
      threads = [threading.Thread(target=w, name=f'c17-{t}') for t, w in enumerate(workers)]
      for th in threads:
        th.start()
      for th in threads:
        th.join(200)
        if th.is_alive():
          outcome = 'stuck'
    finally:
      sys.setswitchinterval(old)
  if sys.stdout is not stdout0:
    sys.stdout = stdout0
    ctx.counters['note_sys_stdout_left_redirected_by_concurrent_evaluate'] += 1
  if outcome != 'ok' or any(isinstance(e, _Abort) or type(e).__name__ == 'SchedulerAbort'
                            for e in errors):
    ctx.counters['thread_cases_inconclusive'] += 1
    ctx.counters['thread_cases_inconclusive:' + mode] += 1
    if ctx.counters['thread_cases_inconclusive'] > max(3, ctx.params['thread_cases'] // 4):
      raise RuntimeError(f'too many inconclusive concurrent sessions (last: {outcome}, '
                         f'{errors})')
    return
  for t, e in enumerate(errors):
    if e is not None:
      raise e                       # harness error inside a worker
  shapes = []
  for t, ex in enumerate(execs):
    _merge(ctx, ex)
    _emit(ctx, ex.violations, case, relabel='thread-isolation', skip=solo_keys)
    shapes.append(ex.shape)
    for m in ex.managers_entered:
      ctx.seen('managers_in_threads', m)
  ctx.seen('thread_case_shapes', (mode, shapes))
  if sum(ex.counters['blocks_entered'] for ex in execs) >= 3 * nthreads:
    ctx.mark_nontrivial((mode, shapes))
  if i < 2:
    ctx.sample({'mode': mode, 'threads': nthreads,
                'programs': [show(p)[:14] for p in programs],
                'model_checks_in_threads':
                    sum(ex.counters['thread_model_checks'] for ex in execs)})
