"""C18 — symbolized callables keep Python call semantics."""
import copy as copy_mod
import inspect
import pickle
import sys
import types
import typing

import pyglove as pg
from pgverif.gen import callables as D
from pgverif.gen import signatures as S

TIERS = {
    'quick': dict(shards=8, cases=120, calls=20, family_every=2, sibling_calls=6,
                  histories=2, steps=6, decorated_calls=9, nested=3, annotated_calls=6, special_calls=4),
    'thorough': dict(shards=16, cases=500, calls=40, family_every=3, sibling_calls=6,
                     histories=2, steps=6, decorated_calls=9, nested=3, annotated_calls=6,
                     special_calls=4, timeout_s=3000),
}
RULE = ('case = one generated signature (0-4 positional parameters with/without '
        'defaults, *args, 0-3 keyword-only parameters with/without defaults, '
        '**kwargs, annotations) rendered as a plain function, as pg.functor / '
        'pg.symbolize of it (with and without auto_typing) and as a class with '
        'that __init__ wrapped by pg.symbolize; `calls` ways of supplying '
        'arguments each (all at construction, all at call, split, re-bound with '
        'and without override_args, late binding by rebind/attribute assignment, '
        'too many / too few / unknown / duplicated arguments). Every '
        '`family_every`-th case adds a FAMILY of 2-3 functions / classes with the '
        'same parameters and one shared (or equal) code object but their own '
        'defaults, keyword-only defaults and annotations (closure factory, the '
        'same source compiled or executed twice with defaults read from globals, '
        '__defaults__/__kwdefaults__/__annotations__ assigned afterwards, '
        'types.FunctionType copies, one function symbolized again after its '
        'defaults changed), symbolized in random order, `sibling_calls` ways of '
        'supplying arguments each, compared with their own direct call. Every '
        'case adds `histories` HISTORIES of one instance of a symbolized class '
        '(pg.symbolize / pg.wrap) whose __init__ sets attributes conditionally and '
        'rejects some values: construction / partial / placeholder start, then '
        '`steps` rebinds (good values, values __init__ rejects, pg.oneof/floatv '
        'placeholders, un-setting a required argument of a partial object, '
        'dropping a **kwargs entry, completing); after every binding that '
        'completes the public instance __dict__ must equal that of a fresh '
        'Cls(*effective arguments), also for clone and JSON round trip. Every case '
        'adds the signature as a DECORATED function and as a class with a decorated '
        '__init__ (a stack of 1-4 wrapper layers: result wrapped, int arguments '
        'shifted after binding with the signature, calls counted, a value rejected '
        'with ValueError, ValueError translated to KeyError, functools.lru_cache and '
        'functools.partial below a function wrapper; dressed by functools.wraps, '
        'update_wrapper, a hand-set __wrapped__ or only __signature__; plain or '
        'staticmethod-defined innermost function), `decorated_calls` ways of '
        'supplying arguments compared with the decorated callable called directly. '
        'Every case adds `nested` NESTED histories: an untyped signature as functor '
        'or symbolized class (pg.symbolize / pg.wrap, construction or .partial) with '
        '1-2 arguments (positional, *args element, keyword-only, **kwargs entry) '
        'that are nested symbolic values still PARTIAL (pg.Object with 1-2 holes, '
        'object in object, symbolized class, typed pg.Dict, Dict/List/functor '
        'holding one), optionally cloned or JSON round-tripped while partial, then '
        'completed hole by hole through deep paths (root.rebind of one or several '
        'deep paths, rebind on the leaf\'s parent, on the argument value, item / '
        'attribute assignment on the parent; 20% inside pg.notify_on_change(False) '
        'followed by a notified deep write), later changed below an argument, then '
        'cloned and JSON round-tripped: the user __init__ must have run exactly once '
        'per completing binding with the final arguments (instrumented class), the '
        'functor call must return what the function returns, sym_missing must be '
        'empty and sym_init_args must describe the final arguments. Every case adds an '
        'ANNOTATED signature (any shape; every parameter, *args and **kwargs annotated '
        'with a Union in either member order, PEP 604 unions, Optional, Optional[Union], '
        'unions with str / bool / None, nested unions, List[Union], plain types; defaults of '
        'a member type) typed from the annotations (pg.symbolize / pg.functor / pg.wrap with '
        'auto_typing=True, or pg.functor with the explicit pg.typing.Union specs), '
        '`annotated_calls` ways of supplying arguments whose values have the exact type of one '
        'member (also equal to the default but of another member type), compared '
        'type-sensitively with the direct call, the reported arguments, clone, JSON and '
        'pickle. **kwargs: 2-4 extra keywords in arbitrary order; the order in which the '
        'callable sees them is compared with the direct call when all were passed in one go, '
        'and between an object and its clone / JSON forms (to_json, to_json_str, o.to_json, '
        'hide_default_values=True) / pickle copy always. Late binding of *args (whole list, '
        'append, one element by path). Every case adds a signature of a SPECIAL legal shape '
        '(first parameter of a plain function named self / cls / this / other / obj; '
        'positional-only parameters), `special_calls` ways of supplying arguments. The oracle binds '
        'each part with inspect.signature(f).bind_partial, merges by name and '
        'calls the plain callable. Non-trivial = the signature has at least two '
        'kinds of parameters and at least one call returned and one was '
        'rejected; distinct by (signature text, call shapes).')
REQUIRED_COUNTERS = ['functor_calls_compared', 'class_constructions_compared',
                     'both_return', 'both_typeerror', 'reported_args_checks',
                     'signature_checks', 'clone_checks', 'json_checks',
                     'sibling_functor_calls_compared', 'sibling_class_constructions_compared',
                     'families_with_different_members', 'history_states_compared',
                     'history_recoveries', 'history_placeholder_roundtrips',
                     'history_partial_completions',
                     'decorated_functor_calls_compared', 'decorated_class_constructions_compared',
                     'nested_completions_checked', 'nested_modifications_checked',
                     'nested_init_runs_checked', 'nested_functor_calls_compared',
                     'annotated_functor_calls_compared', 'annotated_class_constructions_compared',
                     'varkw_order_checks', 'pickle_checks', 'special_functor_calls_compared']
ASSUMPTIONS = [
    'inspect.signature(f).bind_partial and the call f(*args, **kwargs) are the reference for argument binding',
    'documented functor rules: positional values at call time fill positions from 0; a name bound twice is a TypeError unless override_args; later binding wins with override_args',
    'not generated (left open): *args supplied both at construction (or bound later) and at call, keywords named like the *args/**kwargs parameters, a keyword named like a positional-only parameter when the signature has **kwargs, `self=` / `cls=` given by keyword to a constructor call, MISSING_VALUE as an argument, ignore_extra_args',
    'annotated signatures: only values whose exact type is a member of the annotation are generated (plain Python does not check types; the library checks them, and converts int to float for a plain `float`, as documented); a parameter whose annotation admits None always has a default (whether Optional[...] implies the default None is left open); equivalent annotations (Union[int, float] for int | float) describe the same signature',
    'the order of **kwargs is defined by one call (PEP 468); when they were bound in several steps only the agreement between an object and its copies is checked; a pickle round trip is judged like a JSON round trip (defaults are written as values); pickle needs the symbolic class under its name in its module (as after a decorator), which the harness arranges for the time of the round trip',
    'after a JSON round trip only parameters without any value are bound at call time (defaults are serialized as values)',
    'values are ints (always for annotated signatures), short strings, None, small lists/dicts/tuples; containers are compared by content',
    'a function is symbolized with the defaults / annotations its function object has at that moment (inspect.signature); it is not changed afterwards; members of a family are renamed before they are symbolized (symbolic classes are registered by name)',
    'the state of a symbolized-class instance is its public instance __dict__ (names without a leading underscore) as written by the user __init__; it is only compared when all arguments are concrete and __init__ returned; while an argument is a placeholder (pg.oneof/floatv/manyof) or a required one is missing, and after a binding whose __init__ raised, the state is a don\'t-care',
    'whether a rebind whose __init__ raised keeps or rolls back the assigned values is left open: every name it assigned (and every rejected value) is assigned again by the next rebind',
    'pg.functor / pg.symbolize accept functions and classes only: functools.partial objects, lru_cache wrappers, bound methods and callable objects are refused or read as decorator arguments (left open) and are generated only below a function wrapper; the reference is the decorated callable called directly once inspect.signature found the binding valid (an argument that cannot be bound is a TypeError before any decorator runs); decorator effects do not depend on whether an argument is passed positionally, by keyword or through its default',
    'decorators with state (call counter, cache) are reset before the direct call and before the symbolic call / (re)binding: a (re)binding that completes a symbolized class runs the user __init__ exactly once',
    'nested partial arguments: a write inside pg.notify_on_change(False) leaves the state open until the next notified write anywhere below the object; a JSON round trip of an object holding a still partial typed pg.Dict is not generated (whether the Dict keeps its value spec is left open); argument snapshots are taken by the user callable when it runs (sym_items of symbolic values), so the nested values themselves are not trusted afterwards',
    'pg.MISSING_VALUE in rebind removes a **kwargs entry / un-sets a required argument of an object made by .partial(); resetting an argument to its default that way is not generated',
]

MODULE = 'pgverif_c18_dyn'
MISSING = pg.MISSING_VALUE
EMPTY = inspect.Parameter.empty


def setup(ctx):
  m = types.ModuleType(MODULE)
  m.Any = typing.Any
  sys.modules[MODULE] = m


def cases(ctx):
  return ctx.params['cases']


def plain(v):
  """Content of a value with symbolic containers turned into plain ones."""
  if isinstance(v, dict):
    return {k: plain(x) for k, x in v.items()}
  if isinstance(v, list):
    return [plain(x) for x in v]
  if isinstance(v, tuple):
    return tuple(plain(x) for x in v)
  return v


def same(a, b):
  return _same(plain(a), plain(b))


def _same(a, b):
  if isinstance(a, dict):
    return (isinstance(b, dict) and set(a) == set(b)
            and all(_same(a[k], b[k]) for k in a))
  if isinstance(a, (list, tuple)):
    return (type(a) is type(b) and len(a) == len(b)
            and all(_same(x, y) for x, y in zip(a, b)))
  return type(a) is type(b) and a == b


class Target:
  """A signature in all its renderings."""

  fkind, ckind = 'functor', 'class'
  family = None
  decorated = False

  def __init__(self, sig, uid, rng, f=None, K=None, family=None):
    self.sig = sig
    self.pos, self.kwo = S.names(sig)
    self.defaults = {p[0]: p[2] for p in sig['pos'] + sig['kwonly'] if p[1]}
    ns = sys.modules[MODULE].__dict__
    self.fname, self.cname = f'fn_{uid}', f'K_{uid}'
    self.fsrc = S.render_function(sig, self.fname)
    self.csrc = S.render_class(sig, self.cname)
    if f is None:
      self.deep_late = True
      exec(self.fsrc, ns)  # pylint: disable=exec-used
      exec(self.csrc, ns)  # pylint: disable=exec-used
      self.f = ns[self.fname]
      self.K = ns[self.cname]
      self.f.__module__ = MODULE
      self.K.__module__ = MODULE
    else:
      # A member of a family of callables that share their code: `fsrc` / `csrc`
      # are its own equivalent source text (what the reference must equal).
      self.f, self.K, self.family = f, K, family
      self.fkind, self.ckind = 'sibling-functor', 'sibling-class'
      self.fsrc = S.render_function(sig, f.__name__)
      self.csrc = S.render_class(sig, K.__name__)
    self.pysig = inspect.signature(self.f)
    self.entry = rng.choice(['functor', 'functor()', 'symbolize', 'symbolize-auto-typing'])
    self.class_entry = rng.choice(['symbolize', 'symbolize-auto-typing'])

  def build(self):
    if self.entry == 'functor':
      self.F = pg.functor(self.f)
    elif self.entry == 'functor()':
      self.F = pg.functor()(self.f)
    elif self.entry == 'symbolize':
      self.F = pg.symbolize(self.f)
    elif self.entry == 'functor_class':
      self.F = pg.functor_class(self.f)
    else:
      self.F = pg.symbolize(self.f, auto_typing=True)
    if self.class_entry == 'symbolize':
      self.C = pg.symbolize(self.K)
    else:
      self.C = pg.symbolize(self.K, auto_typing=True)

  # -- the reference ---------------------------------------------------------
  def reason(self, a, k):
    """Why the interpreter rejects binding (a, k) - computed from the signature."""
    if len(a) > len(self.pos) and not self.sig['varargs']:
      return 'too-many-positional'
    if any(n in self.pos[:len(a)] for n in k):
      return 'duplicate'
    if not self.sig['varkw'] and any(n not in self.pos + self.kwo for n in k):
      return 'unknown-keyword'
    return 'other'

  def witness(self, **kw):
    if self.family is not None:
      kw['family'] = self.family
    return kw

  def bind(self, a, k):
    """('ok', named, varargs, extra) | ('TypeError', reason) via bind_partial."""
    try:
      ba = self.pysig.bind_partial(*a, **k)
    except TypeError:
      return ('TypeError', self.reason(a, k))
    named, varargs, extra = {}, (), {}
    for name, v in ba.arguments.items():
      kind = self.pysig.parameters[name].kind
      if kind == inspect.Parameter.VAR_POSITIONAL:
        varargs = tuple(v)
      elif kind == inspect.Parameter.VAR_KEYWORD:
        extra = dict(v)
      else:
        named[name] = v
    return ('ok', named, varargs, extra)

  def final(self, named, varargs, extra, plain_callable):
    """Calls the plain callable with the effective arguments."""
    args = []
    for name, has_default, default, _ in self.sig['pos']:
      if name in named:
        args.append(named[name])
      elif has_default:
        args.append(default)
      else:
        return ('TypeError', 'missing-required')
    kwargs = {n: named[n] for n in self.kwo if n in named}
    kwargs.update(extra)
    self.reset()
    try:
      return ('ok', plain_callable(*args, *varargs, **kwargs))
    except TypeError:
      return ('TypeError', 'missing-required')
    except Exception as e:  # pylint: disable=broad-except
      if not self.decorated:
        raise
      return (type(e).__name__, 'decorator-raises')

  def reset(self):
    """Before every call that is compared (decorators with state)."""

  def report(self, named, varargs, extra):
    """What sym_init_args should say for these bound arguments."""
    r = {}
    for name, has_default, default, _ in self.sig['pos']:
      r[name] = named.get(name, default if has_default else MISSING)
    if self.sig['varargs']:
      r[self.sig['varargs']] = list(varargs)
    for name, has_default, default, _ in self.sig['kwonly']:
      r[name] = named.get(name, default if has_default else MISSING)
    r.update(extra)
    return r

  # -- how values are chosen (overridden by targets with their own value classes) --
  annotated = False
  has_class = True
  json_options = True
  deep_late = False     # late binding below an argument (append / element path)

  @property
  def picklable(self):
    """The plain function / class can be found under its name in its module
    (pickle stores classes and functions by reference)."""
    return not self.decorated and (self.family is None or self.annotated)

  def make_call(self, rng, style=None):
    return S.make_call(rng, self.sig, style)

  def late_bindings(self, rng, n, how):
    """[(name, value, how)] binding `n` later to a value that differs from the
    current one (a value equal to the current one is "no change": left open)."""
    sig = self.sig
    dflt = self.defaults.get(n)
    r = rng.random()
    if n in self.defaults and r < 0.25:
      # away and back: the argument ends up explicitly bound to a value equal
      # to its default (both rebinds change the stored value).
      return [(n, rng.randint(11, 19), how), (n, dflt, rng.choice(['rebind', 'setattr']))]
    if (n in self.defaults and r < 0.4 and not sig['typed'] and type(dflt) is int
        and not any(p[0] == n and p[3] for p in sig['pos'] + sig['kwonly'])):
      # equal to the default but of another type (10.0 for 10): a change of
      # the stored value that `==` does not see.
      return [(n, float(dflt), how)]
    return [(n, ('fresh', rng.randint(11, 19))[sig['typed']] if rng.random() < 0.3
             else rng.randint(11, 19), how)]

  def rebind_value(self, rng, n):
    return rng.randint(11, 19)

  def param_kind(self, name):
    if name in self.pos:
      return 'positional'
    if name in self.kwo:
      return 'keyword-only'
    if name == self.sig['varargs']:
      return 'varargs'
    return 'varkw'


def first_difference(t, exp, got):
  """Kind of the first parameter whose value differs (both are dicts of locals)."""
  if t.decorated:
    exp, got = D.strip_layers(plain(exp), plain(got))
    if D.has_effect(exp) or D.has_effect(got):
      return 'decorator-effect'
  if not isinstance(got, dict) or not isinstance(exp, dict):
    return 'result'
  name = first_difference_name(t, exp, got)
  return t.param_kind(name) if name is not None else 'order'


def first_difference_name(t, exp, got):
  if not isinstance(got, dict) or not isinstance(exp, dict):
    return None
  for name in list(exp) + [n for n in got if n not in exp]:
    if name not in got or name not in exp or not same(exp[name], got[name]):
      return name
  return None


def kw_order(t, result, among=None):
  """The order in which the callable saw its **kwargs (PEP 468: the order in
  which they were passed); None if it has none / the result is no argument dict."""
  name = t.sig['varkw']
  if t.decorated and isinstance(result, dict):
    result, _ = D.strip_layers(plain(result), plain(result))
  if not name or not isinstance(result, dict) or not isinstance(result.get(name), dict):
    return None
  return [k for k in result[name] if among is None or k in among]


def reported_order(t, obj):
  """The **kwargs entries in the order the symbolic object reports them."""
  named = set(t.pos + t.kwo + [t.sig['varargs']])
  return [k for k in obj.sym_init_args.sym_keys() if k not in named]


def check_copy_order(ctx, t, kind, what, orig, copy_, got, gotc, among, witness):
  """A copy reports, and hands to the callable, the **kwargs in the order of
  the object it was made from."""
  if not t.sig['varkw']:
    return
  ctx.counters['varkw_order_checks'] += 1
  a, b = reported_order(t, orig), reported_order(t, copy_)
  if a != b:
    ctx.violation(what, f'{kind}:varkw-order',
                  f'the object reports its **{t.sig["varkw"]} as {a}, the copy as {b}', witness)
    return
  if got is not None and got[0] == 'ok' and gotc[0] == 'ok':
    a, b = kw_order(t, got[1], among), kw_order(t, gotc[1], among)
    if a != b:
      ctx.violation(what, f'{kind}:varkw-order',
                    f'the callable of the object saw **{t.sig["varkw"]} in the order {a}, '
                    f'that of the copy in the order {b}', witness)


def pickled(obj):
  """pickle round trip.  Classes are pickled by reference: the symbolic class
  stands under its name in its module for the time (as it does after
  `@pg.functor def f` / `K = pg.symbolize(K)`)."""
  cls = type(obj)
  ns = sys.modules[cls.__module__].__dict__
  name, old = cls.__name__, ns.get(cls.__name__, ns)
  ns[name] = cls
  try:
    return pickle.loads(pickle.dumps(obj))
  finally:
    if old is ns:
      del ns[name]
    else:
      ns[name] = old


# The documented ways of a JSON round trip.  All but the last write every bound
# argument; `hide_default_values=True` leaves out the arguments that have their
# default value, which the restored object then has as defaults again.
JSON_FORMS = [
    ('', lambda o: pg.from_json(pg.to_json(o))),
    ('', lambda o: pg.from_json_str(pg.to_json_str(o))),
    ('', lambda o: pg.from_json(o.to_json())),
    ('hide_default_values', lambda o: pg.from_json(pg.to_json(o, hide_default_values=True))),
]


def copy_forms(c, t):
  """[(clause, label, kind override or None, round trip)] for this check."""
  # (a target that is one narrow class of input is not combined with JSON options)
  n = len(JSON_FORMS) if t.json_options else 3
  tag, fn = JSON_FORMS[c['json_checks'] % n]
  forms = [('json-differs', 'json-round-trip', tag or None, fn)]
  if c['json_checks'] % 4 == 1 and t.picklable:
    forms.append(('pickle-differs', 'pickle-round-trip', None, pickled))
  return forms


def outcome(fn):
  try:
    return ('ok', fn())
  except TypeError as e:
    return ('TypeError', e)
  except Exception as e:  # pylint: disable=broad-except
    return (type(e).__name__, e)


def compare(ctx, t, kind, phase, exp, got, witness, pattern, ordered=False):
  """Judges one library outcome against the reference. True = agree.
  `ordered`: all **kwargs were passed in one go, so their order is defined."""
  c = ctx.counters
  if exp[0] == 'ok' and got[0] == 'ok':
    c['both_return'] += 1
    if same(exp[1], got[1]):
      if ordered and t.sig['varkw']:
        c['varkw_order_checks'] += 1
        eo, go = kw_order(t, exp[1]), kw_order(t, got[1])
        if eo != go:
          ctx.violation('wrong-arguments', f'{kind}:varkw-order',
                        f'the callable called directly sees **{t.sig["varkw"]} in the order {eo}, '
                        f'called through the symbolic object in the order {go}', witness)
          return False
      return True
    clause, diff = 'wrong-arguments', first_difference(t, exp[1], got[1])
    mech = f'{kind}.{pattern}:{diff}'
    if t.annotated:
      # (one key per class of annotation of the first parameter that differs)
      mech = f'{kind}:{t.annotation_class(first_difference_name(t, exp[1], got[1]))}'
    if t.decorated:
      # (one key for the decorated callable: the pattern and the parameter are in the detail)
      clause, mech = 'wrong-result', f'{kind}:result'
      witness = dict(witness, first_difference=diff)
    ctx.violation(clause, mech,
                  f'plain: {exp[1]!r:.300}\nsymbolic: {plain(got[1])!r:.300}', witness)
    return False
  if exp[0] == 'TypeError' and got[0] == 'TypeError':
    c['both_typeerror'] += 1
    c['reject:' + exp[1]] += 1
    return True
  if exp[0] not in ('ok', 'TypeError') and got[0] == exp[0]:
    c['both_raise_in_callable'] += 1
    return True
  if exp[0] != 'ok' and got[0] == 'ok':
    ctx.violation('accepts-invalid', f'{kind}.{phase}:{exp[1]}',
                  f'the direct call raises {exp[0]} ({exp[1]}); symbolic returned {plain(got[1])!r:.300}',
                  witness)
    return False
  if exp[0] == 'ok':
    ctx.violation('rejects-valid', f'{kind}.{phase}' if t.decorated else f'{kind}.{phase}:{pattern}',
                  f'plain returns {exp[1]!r:.200}; symbolic raised {got[0]}: {got[1]!s:.300}', witness)
    return False
  ctx.violation('error-kind', f'{kind}.{phase}:{exp[1]}',
                f'plain raises {exp[0]} ({exp[1]}); symbolic raised {got[0]}: {got[1]!s:.300}', witness)
  return False


def check_report(ctx, t, kind, obj, state, witness, what='reported-args', where='sym_init_args',
                 skip=()):
  ctx.counters['reported_args_checks'] += 1
  exp = t.report(*state)
  got = {k: v for k, v in obj.sym_init_args.sym_items()}
  for n in skip:      # bound to a placeholder: not an effective argument yet
    exp.pop(n, None)
    got.pop(n, None)
  ok = set(exp) == set(got)
  if ok:
    for n in exp:
      if exp[n] is MISSING or MISSING == got[n]:
        ok = ok and exp[n] is MISSING and MISSING == got[n]
      else:
        ok = ok and same(exp[n], got[n])
  if not ok:
    ctx.violation(what, f'{kind}:{where}',
                  f'effective arguments {exp!r:.300}\nreported {plain(got)!r:.300}', witness)
  return ok


def check_functor_props(ctx, t, fo, state, witness, suffix=''):
  named, varargs, extra = state
  spec = set(named) | set(extra) | ({t.sig['varargs']} if varargs else set())
  unbound = {n for n in t.pos + t.kwo if n not in named and n not in t.defaults}
  ctx.counters['reported_args_checks'] += 1
  if set(fo.specified_args) != spec:
    ctx.violation('reported-args', f'{t.fkind}:specified_args{suffix}',
                  f'bound by the user {sorted(spec)}; specified_args {sorted(fo.specified_args)}', witness)
  if set(fo.unbound_args) != unbound or bool(fo.is_fully_bound) != (not unbound):
    ctx.violation('reported-args', f'{t.fkind}:unbound_args{suffix}',
                  f'without a value {sorted(unbound)}; unbound_args {sorted(fo.unbound_args)}, '
                  f'is_fully_bound {fo.is_fully_bound}', witness)


def check_signature(ctx, t):
  c = ctx.counters
  ref = [(p.name, p.kind, p.default) for p in t.pysig.parameters.values()]
  def params(fn, drop_self):
    ps = list(inspect.signature(fn).parameters.values())
    if drop_self and ps and ps[0].name == 'self':
      ps = ps[1:]
    return ps
  for kind, where, fn, drop in ((t.fkind, '__init__', t.F.__init__, True),
                                (t.ckind, '__init__', t.C.__init__, True),
                                (t.ckind, 'class', t.C, False)):
    if kind == t.ckind and not t.has_class:
      continue
    c['signature_checks'] += 1
    try:
      ps = params(fn, drop)
    except (TypeError, ValueError) as e:
      ctx.violation('signature', f'{kind}:{where}', f'inspect.signature fails: {e!r}',
                    t.witness(signature=S.render_params(t.sig)))
      continue
    got = [(p.name, p.kind, p.default) for p in ps]
    bad = got != ref
    if not bad:
      for p in ps:
        a = t.pysig.parameters[p.name].annotation
        # (an equivalent annotation - `Union[int, float]` for `int | float` - describes the same)
        if a is not EMPTY and p.annotation is not EMPTY and p.annotation is not a and p.annotation != a:
          bad = True
    if bad:
      ctx.violation('signature', f'{kind}:{where}',
                    f'def ({S.render_params(t.sig)}) is presented as {inspect.signature(fn)}',
                    t.witness(signature=S.render_params(t.sig), entry=t.entry))


def merge_call(t, state, a2, k2, override):
  """Reference for binding (a2, k2) on top of `state` at call time."""
  named, varargs, extra = state
  r = t.bind(a2, k2)
  if r[0] != 'ok':
    return r, None
  _, n2, v2, e2 = r
  if not override and any(n in named or n in extra for n in list(n2) + list(e2)):
    return ('TypeError', 'rebound'), None
  named = dict(named, **n2)
  extra = dict(extra, **e2)
  return None, (named, v2 or varargs, extra)


def functor_call(ctx, t, j, rng):
  c = ctx.counters
  sig = t.sig
  pattern = rng.choice(['ctor-only', 'call-only', 'split', 'split', 'rebound', 'override',
                        'override', 'rebind', 'rebind'])
  a, k = t.make_call(rng)
  a1, k1, a2, k2 = [], {}, [], {}
  override_at = None
  rebinds = []
  if pattern == 'ctor-only':
    a1, k1 = a, k
  elif pattern == 'call-only':
    a2, k2 = a, k
  elif pattern == 'split':
    (a1, k1), (a2, k2) = S.split_call(rng, a, k)
  elif pattern in ('rebound', 'override'):
    a1, k1 = a, k
    a2, k2 = t.make_call(rng, rng.choice(['valid', 'random']))
    if pattern == 'override':
      override_at = rng.choice(['ctor', 'call'])
  else:
    (a1, k1), (a2, k2) = S.split_call(rng, a, k)
    cand = t.pos + t.kwo + (['zz'] if sig['varkw'] else [])
    if sig['varargs'] and t.deep_late:
      cand.append(sig['varargs'])
    for n in rng.sample(cand, min(len(cand), rng.randint(1, 2))):
      # (a value equal to the current one is "no change" for rebind: left open)
      how = rng.choice(['rebind', 'setattr'])
      if n == sig['varargs']:
        # *args bound later: the whole list, one more element, one element replaced
        how = rng.choice([how, 'append', 'item'])
        v = t.rebind_value(rng, n)
        rebinds.append((n, [v, t.rebind_value(rng, n)][:rng.randint(1, 2)] if how in ('rebind', 'setattr')
                        else v, how))
      else:
        rebinds += t.late_bindings(rng, n, how)
    if any(n == sig['varargs'] for n, _, _ in rebinds):
      a2 = a2[:len(t.pos)]        # (*args bound before the call and at the call: left open)
    if any(h in ('append', 'item') for _, _, h in rebinds):
      pattern = 'rebind-below'
  # *args given at both times is left open by the documentation.
  if sig['varargs'] and len(a1) > len(t.pos) and len(a2) > len(t.pos):
    a2 = a2[:len(t.pos)]
  witness = t.witness(**{'def': t.fsrc.split('\n')[0], 'entry': t.entry, 'pattern': pattern,
                         'construct': [a1, k1], 'rebinds': rebinds, 'call': [a2, k2],
                         'override_args': override_at})
  c['pattern:' + pattern] += 1
  c['functor_calls_compared'] += 1

  # construction
  r1 = t.bind(a1, k1)
  ck = dict(k1)
  if override_at == 'ctor':
    ck['override_args'] = True
  got1 = outcome(lambda: t.F(*a1, **ck))
  if r1[0] != 'ok':
    if got1[0] == 'ok':
      # The error may still be reported at call time.
      got = outcome(lambda: got1[1]())
      compare(ctx, t, t.fkind, 'ctor', r1, got, witness, pattern)
    else:
      compare(ctx, t, t.fkind, 'ctor', r1, got1, witness, pattern)
    return 'rejected'
  if got1[0] != 'ok':
    # Was the construction valid? Then the whole invocation is.
    compare(ctx, t, t.fkind, 'ctor', ('ok', '<a functor>'), got1, witness, pattern)
    return 'rejected'
  fo = got1[1]
  state = (r1[1], r1[2], r1[3])
  check_report(ctx, t, t.fkind, fo, state, witness)
  check_functor_props(ctx, t, fo, state, witness)

  # late binding
  for n, v, how in rebinds:
    named, varargs, extra = state
    if n == sig['varargs']:
      cur = list(varargs)
      if how == 'item' and not cur:
        how = 'append'
      if how == 'append':
        cur.append(v)
      elif how == 'item':
        cur[-1] = v
      else:
        cur = list(v)
      varargs = tuple(cur)
    elif n in t.pos + t.kwo:
      named = dict(named, **{n: v})
    else:
      extra = dict(extra, **{n: v})
    state = (named, varargs, extra)
    ctx.label = 'functor.' + how
    if how == 'rebind':
      fo.rebind({n: v}, raise_on_no_change=False)
    elif how == 'append':
      getattr(fo, n).append(v)
    elif how == 'item':
      fo.rebind({f'{n}[{len(varargs) - 1}]': v}, raise_on_no_change=False)
    else:
      setattr(fo, n, v)
    ctx.label = None
    c['late_bindings'] += 1
    c['late_binding:' + (how if n != sig['varargs'] else 'varargs-' + how)] += 1
  if rebinds:
    check_report(ctx, t, t.fkind, fo, state, witness, where='sym_init_args-after-rebind')
    check_functor_props(ctx, t, fo, state, witness,
                        suffix='-after-rebind-below' if pattern == 'rebind-below' else '')

  # call
  override = override_at is not None
  def expected(st, a_, k_):
    err, merged = merge_call(t, st, a_, k_, override)
    if err is not None:
      return err
    return t.final(*merged, t.f)
  def invoke(obj, a_, k_, force_override=False):
    kk = dict(k_)
    if override_at == 'call' or force_override:
      kk['override_args'] = True
    t.reset()
    return outcome(lambda: obj(*a_, **kk))
  exp = expected(state, a2, k2)
  got = invoke(fo, a2, k2)
  phase = 'call'
  # The order of **kwargs is defined when all of them were passed in one go.
  is_extra = lambda n: n not in t.pos + t.kwo
  ordered = (not any(is_extra(n) for n, _, _ in rebinds)
             and not (state[2] and any(is_extra(n) for n in k2)))
  agreed = compare(ctx, t, t.fkind, phase, exp, got, witness, pattern, ordered=ordered)
  # The call must not have changed what is bound.
  check_report(ctx, t, t.fkind, fo, state, witness, where='sym_init_args-after-call')

  # clone: same bound arguments, same behaviour
  if agreed:
    c['clone_checks'] += 1
    cl = fo.clone(deep=rng.random() < 0.5)
    okr = check_report(ctx, t, t.fkind, cl, state, witness, what='clone-differs', where='sym_init_args')
    gotc = invoke(cl, a2, k2)
    if okr and (gotc[0] != got[0] or (got[0] == 'ok' and not same(got[1], gotc[1]))):
      ctx.violation('clone-differs', f'{t.fkind}:call-outcome',
                    f'original: {got[0]} {plain(got[1]) if got[0] == "ok" else ""!r:.200}; '
                    f'clone: {gotc[0]} {gotc[1]!r:.200}', witness)
    elif okr:
      check_copy_order(ctx, t, t.fkind, 'clone-differs', fo, cl, got, gotc, None, witness)
    # JSON round trip: defaults are written as values, so only parameters
    # that have no value at all are bound at call time.
    r2 = t.bind(a2, k2)
    kj = {}
    if r2[0] == 'ok':
      for n, v in list(r2[1].items()) + list(r2[3].items()):
        if n not in state[0] and n not in state[2] and n not in t.defaults:
          kj[n] = v
    expj = expected(state, [], kj)
    for what, label, option, roundtrip in copy_forms(c, t):
      c['json_checks' if what == 'json-differs' else 'pickle_checks'] += 1
      # (one key per JSON option: the kind of target does not matter for it)
      kind = f'{option}:functor' if option else t.fkind
      ctx.label = 'functor.' + label
      back = roundtrip(fo)
      ctx.label = None
      okr = check_report(ctx, t, kind, back, state, witness, what=what, where='sym_init_args')
      gotj = invoke(back, [], kj, force_override=False)
      if okr and (gotj[0] != expj[0] or (expj[0] == 'ok' and not same(expj[1], gotj[1]))):
        ctx.violation(what, f'{kind}:call-outcome',
                      f'call(**{kj!r}) on the round-tripped functor: expected {expj!r:.200}, got {gotj!r:.200}',
                      witness)
      elif okr:
        check_copy_order(ctx, t, kind, what, fo, back, got, gotj, set(state[2]), witness)
  return 'returned' if got[0] == 'ok' else 'rejected'


def class_call(ctx, t, j, rng):
  c = ctx.counters
  sig = t.sig
  pattern = rng.choice(['ctor-only', 'ctor-only', 'rebind', 'partial'])
  if pattern == 'partial':
    return class_partial(ctx, t, rng)
  a, k = t.make_call(rng)
  witness = t.witness(**{'class': t.csrc.split('\n')[1].strip(), 'entry': 'class-' + t.class_entry,
                         'pattern': pattern, 'construct': [a, k]})
  c['class_constructions_compared'] += 1
  t.reset()
  try:
    if t.decorated:
      # (an argument that cannot be bound is reported before any decorator runs)
      t.pysig.bind(*a, **k)
    exp = ('ok', t.K(*a, **k).got)
  except TypeError:
    r = t.reason(a, k)
    exp = ('TypeError', 'missing-required' if r == 'other' else r)
  except Exception as e:  # pylint: disable=broad-except
    if not t.decorated:
      raise
    exp = (type(e).__name__, 'decorator-raises')
  t.reset()
  got = outcome(lambda: t.C(*a, **k))
  obj = got[1] if got[0] == 'ok' else None
  gotv = got
  if got[0] == 'ok':
    gotv = outcome(lambda: obj.got)
    if gotv[0] != 'ok':
      gotv = ('ok', '<__init__ did not run>')
  if not compare(ctx, t, t.ckind, 'ctor', exp, gotv, witness, 'ctor-only', ordered=True):
    return 'rejected'
  if exp[0] != 'ok':
    return 'rejected'
  r1 = t.bind(a, k)
  state = (r1[1], r1[2], r1[3])
  check_report(ctx, t, t.ckind, obj, state, witness)
  if pattern == 'rebind':
    cand = t.pos + t.kwo + (['zz'] if sig['varkw'] else [])
    if cand:
      n = rng.choice(cand)
      v = t.rebind_value(rng, n)    # differs from the current value
      named, varargs, extra = state
      if n in t.pos + t.kwo:
        named = dict(named, **{n: v})
      else:
        extra = dict(extra, **{n: v})
      state = (named, varargs, extra)
      witness = dict(witness, rebind=[n, v])
      ctx.label = 'class.rebind'
      t.reset()
      obj.rebind({n: v}, raise_on_no_change=False)
      ctx.label = None
      c['late_bindings'] += 1
      expr = t.final(*state, lambda *aa, **kk: t.K(*aa, **kk).got)
      compare(ctx, t, t.ckind, 'rebind', expr, ('ok', obj.got), witness, 'rebind')
      check_report(ctx, t, t.ckind, obj, state, witness, where='sym_init_args-after-rebind')
  want = t.final(*state, lambda *aa, **kk: t.K(*aa, **kk).got)
  c['clone_checks'] += 1
  t.reset()
  cl = obj.clone(deep=rng.random() < 0.5)
  check_report(ctx, t, t.ckind, cl, state, witness, what='clone-differs', where='sym_init_args')
  if not same(want[1], cl.got):
    ctx.violation('clone-differs', f'{t.ckind}:init-arguments',
                  f'expected {want[1]!r:.200}; clone was initialised with {plain(cl.got)!r:.200}', witness)
  else:
    check_copy_order(ctx, t, t.ckind, 'clone-differs', obj, cl, ('ok', obj.got), ('ok', cl.got), None,
                     witness)
  for what, label, option, roundtrip in copy_forms(c, t):
    c['json_checks' if what == 'json-differs' else 'pickle_checks'] += 1
    kind = f'{option}:class' if option else t.ckind
    ctx.label = 'class.' + label
    t.reset()
    back = roundtrip(obj)
    ctx.label = None
    if not check_report(ctx, t, kind, back, state, witness, what=what, where='sym_init_args'):
      continue
    if not same(want[1], back.got):
      ctx.violation(what, f'{kind}:init-arguments',
                    f'expected {want[1]!r:.200}; round trip was initialised with {plain(back.got)!r:.200}',
                    witness)
    else:
      check_copy_order(ctx, t, kind, what, obj, back, ('ok', obj.got), ('ok', back.got), None, witness)
  return 'returned'


def class_partial(ctx, t, rng):
  """Arguments bound partially at construction, completed later by rebind."""
  c = ctx.counters
  a, k = t.make_call(rng, 'valid')
  keys = list(k)
  rng.shuffle(keys)
  cut = rng.randint(0, len(keys))
  k1 = {n: k[n] for n in keys[:cut]}
  k2 = {n: k[n] for n in keys[cut:]}
  witness = t.witness(**{'class': t.csrc.split('\n')[1].strip(), 'entry': 'class-' + t.class_entry,
                         'pattern': 'partial', 'construct': [a, k1], 'rebind': k2})
  r1 = t.bind(a, k1)
  if r1[0] != 'ok':
    return 'rejected'
  c['class_constructions_compared'] += 1
  c['pattern:class-partial'] += 1
  named, varargs, extra = r1[1], r1[2], r1[3]
  for n, v in k2.items():
    if n in t.pos + t.kwo:
      named = dict(named, **{n: v})
    else:
      extra = dict(extra, **{n: v})
  state = (named, varargs, extra)
  want = t.final(*state, lambda *aa, **kk: t.K(*aa, **kk).got)
  def bind():
    o = t.C.partial(*a, **k1)
    if k2:
      t.reset()     # (a stateful decorator: the run with the final arguments counts)
      o.rebind(k2, raise_on_no_change=False)
    return o
  t.reset()
  if want[0] in ('ok', 'TypeError'):
    ctx.label = 'class.partial'
    obj = bind()
    ctx.label = None
  else:
    # (the decorated __init__ rejects the complete arguments)
    got = outcome(bind)
    if got[0] != 'ok':
      compare(ctx, t, t.ckind, 'rebind', want, got, witness, 'partial')
      return 'rejected'
    obj = got[1]
  got = outcome(lambda: obj.got)
  if got[0] != 'ok':
    got = ('ok', '<__init__ did not run>')
  compare(ctx, t, t.ckind, 'rebind', want, got, witness, 'partial')
  if want[0] != 'ok':
    return 'rejected'
  check_report(ctx, t, t.ckind, obj, state, witness, where='sym_init_args-after-rebind')
  return 'returned'


# -- families: callables that share a code object -------------------------------

ANNOTATIONS = {'int': int, 'Any': typing.Any}


def own_signature(sig):
  ns = {'Any': typing.Any}
  exec(S.render_function(sig, 'own'), ns)  # pylint: disable=exec-used
  return inspect.signature(ns['own'])


def run_family(ctx, sig, uid, rng):
  """Functions / classes with one code object and their own defaults, each
  symbolized in this process and compared with its own direct call."""
  c = ctx.counters
  fam = S.make_family(rng, sig, rng.choice([2, 2, 3]))
  stages = S.build_family(rng, fam, uid, MODULE, ANNOTATIONS)
  c['families'] += 1
  c['family:' + fam['method']] += 1
  texts = [S.render_params(s[0]) for s in stages]
  members = []
  for m, (msig, f, k, prepare, final) in enumerate(stages):
    prepare()
    info = {'made-by': fam['method'], 'symbolized-as-number': m + 1,
            'symbolized-before': texts[:m]}
    t = Target(msig, f'{uid}_f{m}', rng, f=f, K=k, family=info)
    # The generator must have produced what the member's own source text says.
    assert t.pysig == own_signature(msig), (str(t.pysig), texts[m], fam['method'])
    ctx.label = 'symbolize'
    t.build()
    ctx.label = None
    if final:
      members.append(t)
  ctx.seen('family_shapes', (fam['method'], len(set(texts)) > 1))
  if len(set(texts)) > 1:
    c['families_with_different_members'] += 1
  for t in members:
    before = sum(v['count'] for v in ctx.violations.values())
    check_signature(ctx, t)
    for j in range(ctx.params['sibling_calls']):
      if sum(v['count'] for v in ctx.violations.values()) != before:
        break       # one report per member
      if j % 3 == 2:
        class_call(ctx, t, j, rng)
        c['sibling_class_constructions_compared'] += 1
      else:
        functor_call(ctx, t, j, rng)
        c['sibling_functor_calls_compared'] += 1


# -- decorated callables -----------------------------------------------------------

class DTarget(Target):
  """The signature rendered as a DECORATED function (a stack of 1-4 wrapper
  layers with visible effects) and as a class whose __init__ is decorated; the
  reference is the decorated callable called directly."""
  decorated = True

  def __init__(self, sig, uid, rng):   # pylint: disable=super-init-not-called
    ns = sys.modules[MODULE].__dict__
    self.fstate, self.cstate = {}, {}
    self.fstack, shown = D.make_stack(rng, sig)
    self.cstack, _ = D.make_stack(rng, shown, method=True)
    self.form = rng.choice(['function', 'function', 'staticmethod'])
    fname, cname = f'dfn_{uid}', f'DK_{uid}'
    src = S.render_function(sig, fname)
    if self.form == 'staticmethod':
      src = f'class DH_{uid}:\n  @staticmethod\n' + ''.join('  ' + l + '\n' for l in src.splitlines())
    exec(src, ns)  # pylint: disable=exec-used
    base = ns[fname] if self.form == 'function' else getattr(ns[f'DH_{uid}'], fname)
    base.__module__ = MODULE
    f = D.apply_stack(base, self.fstack, self.fstate)
    exec(S.render_class(shown, cname), ns)  # pylint: disable=exec-used
    K = ns[cname]
    K.__module__ = MODULE
    K.__init__ = D.apply_stack(K.__init__, self.cstack, self.cstate, method=True)
    info = {'function': D.describe_stack(self.fstack) + src.splitlines()[:3],
            '__init__': D.describe_stack(self.cstack)}
    Target.__init__(self, shown, uid, rng, f=f, K=K, family=info)
    self.fkind, self.ckind = 'decorated-functor', 'decorated-class'
    self.entry = rng.choice(['functor', 'functor()', 'symbolize', 'symbolize-auto-typing',
                             'functor_class'])
    # what a reader of the decorated callable sees is what the check generates calls for
    assert self.pysig == own_signature(shown), (str(self.pysig), S.render_params(shown))
    assert [p for p in inspect.signature(K).parameters] == list(self.pysig.parameters)

  def witness(self, **kw):
    kw['decorators'] = self.family
    return kw

  def reset(self):
    D.reset(self.fstate)
    D.reset(self.cstate)


def run_decorated(ctx, sig, uid, rng):
  c = ctx.counters
  t = DTarget(sig, uid, rng)
  ctx.label = 'symbolize'
  t.build()
  ctx.label = None
  c['decorated_targets'] += 1
  for kind, *_ in t.fstack:
    c['decorator:' + kind] += 1
  ctx.seen('decorator_stacks', (tuple(k for k, *_ in t.fstack), tuple(k for k, *_ in t.cstack)))
  check_signature(ctx, t)
  for j in range(ctx.params['decorated_calls']):
    before = sum(v['count'] for v in ctx.violations.values())
    if j % 3 == 2:
      r = class_call(ctx, t, j, rng)
      c['decorated_class_constructions_compared'] += 1
    else:
      r = functor_call(ctx, t, j, rng)
      c['decorated_functor_calls_compared'] += 1
    c['decorated:' + r] += 1
    if sum(v['count'] for v in ctx.violations.values()) != before:
      break       # one report per target


# -- annotated signatures: unions, optionals, containers of unions ------------------

SPEC_OF = {int: pg.typing.Int, float: pg.typing.Float, str: pg.typing.Str, bool: pg.typing.Bool}


def explicit_spec(annot):
  """The value spec a user would write for the annotation (members in the
  order written)."""
  members = D.ANNOTATION_MEMBERS[annot]
  if annot in (None, 'Any'):
    return pg.typing.Any()
  if isinstance(members[0], list):
    return pg.typing.List(pg.typing.Union([SPEC_OF[m]() for m in members[0]]))
  specs = [SPEC_OF[m]() for m in members if m is not None]
  spec = specs[0] if len(specs) == 1 else pg.typing.Union(specs)
  return spec.noneable() if None in members else spec


class UTarget(Target):
  """A signature whose parameters, *args and **kwargs carry annotations (unions
  in both member orders, optionals, containers of unions, plain types), typed
  by the library from the annotations; every value has the exact type of one
  member, so plain Python and the typed symbolic callable accept the same calls."""
  annotated = True

  def __init__(self, shape, uid, rng):   # pylint: disable=super-init-not-called
    sig = D.annotate_signature(rng, shape)
    ns = sys.modules[MODULE].__dict__
    ns.update({k: v for k, v in D.UNION_NAMESPACE.items() if not k.startswith('__')})
    params = D.render_annotated_params(sig)
    fname, cname = f'uf_{uid}', f'UK_{uid}'
    fsrc = f'def {fname}({params}):\n  return dict(locals())\n'
    csrc = (f'class {cname}:\n'
            f'  def __init__(self{", " + params if params else ""}):\n'
            f'    got = dict(locals())\n'
            f'    got.pop("self")\n'
            f'    self.got = got\n')
    exec(fsrc, ns)  # pylint: disable=exec-used
    exec(csrc, ns)  # pylint: disable=exec-used
    f, K = ns[fname], ns[cname]
    f.__module__ = K.__module__ = MODULE
    Target.__init__(self, sig, uid, rng, f=f, K=K)
    self.fsrc, self.csrc = fsrc, csrc
    self.fkind, self.ckind = 'annotated-functor', 'annotated-class'
    self.entry = rng.choice(['symbolize-auto-typing', 'functor-auto-typing', 'functor-specs'])
    self.class_entry = rng.choice(['symbolize-auto-typing', 'wrap-auto-typing'])

  def build(self):
    sig = self.sig
    if self.entry == 'symbolize-auto-typing':
      self.F = pg.symbolize(self.f, auto_typing=True)
    elif self.entry == 'functor-auto-typing':
      self.F = pg.functor(auto_typing=True)(self.f)
    else:
      specs = [(p[0], explicit_spec(p[3])) for p in sig['pos'] + sig['kwonly']]
      if sig['varargs']:
        specs.append((sig['varargs'], pg.typing.List(explicit_spec(sig['varargs_annot']))))
      if sig['varkw']:
        specs.append((pg.typing.StrKey(), explicit_spec(sig['varkw_annot'])))
      self.F = pg.functor(specs)(self.f)
    fn = pg.symbolize if self.class_entry.startswith('symbolize') else pg.wrap
    self.C = fn(self.K, auto_typing=True)

  def annotation(self, name=None, position=None):
    if name is not None and name == self.sig['varargs']:
      return self.sig['varargs_annot']
    return D.annotation_of(self.sig, name=name, position=position)

  def annotation_class(self, name):
    if name is None:
      return 'result'
    if name == self.sig['varargs']:
      return 'varargs-' + D.ANNOTATION_CLASS[self.sig['varargs_annot']]
    if name == self.sig['varkw']:
      return 'varkw-' + D.ANNOTATION_CLASS[self.sig['varkw_annot']]
    return D.ANNOTATION_CLASS[self.annotation(name=name)]

  def value(self, rng, annot, name=None):
    if annot == '':
      return rng.randint(1, 9)        # (cannot be bound: both sides reject the call)
    if name in self.defaults and rng.random() < 0.1:
      d = self.defaults[name]
      alt = [m(d) for m in D.ANNOTATION_MEMBERS[annot]
             if m in (int, float, bool) and type(d) in (int, float, bool) and type(d) is not m
             and m(d) == d]
      if alt and rng.random() < 0.5:
        return rng.choice(alt)    # equal to the default, of another member type (10.0 for 10)
      return copy_mod.deepcopy(d)       # explicitly bound to its default
    return D.union_value(rng, annot)

  def make_call(self, rng, style=None):
    a, k = S.make_call(rng, self.sig, style)
    a = [self.value(rng, self.annotation(position=i), self.pos[i] if i < len(self.pos) else None)
         for i in range(len(a))]
    items = [(n, self.value(rng, self.annotation(name=n), n)) for n in k]
    if self.sig['varkw'] and rng.random() < 0.5:
      # several **kwargs entries, passed in an arbitrary order
      items += [(n, self.value(rng, self.sig['varkw_annot']))
                for n in rng.sample(D.EXTRA_NAMES, rng.randint(2, 4)) if n not in k]
      rng.shuffle(items)
    return a, dict(items)

  def late_bindings(self, rng, n, how):
    annot = self.annotation(name=n)
    late = D.union_value(rng, annot, late=True)
    if n in self.defaults and rng.random() < 0.25:
      return [(n, late, how), (n, copy_mod.deepcopy(self.defaults[n]), rng.choice(['rebind', 'setattr']))]
    return [(n, late, how)]

  def rebind_value(self, rng, n):
    return D.union_value(rng, self.annotation(name=n), late=True)


def run_annotated(ctx, uid, rng):
  c = ctx.counters
  t = UTarget(S.make_signature(rng), uid, rng)
  ctx.label = 'symbolize'
  t.build()
  ctx.label = None
  c['annotated_targets'] += 1
  c['annotated_entry:' + t.entry] += 1
  sig = t.sig
  annots = [p[3] for p in sig['pos'] + sig['kwonly']] + [
      sig[k] for k in ('varargs_annot', 'varkw_annot') if sig[k[:-6]]]
  for an in annots:
    c['annotation:' + D.ANNOTATION_CLASS[an]] += 1
    ctx.seen('annotations', an)
  check_signature(ctx, t)
  for j in range(ctx.params['annotated_calls']):
    before = sum(v['count'] for v in ctx.violations.values())
    if j % 3 == 2:
      r = class_call(ctx, t, j, rng)
      c['annotated_class_constructions_compared'] += 1
    else:
      r = functor_call(ctx, t, j, rng)
      c['annotated_functor_calls_compared'] += 1
    c['annotated:' + r] += 1
    if sum(v['count'] for v in ctx.violations.values()) != before:
      break       # one report per target
  return t


# -- legal signatures of a special shape ----------------------------------------------

class XTarget(Target):
  """A plain function whose first parameter is named like a method receiver, or
  a function / class with positional-only parameters."""

  def __init__(self, shape, uid, rng, variant):   # pylint: disable=super-init-not-called
    sig, tag = D.special_signature(rng, shape, variant)
    ns = sys.modules[MODULE].__dict__
    params = D.render_annotated_params(sig)
    fname, cname = f'xf_{uid}', f'XK_{uid}'
    fsrc = f'def {fname}({params}):\n  return dict(locals())\n'
    csrc = (f'class {cname}:\n'
            f'  def __init__(self{", " + params if params else ""}):\n'
            f'    got = dict(locals())\n'
            f'    got.pop("self")\n'
            f'    self.got = got\n')
    exec(fsrc, ns)  # pylint: disable=exec-used
    f = ns[fname]
    self.has_class = variant != 'receiver-name'
    if self.has_class:
      exec(csrc, ns)  # pylint: disable=exec-used
      K = ns[cname]
    else:
      K = type(cname, (), {})       # (a method cannot have two parameters named alike)
    f.__module__ = K.__module__ = MODULE
    Target.__init__(self, sig, uid, rng, f=f, K=K)
    self.fsrc, self.csrc = fsrc, csrc
    self.fkind, self.ckind = f'functor[{tag}]', f'class[{tag}]'
    self.tag, self.variant = tag, variant
    self.json_options = False
    self.posonly = self.pos[:sig.get('posonly', 0)]

  def make_call(self, rng, style=None):
    a, k = S.make_call(rng, self.sig, style)
    if self.sig['varkw']:
      # (a keyword named like a positional-only parameter is one more **kwargs entry: not generated)
      k = {n: v for n, v in k.items() if n not in self.posonly}
    if self.variant == 'receiver-name' and self.pos[0] in k:
      # (`self=` / `cls=` as a keyword of a constructor call is left open: given positionally)
      v = k.pop(self.pos[0])
      a = a or [v]
    return a, k


CALL_CLAUSES = ('rejects-valid', 'accepts-invalid', 'wrong-arguments', 'error-kind')
LIB_DIR = __import__('os').path.dirname(pg.__file__)


class FoldedCtx:
  """The context, with every violation of a target that is ONE narrow class of
  input folded into <clause>:<that class>; the clause says whether calls differ
  or the arguments are described wrongly (reported arguments, signature, copies)."""

  def __init__(self, ctx, tag):
    object.__setattr__(self, '_ctx', ctx)
    object.__setattr__(self, '_tag', tag)

  def __getattr__(self, name):
    return getattr(self._ctx, name)

  def __setattr__(self, name, value):
    setattr(self._ctx, name, value)

  def violation(self, clause, mechanism, detail, case):
    # (an exception where none is expected: the library rejects what the interpreter accepts)
    folded = ('rejects-valid' if clause == 'unexpected-exception'
              else clause if clause in CALL_CLAUSES else 'described-wrongly')
    return self._ctx.violation(folded, self._tag, f'[{clause}:{mechanism}]\n{detail}', case)


def run_special(ctx, uid, rng, variant):
  c = ctx.counters
  while True:
    shape = S.make_signature(rng)
    if shape['pos']:
      break
  t = XTarget(shape, uid, rng, variant)
  ctx.label = 'symbolize'
  t.build()
  ctx.label = None
  c['special_targets:' + t.tag] += 1
  before = sum(v['count'] for v in ctx.violations.values())
  fctx = FoldedCtx(ctx, t.tag)
  try:
    for j in range(ctx.params['special_calls']):
      if j % 3 == 2 and t.has_class:
        r = class_call(fctx, t, j, rng)
        c['special_class_constructions_compared'] += 1
      else:
        r = functor_call(fctx, t, j, rng)
        c['special_functor_calls_compared'] += 1
      c['special:' + r] += 1
      if sum(v['count'] for v in ctx.violations.values()) != before:
        return t       # one report per target
    check_signature(fctx, t)
  except Exception as e:  # pylint: disable=broad-except
    tb = e.__traceback__
    while tb.tb_next is not None:
      tb = tb.tb_next
    if not tb.tb_frame.f_code.co_filename.startswith(LIB_DIR):
      raise
    # the library raised where no exception is expected (after an earlier step that agreed)
    fctx.violation('unexpected-exception', str(ctx.label), f'{type(e).__name__}: {e!s:.300}',
                   t.witness(signature=D.render_annotated_params(t.sig)))
    ctx.label = None
  return t


# -- nested partial arguments completed through deep paths -------------------------

INIT_LOG = []        # (id(self), snapshot of the arguments) per run of a user __init__
NESTED_MODES = ['root-rebind', 'root-rebind', 'child-rebind', 'child-rebind', 'child-assign',
                'slot-rebind']


class NTarget(Target):
  """An untyped signature as a function returning, and a class whose __init__
  records, a plain snapshot of the arguments taken when it runs."""

  def __init__(self, sig, uid, rng):   # pylint: disable=super-init-not-called
    ns = sys.modules[MODULE].__dict__
    ns['SNAP'], ns['INIT_LOG'] = D.snap, INIT_LOG
    params = S.render_params(sig)
    fname, cname = f'nf_{uid}', f'NK_{uid}'
    fsrc = f'def {fname}({params}):\n  return SNAP(dict(locals()))\n'
    csrc = (f'class {cname}:\n'
            f'  def __init__(self{", " + params if params else ""}):\n'
            f'    got = dict(locals())\n'
            f'    got.pop("self")\n'
            f'    self.got = SNAP(got)\n'
            f'    INIT_LOG.append((id(self), self.got))\n')
    exec(fsrc, ns)  # pylint: disable=exec-used
    exec(csrc, ns)  # pylint: disable=exec-used
    f, K = ns[fname], ns[cname]
    f.__module__ = K.__module__ = MODULE
    Target.__init__(self, sig, uid, rng, f=f, K=K)
    self.fsrc, self.csrc = fsrc, csrc
    self.fkind, self.ckind = 'nested-functor', 'nested-class'
    self.class_entry = rng.choice(['symbolize', 'symbolize-auto-typing', 'wrap', 'wrap-auto-typing'])

  def build(self):
    class_entry = self.class_entry
    self.class_entry = 'symbolize'
    Target.build(self)
    self.class_entry = class_entry
    auto = class_entry.endswith('auto-typing')
    fn = pg.symbolize if class_entry.startswith('symbolize') else pg.wrap
    self.C = fn(self.K, auto_typing=True) if auto else fn(self.K)


def nested_signature(rng):
  while True:
    sig = S.make_signature(rng)
    if not sig['typed'] and (sig['pos'] or sig['kwonly'] or sig['varargs'] or sig['varkw']):
      return sig


def exp_snap(v):
  """Expected snapshot of a model value (descriptions of nested values inside)."""
  if D.is_desc(v):
    return D.expect(v)
  if isinstance(v, (list, tuple)):
    return [exp_snap(x) for x in v]
  if isinstance(v, dict):
    return {k: exp_snap(x) for k, x in v.items()}
  return D.snap(v)


def materialize(v):
  """Fresh argument values of a model value."""
  if D.is_desc(v):
    return D.build(v)
  if isinstance(v, tuple):
    return tuple(materialize(x) for x in v)
  if isinstance(v, list):
    return [materialize(x) for x in v]
  if isinstance(v, dict):
    return {k: materialize(x) for k, x in v.items()}
  return v


def nested_history(ctx, t, rng):
  """One object with nested partial arguments, completed through deep paths."""
  c = ctx.counters
  sig = t.sig
  root_kind = rng.choice(['class', 'class', 'functor'])
  kind = t.ckind if root_kind == 'class' else t.fkind
  a, k = S.make_call(rng, sig, 'valid')
  r = t.bind(a, k)
  assert r[0] == 'ok'
  named, varargs, extra = dict(r[1]), list(r[2]), dict(r[3])
  positional_ok = all(n in named or n in t.defaults for n in t.pos)
  if sig['varargs'] and not varargs and positional_ok and rng.random() < 0.6:
    varargs = [rng.randint(1, 9)]
  if sig['varkw'] and not extra and rng.random() < 0.6:
    extra['zz'] = rng.randint(1, 9)
  if varargs:
    for n in t.pos:     # all given positionally
      named.setdefault(n, t.defaults.get(n))
  slots = ([('named', n) for n in named] + [('varargs', i) for i in range(len(varargs))]
           + [('extra', n) for n in extra])
  if not slots:
    return
  paths = {}          # slot path -> description
  for where, n in rng.sample(slots, min(len(slots), rng.choice([1, 1, 2]))):
    d = D.make_nested(rng)
    if where == 'named':
      named[n] = d
      paths[n] = d
    elif where == 'varargs':
      varargs[n] = d
      paths[f'{sig["varargs"]}[{n}]'] = d
    else:
      extra[n] = d
      paths[n] = d
    c['nested_slot:' + (t.param_kind(n) if where != 'varargs' else 'varargs')] += 1
  state = (named, tuple(varargs), extra)
  kinds = sorted(set().union(*(D.kinds_in(d) for d in paths.values())))
  for kd in kinds:
    c['nested_kind:' + kd] += 1

  # -- how the arguments are supplied ------------------------------------------
  if varargs:
    a1 = [named[n] for n in t.pos] + list(varargs)
  else:
    npos = 0
    while npos < len(t.pos) and t.pos[npos] in named:
      npos += 1
    a1 = [named[n] for n in t.pos[:rng.randint(0, npos)]]
  k1 = {n: v for n, v in named.items() if n not in t.pos[:len(a1)]}
  k1.update(extra)
  k_call = {}
  if root_kind == 'functor':
    # (after a JSON round trip only parameters without any value are bound at call time)
    later = [n for n in k1 if not D.is_desc(k1[n]) and n in named and n not in t.defaults]
    if later and rng.random() < 0.5:
      n = rng.choice(later)
      k_call[n] = k1.pop(n)
  ops = []
  copy = rng.choice(['none', 'none', 'clone-deep', 'clone-shallow', 'json'])
  if copy == 'json' and 'typed-dict' in kinds:
    copy = 'clone-deep'     # (whether a Dict keeps its value spec in JSON is left open)
  how = 'construct'
  if root_kind == 'class' and rng.random() < 0.3:
    how = 'partial'
  witness = t.witness(**{'root': root_kind, 'entry': t.entry if root_kind == 'functor' else 'class-' + t.class_entry,
                         'source': (t.csrc if root_kind == 'class' else t.fsrc),
                         how: copy_mod.deepcopy([a1, k1]), 'copy-before-binding': copy, 'operations': ops,
                         'call': k_call})
  c['nested_histories'] += 1
  c['nested_root:' + root_kind] += 1
  c['nested_copy:' + copy] += 1
  del INIT_LOG[:]

  ctx.label = 'nested.construct'
  ctor = t.F if root_kind == 'functor' else (t.C.partial if how == 'partial' else t.C)
  root = ctor(*materialize(a1), **materialize(k1))
  if copy.startswith('clone'):
    ctx.label = 'nested.clone'
    root = root.clone(deep=copy == 'clone-deep')
  elif copy == 'json':
    ctx.label = 'nested.json-round-trip'
    root = pg.from_json(pg.to_json(root), allow_partial=True)
  ctx.label = None

  def reference():
    m = materialize(state)
    if root_kind == 'functor':
      return t.final(m[0], m[1], m[2], t.f)
    return t.final(m[0], m[1], m[2], lambda *aa, **kk: t.K(*aa, **kk).got)

  def write(path, v, mode, suppressed):
    """Writes leaf `path` of `root` the way `mode` says; returns the mode used."""
    kp = pg.KeyPath.parse(path)
    slot = max((s for s in paths if path.startswith(s)), key=len)
    ctx.label = 'nested.' + mode
    def do():
      nonlocal mode
      if mode == 'root-rebind':
        root.rebind({path: v})
        return
      parent = kp.parent.query(root)
      if mode == 'child-assign':
        if isinstance(parent, pg.Functor):
          setattr(parent, kp.key, v)
          return
        if isinstance(parent, pg.Dict):
          parent[kp.key] = v
          return
        mode = 'child-rebind'
      if mode == 'slot-rebind':
        rel = path[len(slot):].lstrip('.')
        pg.KeyPath.parse(slot).query(root).rebind({rel: v})
        return
      parent.rebind({kp.key: v})
    if suppressed:
      with pg.notify_on_change(False):
        do()
    else:
      do()
    ctx.label = None
    D.put(paths[slot], path[len(slot):], v)
    c['nested_mode:' + mode] += 1
    return mode

  def usable(obj, phase, mode, mark, what=None):
    """`obj` must behave like the plain callable called with the final arguments."""
    want = reference()
    assert want[0] == 'ok', want
    mech = f'{kind}.{phase}:{mode}'
    ok = True
    c['nested_' + phase + 's_checked'] += 1
    ctx.label = 'nested.sym_missing'
    missing = obj.sym_missing()
    partial = obj.sym_partial
    ctx.label = None
    if missing or partial:
      ctx.violation(what or 'reported-args', f'{kind}:sym_missing-after-{phase}',
                    f'all arguments are bound ({mode}); sym_missing() = {missing!r:.200}, '
                    f'sym_partial = {partial}', witness)
      ok = False
    if root_kind == 'class':
      runs = [e for e in INIT_LOG[mark:] if e[0] == id(obj)]
      got = outcome(lambda: obj.got)
      c['nested_init_runs_checked'] += 1
      if got[0] != 'ok' or not runs:
        ctx.violation(what or 'wrong-state', mech,
                      f'the arguments are complete but the user __init__ has not run with them '
                      f'(runs since the binding: {len(runs)}; reading the state: '
                      f'{got[0]} {got[1]!s:.120}); expected state {want[1]!r:.300}', witness)
        return False
      if got[1] != want[1] or runs[-1][1] != want[1]:
        ctx.violation(what or 'wrong-state', mech,
                      f'{t.K.__name__}(*final arguments) has {want[1]!r:.300}\n'
                      f'symbolic object has {got[1]!r:.300} (last run saw {runs[-1][1]!r:.200})', witness)
        return False
      if len(runs) != 1:
        ctx.violation(what or 'init-runs', mech,
                      f'one binding ran the user __init__ {len(runs)} times', witness)
        ok = False
    else:
      got = outcome(lambda: obj(**k_call))
      c['nested_functor_calls_compared'] += 1
      if got[0] != 'ok' or got[1] != want[1]:
        ctx.violation(what or 'wrong-result', mech,
                      f'direct call returns {want[1]!r:.300}\nfunctor: {got[0]} {got[1]!r:.300}', witness)
        return False
    exp = exp_snap(t.report(*state))
    for n in k_call:
      exp[n] = D.MISSING_SNAP
    have = {n: D.snap(v) for n, v in obj.sym_init_args.sym_items()}
    c['reported_args_checks'] += 1
    if have != exp:
      ctx.violation(what or 'reported-args', f'{kind}:sym_init_args-nested',
                    f'effective arguments {exp!r:.300}\nreported {have!r:.300}', witness)
      ok = False
    return ok

  def bind(path, v, phase):
    """One write (maybe unnotified, then followed by a notified one). False ends."""
    mark = len(INIT_LOG)
    mode = rng.choice(NESTED_MODES)
    suppressed = rng.random() < 0.2
    mode = write(path, v, mode, suppressed)
    ops.append([mode + ('-unnotified' if suppressed else ''), {path: v}])
    remaining = [s + h for s, d in paths.items() for h in D.holes(d)]
    if remaining:
      return True
    if suppressed:
      # No notification: the state is left open until the next notified binding.
      c['nested_suppressed_ops'] += 1
      cand = [s + l for s, d in paths.items() for l in D.leaves(d)]
      path2 = rng.choice(cand)
      slot = max((s for s in paths if path2.startswith(s)), key=len)
      cur = D.get(paths[slot], path2[len(slot):])
      v2 = rng.choice([x for x in range(11, 19) if x != cur])
      mark = len(INIT_LOG)
      m2 = write(path2, v2, rng.choice(NESTED_MODES), False)
      ops.append([m2, {path2: v2}])
      mode = 'after-unnotified'
    return usable(root, phase, mode, mark)

  # -- completion ----------------------------------------------------------------
  todo = [s + h for s, d in paths.items() for h in D.holes(d)]
  rng.shuffle(todo)
  assert todo
  while todo:
    if len(todo) > 1 and rng.random() < 0.3:
      # several deep paths in one rebind from the root
      mark = len(INIT_LOG)
      upd = {p: rng.randint(1, 9) for p in todo}
      ctx.label = 'nested.root-rebind'
      root.rebind(upd)
      ctx.label = None
      for p, v in upd.items():
        slot = max((s for s in paths if p.startswith(s)), key=len)
        D.put(paths[slot], p[len(slot):], v)
      ops.append(['root-rebind', upd])
      c['nested_mode:root-rebind-many'] += 1
      todo = []
      if not usable(root, 'completion', 'root-rebind', mark):
        return
      break
    p = todo.pop()
    if not bind(p, rng.randint(1, 9), 'completion'):
      return
  c['late_bindings'] += 1

  # -- a later change below an argument -----------------------------------------
  if rng.random() < 0.7:
    cand = [s + l for s, d in paths.items() for l in D.leaves(d)]
    p = rng.choice(cand)
    slot = max((s for s in paths if p.startswith(s)), key=len)
    cur = D.get(paths[slot], p[len(slot):])
    if not bind(p, rng.choice([x for x in range(21, 29) if x != cur]), 'modification'):
      return

  # -- copies of the complete object --------------------------------------------
  for what, label in (('clone-differs', 'nested.clone'), ('json-differs', 'nested.json-round-trip')):
    mark = len(INIT_LOG)
    ctx.label = label
    if what == 'clone-differs':
      o = root.clone(deep=rng.random() < 0.5)
    else:
      o = pg.from_json(pg.to_json(root))
    ctx.label = None
    c['clone_checks' if what == 'clone-differs' else 'json_checks'] += 1
    usable(o, 'copy', what.split('-')[0], mark, what=what)


def run_nested(ctx, uid, rng):
  t = NTarget(nested_signature(rng), uid, rng)
  ctx.label = 'symbolize'
  t.build()
  ctx.label = None
  for _ in range(ctx.params['nested']):
    nested_history(ctx, t, rng)
  return t


# -- histories of one instance of a symbolized class ---------------------------

def public_state(obj):
  return {k: v for k, v in vars(obj).items() if not k.startswith('_')}


class HTarget(Target):
  """A class with the signature of `base` whose __init__ builds state
  conditionally (and rejects some values), symbolized."""
  ckind = 'class'

  def __init__(self, base, uid, rng):   # pylint: disable=super-init-not-called
    self.sig, self.pos, self.kwo = base.sig, base.pos, base.kwo
    self.defaults, self.pysig, self.f = base.defaults, base.pysig, base.f
    self.plan = S.make_init_plan(rng, self.sig)
    self.guarded = S.guarded(self.plan)
    self.cname = f'H_{uid}'
    self.csrc = S.render_stateful_class(self.sig, self.cname, self.plan)
    ns = sys.modules[MODULE].__dict__
    exec(self.csrc, ns)  # pylint: disable=exec-used
    self.K = ns[self.cname]
    self.K.__module__ = MODULE
    self.class_entry = rng.choice(['symbolize', 'symbolize-auto-typing', 'wrap', 'wrap-auto-typing'])

  def build(self):
    auto = self.class_entry.endswith('auto-typing')
    fn = pg.symbolize if self.class_entry.startswith('symbolize') else pg.wrap
    self.C = fn(self.K, auto_typing=True) if auto else fn(self.K)

  def fresh(self, state):
    """Public state of the plain class built from the effective arguments."""
    return outcome(lambda: self.final(*state, lambda *aa, **kk: public_state(self.K(*aa, **kk))))


def history_value(rng, t, name, current, bad=False):
  """A value for `name` that differs from `current` (rejected by __init__ if `bad`)."""
  sig = t.sig
  if bad:
    return rng.choice([v for v in S.BAD_VALUES if v != current] or list(S.BAD_VALUES))
  for _ in range(8):
    r = rng.random()
    if r < 0.35:
      # values that switch a conditional attribute off
      cand = [S.NEUTRAL]
      if isinstance(t.defaults.get(name), int):
        cand.append(t.defaults[name])
      if not sig['typed']:
        cand += [None, None]
      v = rng.choice(cand)
    elif sig['typed'] or r < 0.85:
      v = rng.randint(20, 60)
    else:
      v = rng.choice(['s', 't', [1, 2], {'x': 1}, 2.5])
    if not (type(v) is type(current) and v == current):
      return v
  return rng.randint(61, 99)


def placeholder(rng, sig):
  if sig['typed'] or rng.random() < 0.7:
    return pg.oneof([rng.randint(20, 40), rng.randint(41, 60)])
  return rng.choice([pg.floatv(0.0, 1.0), pg.oneof(['s', 't']), pg.manyof(2, [21, 22, 23])])


def class_history(ctx, t, rng):
  """One instance driven through (re)bindings; after every binding that
  completes, its state must be that of a fresh `K(*effective arguments)`."""
  c = ctx.counters
  sig = t.sig
  ops = []
  witness = {'class': t.csrc, 'entry': 'class-' + t.class_entry, 'history': ops}
  HOLE = object()
  current = lambda st, n: st[0].get(n, st[2].get(n, t.defaults.get(n, HOLE)))

  # -- start -----------------------------------------------------------------
  start = rng.choice(['construct', 'construct', 'partial', 'placeholder'])
  for _ in range(4):
    a, k = S.make_call(rng, sig, 'valid')
    r = t.bind(a, k)
    assert r[0] == 'ok'
    state = (r[1], r[2], r[3])
    if start != 'construct' or rng.random() < 0.3 or t.fresh(state)[0] == 'ok':
      break
  holes = {}          # name -> 'placeholder' | 'missing'
  partial = False
  if start == 'partial':
    partial = True
    required = [n for n in t.pos + t.kwo if n not in t.defaults]
    drop = rng.sample(required, rng.randint(1, len(required))) if required else []
    a, k = [], dict(state[0], **state[2])
    state = ({n: v for n, v in state[0].items() if n not in drop}, (), state[2])
    for n in drop:
      k.pop(n)
      holes[n] = 'missing'
  elif start == 'placeholder':
    cand = list(state[0]) + list(state[2])
    if cand:
      n = rng.choice(cand)
      ph = placeholder(rng, sig)
      if n in t.pos and t.pos.index(n) < len(a):
        a = list(a)
        a[t.pos.index(n)] = ph
      else:
        k = dict(k, **{n: ph})
      state = ({x: v for x, v in state[0].items() if x != n}, state[1],
               {x: v for x, v in state[2].items() if x != n})
      holes[n] = 'placeholder'
  ops.append(['partial' if partial else 'construct', [a, k]])
  c['history:start-' + start] += 1
  c['histories'] += 1

  since = set()         # what happened since __init__ last completed
  dirty = set()         # names assigned by a binding that raised
  initialized = False

  def event():
    for e in ('failed-init', 'placeholder', 'partial'):
      if e in since:
        return 'after-' + e
    return 'after-rebind' if initialized else 'first-init'

  def judge(got, obj, what):
    """Compares the outcome of a binding with the reference. False ends the history."""
    nonlocal initialized
    if holes:
      since.update('placeholder' if h == 'placeholder' else 'partial' for h in holes.values())
      if got[0] != 'ok':
        ctx.violation('rejects-valid', f'{t.ckind}.history:{what}-incomplete',
                      f'binding of an object that stays incomplete raised {got[0]}: {got[1]!s:.300}',
                      witness)
        return False
      c['history_incomplete_bindings'] += 1
      return True
    exp = t.fresh(state)
    assert exp[0] in ('ok', 'ValueError'), exp
    if exp[0] == 'ok':
      exp = exp[1]
      assert exp[0] == 'ok', exp
    ev = event()
    c['history_states_compared'] += 1
    c['history:' + ev] += 1
    if exp[0] == 'ValueError':
      c['history_failed_inits'] += 1
      since.add('failed-init')
      if got[0] == 'ok':
        ctx.violation('accepts-invalid', f'{t.ckind}.history.{ev}:init-raises',
                      f'{t.cname}(*effective arguments) raises {exp[1]!r}; the binding succeeded', witness)
        return False
      if got[0] != 'ValueError':
        ctx.violation('error-kind', f'{t.ckind}.history.{ev}:init-raises',
                      f'plain raises {exp[1]!r}; symbolic raised {got[0]}: {got[1]!s:.300}', witness)
        return False
      return True
    if got[0] != 'ok':
      ctx.violation('rejects-valid', f'{t.ckind}.history:{ev}',
                    f'plain gives {exp[1]!r:.200}; symbolic raised {got[0]}: {got[1]!s:.300}', witness)
      return False
    have = public_state(obj)
    if not same(exp[1], have):
      ctx.violation('wrong-state', f'{t.ckind}.history:{ev}',
                    f'{t.cname}(*effective arguments) has {exp[1]!r:.400}\n'
                    f'symbolic object has {plain(have)!r:.400}', witness)
      return False
    if 'placeholder' in since:
      c['history_placeholder_roundtrips'] += 1
    if 'partial' in since:
      c['history_partial_completions'] += 1
    if 'failed-init' in since:
      c['history_recoveries'] += 1
    since.clear()
    initialized = True
    if not check_report(ctx, t, t.ckind, obj, state, witness, where='history-sym_init_args'):
      return False
    return True

  def copies(obj):
    want = t.fresh(state)[1][1]
    c['clone_checks'] += 1
    ctx.label = 'class.clone'
    cl = obj.clone(deep=rng.random() < 0.5)
    ctx.label = 'class.json-round-trip'
    back = pg.from_json(pg.to_json(obj))
    ctx.label = None
    c['json_checks'] += 1
    for what, o in (('clone-differs', cl), ('json-differs', back)):
      check_report(ctx, t, t.ckind, o, state, witness, what=what, where='history-sym_init_args')
      have = public_state(o)
      if not same(want, have):
        ctx.violation(what, f'{t.ckind}.history:state',
                      f'expected {want!r:.300}; copy has {plain(have)!r:.300}', witness)

  ctor = t.C.partial if partial else t.C
  got = outcome(lambda: ctor(*a, **k))
  obj = got[1] if got[0] == 'ok' else None
  if not judge(got, obj, 'construct') or obj is None:
    return
  if holes:
    check_report(ctx, t, t.ckind, obj, state, witness, where='history-sym_init_args',
                 skip=[n for n, h in holes.items() if h == 'placeholder'])

  # -- (re)bindings ------------------------------------------------------------
  steps = ctx.params['steps']
  for step in range(steps):
    last = step == steps - 1
    named, varargs, extra = dict(state[0]), state[1], dict(state[2])
    assignable = t.pos + t.kwo + sorted(extra) + (
        [u for u in S.UNKNOWN if u not in extra] if sig['varkw'] else [])
    guarded = [n for n in t.guarded if n in assignable]
    choices = ['rebind', 'rebind']
    if guarded and not last:
      choices += ['bad', 'bad']
    if not last and (named or extra):
      choices += ['placeholder']
    if not last and partial and any(n in named and n not in t.defaults for n in t.pos + t.kwo):
      choices += ['unset']
    if extra and not dirty:
      choices += ['drop-extra']
    if holes:
      choices += ['fill'] * 4
    op = rng.choice(choices)
    if dirty or last and holes:
      op = 'fill'
    upd = {}
    def assign(n, v):
      upd[n] = v
      holes.pop(n, None)
      (named if n in t.pos + t.kwo else extra)[n] = v
    if op in ('rebind', 'bad'):
      if not assignable:
        continue
      for n in rng.sample(assignable, min(len(assignable), rng.randint(1, 3))):
        assign(n, history_value(rng, t, n, current(state, n)))
      if op == 'bad':
        n = rng.choice(guarded)
        assign(n, history_value(rng, t, n, current(state, n), bad=True))
    elif op == 'fill':
      for n in sorted(set(holes) | dirty):
        assign(n, history_value(rng, t, n, current(state, n)))
      if rng.random() < 0.3 and assignable:
        n = rng.choice(assignable)
        if n not in upd:
          assign(n, history_value(rng, t, n, current(state, n)))
    elif op == 'placeholder':
      n = rng.choice(sorted(named) + sorted(extra))
      upd[n] = placeholder(rng, sig)
      named.pop(n, None)
      extra.pop(n, None)
      holes[n] = 'placeholder'
    elif op == 'unset':
      n = rng.choice([n for n in t.pos + t.kwo if n in named and n not in t.defaults])
      upd[n] = MISSING
      named.pop(n)
      holes[n] = 'missing'
    else:
      n = rng.choice(sorted(extra))
      upd[n] = MISSING
      extra.pop(n)
    state = (named, varargs, extra)
    ops.append([op, dict(upd)])
    c['history_op:' + op] += 1
    c['late_bindings'] += 1
    got = outcome(lambda: obj.rebind(upd, raise_on_no_change=False))
    was_dirty = bool(dirty)
    if not holes and t.fresh(state)[0] == 'ValueError':
      # (whatever was assigned, and whatever is rejected, is assigned again next)
      dirty |= set(upd) | {n for n in t.guarded if current(state, n) in S.BAD_VALUES}
    elif not holes or not was_dirty:
      # (a binding that does not run __init__ leaves a failed one unrepaired)
      dirty.clear()
    if not judge(got, obj, 'rebind'):
      return
    if holes and not dirty:
      check_report(ctx, t, t.ckind, obj, state, witness, where='history-sym_init_args',
                   skip=[n for n, h in holes.items() if h == 'placeholder'])
    if not holes and not dirty and (last or rng.random() < 0.3):
      copies(obj)


def run_histories(ctx, base, uid, rng):
  h = HTarget(base, uid, rng)
  ctx.label = 'symbolize'
  h.build()
  ctx.label = None
  ctx.counters['history_entry:' + h.class_entry] += 1
  for _ in range(ctx.params['histories']):
    class_history(ctx, h, rng)
  return h


def run_case(ctx, i):
  rng, c = ctx.rng, ctx.counters
  sig = S.make_signature(rng)
  t = Target(sig, f'{ctx.shard}_{i}', rng)
  ctx.label = 'symbolize'
  t.build()
  ctx.label = None
  c['entry:' + t.entry] += 1
  c['signatures'] += 1
  ctx.seen('signature_shapes', (len(sig['pos']), len(t.defaults), bool(sig['varargs']),
                                len(sig['kwonly']), bool(sig['varkw']), sig['typed']))
  check_signature(ctx, t)
  results = set()
  shapes = []
  for j in range(ctx.params['calls']):
    if j % 3 == 2:
      results.add(class_call(ctx, t, j, rng))
    else:
      results.add(functor_call(ctx, t, j, rng))
  kinds = (bool(sig['pos']) + bool(sig['varargs']) + bool(sig['kwonly']) + bool(sig['varkw']))
  if i % ctx.params['family_every'] == 0:
    run_family(ctx, sig, f'{ctx.shard}_{i}', rng)
  run_decorated(ctx, sig, f'{ctx.shard}_{i}', rng)
  run_nested(ctx, f'{ctx.shard}_{i}', rng)
  h = run_histories(ctx, t, f'{ctx.shard}_{i}', rng)
  run_annotated(ctx, f'{ctx.shard}_{i}', rng)
  run_special(ctx, f'{ctx.shard}_{i}', rng, ['receiver-name', 'positional-only'][i % 2])
  if kinds >= 2 and {'returned', 'rejected'} <= results:
    ctx.mark_nontrivial((S.render_params(sig), t.entry, t.class_entry))
  if i < 2:
    ctx.sample({'def': t.fsrc, 'entry': t.entry, 'class_entry': t.class_entry,
                'calls': ctx.params['calls'], 'history_class': h.csrc,
                'history_entry': h.class_entry})
