"""C18 — symbolized callables keep Python call semantics."""
import inspect
import sys
import types
import typing

import pyglove as pg
from pgverif.gen import signatures as S

TIERS = {
    'quick': dict(shards=8, cases=120, calls=20),
    'thorough': dict(shards=16, cases=1500, calls=40, timeout_s=3000),
}
RULE = ('case = one generated signature (0-4 positional parameters with/without '
        'defaults, *args, 0-3 keyword-only parameters with/without defaults, '
        '**kwargs, annotations) rendered as a plain function, as pg.functor / '
        'pg.symbolize of it (with and without auto_typing) and as a class with '
        'that __init__ wrapped by pg.symbolize; `calls` ways of supplying '
        'arguments each (all at construction, all at call, split, re-bound with '
        'and without override_args, late binding by rebind/attribute assignment, '
        'too many / too few / unknown / duplicated arguments). The oracle binds '
        'each part with inspect.signature(f).bind_partial, merges by name and '
        'calls the plain callable. Non-trivial = the signature has at least two '
        'kinds of parameters and at least one call returned and one was '
        'rejected; distinct by (signature text, call shapes).')
REQUIRED_COUNTERS = ['functor_calls_compared', 'class_constructions_compared',
                     'both_return', 'both_typeerror', 'reported_args_checks',
                     'signature_checks', 'clone_checks', 'json_checks']
ASSUMPTIONS = [
    'inspect.signature(f).bind_partial and the call f(*args, **kwargs) are the reference for argument binding',
    'documented functor rules: positional values at call time fill positions from 0; a name bound twice is a TypeError unless override_args; later binding wins with override_args',
    'not generated (left open): positional-only parameters, *args supplied both at construction and at call, keywords named like the *args/**kwargs parameters, MISSING_VALUE as an argument, ignore_extra_args',
    'after a JSON round trip only parameters without any value are bound at call time (defaults are serialized as values)',
    'values are ints (always for annotated signatures), short strings, None, small lists/dicts/tuples; containers are compared by content',
]

MODULE = 'pgverif_c18_dyn'
MISSING = pg.MISSING_VALUE
EMPTY = inspect.Parameter.empty


def setup(ctx):
  m = types.ModuleType(MODULE)
  m.Any = typing.Any
  sys.modules[MODULE] = m


def cases(ctx):
  return ctx.params['cases']


def plain(v):
  """Content of a value with symbolic containers turned into plain ones."""
  if isinstance(v, dict):
    return {k: plain(x) for k, x in v.items()}
  if isinstance(v, list):
    return [plain(x) for x in v]
  if isinstance(v, tuple):
    return tuple(plain(x) for x in v)
  return v


def same(a, b):
  return _same(plain(a), plain(b))


def _same(a, b):
  if isinstance(a, dict):
    return (isinstance(b, dict) and set(a) == set(b)
            and all(_same(a[k], b[k]) for k in a))
  if isinstance(a, (list, tuple)):
    return (type(a) is type(b) and len(a) == len(b)
            and all(_same(x, y) for x, y in zip(a, b)))
  return type(a) is type(b) and a == b


class Target:
  """A signature in all its renderings."""

  def __init__(self, sig, uid, rng):
    self.sig = sig
    self.pos, self.kwo = S.names(sig)
    self.defaults = {p[0]: p[2] for p in sig['pos'] + sig['kwonly'] if p[1]}
    ns = sys.modules[MODULE].__dict__
    self.fname, self.cname = f'fn_{uid}', f'K_{uid}'
    self.fsrc = S.render_function(sig, self.fname)
    self.csrc = S.render_class(sig, self.cname)
    exec(self.fsrc, ns)  # pylint: disable=exec-used
    exec(self.csrc, ns)  # pylint: disable=exec-used
    self.f = ns[self.fname]
    self.K = ns[self.cname]
    self.f.__module__ = MODULE
    self.K.__module__ = MODULE
    self.pysig = inspect.signature(self.f)
    self.entry = rng.choice(['functor', 'functor()', 'symbolize', 'symbolize-auto-typing'])
    self.class_entry = rng.choice(['symbolize', 'symbolize-auto-typing'])

  def build(self):
    if self.entry == 'functor':
      self.F = pg.functor(self.f)
    elif self.entry == 'functor()':
      self.F = pg.functor()(self.f)
    elif self.entry == 'symbolize':
      self.F = pg.symbolize(self.f)
    else:
      self.F = pg.symbolize(self.f, auto_typing=True)
    if self.class_entry == 'symbolize':
      self.C = pg.symbolize(self.K)
    else:
      self.C = pg.symbolize(self.K, auto_typing=True)

  # -- the reference ---------------------------------------------------------
  def reason(self, a, k):
    """Why the interpreter rejects binding (a, k) - computed from the signature."""
    if len(a) > len(self.pos) and not self.sig['varargs']:
      return 'too-many-positional'
    if any(n in self.pos[:len(a)] for n in k):
      return 'duplicate'
    if not self.sig['varkw'] and any(n not in self.pos + self.kwo for n in k):
      return 'unknown-keyword'
    return 'other'

  def bind(self, a, k):
    """('ok', named, varargs, extra) | ('TypeError', reason) via bind_partial."""
    try:
      ba = self.pysig.bind_partial(*a, **k)
    except TypeError:
      return ('TypeError', self.reason(a, k))
    named, varargs, extra = {}, (), {}
    for name, v in ba.arguments.items():
      kind = self.pysig.parameters[name].kind
      if kind == inspect.Parameter.VAR_POSITIONAL:
        varargs = tuple(v)
      elif kind == inspect.Parameter.VAR_KEYWORD:
        extra = dict(v)
      else:
        named[name] = v
    return ('ok', named, varargs, extra)

  def final(self, named, varargs, extra, plain_callable):
    """Calls the plain callable with the effective arguments."""
    args = []
    for name, has_default, default, _ in self.sig['pos']:
      if name in named:
        args.append(named[name])
      elif has_default:
        args.append(default)
      else:
        return ('TypeError', 'missing-required')
    kwargs = {n: named[n] for n in self.kwo if n in named}
    kwargs.update(extra)
    try:
      return ('ok', plain_callable(*args, *varargs, **kwargs))
    except TypeError:
      return ('TypeError', 'missing-required')

  def report(self, named, varargs, extra):
    """What sym_init_args should say for these bound arguments."""
    r = {}
    for name, has_default, default, _ in self.sig['pos']:
      r[name] = named.get(name, default if has_default else MISSING)
    if self.sig['varargs']:
      r[self.sig['varargs']] = list(varargs)
    for name, has_default, default, _ in self.sig['kwonly']:
      r[name] = named.get(name, default if has_default else MISSING)
    r.update(extra)
    return r

  def param_kind(self, name):
    if name in self.pos:
      return 'positional'
    if name in self.kwo:
      return 'keyword-only'
    if name == self.sig['varargs']:
      return 'varargs'
    return 'varkw'


def first_difference(t, exp, got):
  """Kind of the first parameter whose value differs (both are dicts of locals)."""
  if not isinstance(got, dict) or not isinstance(exp, dict):
    return 'result'
  for name in list(exp) + [n for n in got if n not in exp]:
    if name not in got or name not in exp or not same(exp[name], got[name]):
      return t.param_kind(name)
  return 'order'


def outcome(fn):
  try:
    return ('ok', fn())
  except TypeError as e:
    return ('TypeError', e)
  except Exception as e:  # pylint: disable=broad-except
    return (type(e).__name__, e)


def compare(ctx, t, kind, phase, exp, got, witness, pattern):
  """Judges one library outcome against the reference. True = agree."""
  c = ctx.counters
  if exp[0] == 'ok' and got[0] == 'ok':
    c['both_return'] += 1
    if same(exp[1], got[1]):
      return True
    ctx.violation('wrong-arguments', f'{kind}.{pattern}:{first_difference(t, exp[1], got[1])}',
                  f'plain: {exp[1]!r:.300}\nsymbolic: {plain(got[1])!r:.300}', witness)
    return False
  if exp[0] == 'TypeError' and got[0] == 'TypeError':
    c['both_typeerror'] += 1
    c['reject:' + exp[1]] += 1
    return True
  if exp[0] == 'TypeError' and got[0] == 'ok':
    ctx.violation('accepts-invalid', f'{kind}.{phase}:{exp[1]}',
                  f'the interpreter rejects this binding ({exp[1]}); symbolic returned {plain(got[1])!r:.300}',
                  witness)
    return False
  if exp[0] == 'ok':
    ctx.violation('rejects-valid', f'{kind}.{phase}:{pattern}',
                  f'plain returns {exp[1]!r:.200}; symbolic raised {got[0]}: {got[1]!s:.300}', witness)
    return False
  ctx.violation('error-kind', f'{kind}.{phase}:{exp[1]}',
                f'plain raises TypeError ({exp[1]}); symbolic raised {got[0]}: {got[1]!s:.300}', witness)
  return False


def check_report(ctx, t, kind, obj, state, witness, what='reported-args', where='sym_init_args'):
  ctx.counters['reported_args_checks'] += 1
  exp = t.report(*state)
  got = {k: v for k, v in obj.sym_init_args.sym_items()}
  ok = set(exp) == set(got)
  if ok:
    for n in exp:
      if exp[n] is MISSING or MISSING == got[n]:
        ok = ok and exp[n] is MISSING and MISSING == got[n]
      else:
        ok = ok and same(exp[n], got[n])
  if not ok:
    ctx.violation(what, f'{kind}:{where}',
                  f'effective arguments {exp!r:.300}\nreported {plain(got)!r:.300}', witness)
  return ok


def check_functor_props(ctx, t, fo, state, witness):
  named, varargs, extra = state
  spec = set(named) | set(extra) | ({t.sig['varargs']} if varargs else set())
  unbound = {n for n in t.pos + t.kwo if n not in named and n not in t.defaults}
  ctx.counters['reported_args_checks'] += 1
  if set(fo.specified_args) != spec:
    ctx.violation('reported-args', 'functor:specified_args',
                  f'bound by the user {sorted(spec)}; specified_args {sorted(fo.specified_args)}', witness)
  if set(fo.unbound_args) != unbound or bool(fo.is_fully_bound) != (not unbound):
    ctx.violation('reported-args', 'functor:unbound_args',
                  f'without a value {sorted(unbound)}; unbound_args {sorted(fo.unbound_args)}, '
                  f'is_fully_bound {fo.is_fully_bound}', witness)


def check_signature(ctx, t):
  c = ctx.counters
  ref = [(p.name, p.kind, p.default) for p in t.pysig.parameters.values()]
  def params(fn, drop_self):
    ps = list(inspect.signature(fn).parameters.values())
    if drop_self and ps and ps[0].name == 'self':
      ps = ps[1:]
    return ps
  for kind, where, fn, drop in (('functor', '__init__', t.F.__init__, True),
                                ('class', '__init__', t.C.__init__, True),
                                ('class', 'class', t.C, False)):
    c['signature_checks'] += 1
    try:
      ps = params(fn, drop)
    except (TypeError, ValueError) as e:
      ctx.violation('signature', f'{kind}:{where}', f'inspect.signature fails: {e!r}',
                    {'signature': S.render_params(t.sig)})
      continue
    got = [(p.name, p.kind, p.default) for p in ps]
    bad = got != ref
    if not bad:
      for p in ps:
        a = t.pysig.parameters[p.name].annotation
        if a is not EMPTY and p.annotation is not EMPTY and p.annotation is not a:
          bad = True
    if bad:
      ctx.violation('signature', f'{kind}:{where}',
                    f'def ({S.render_params(t.sig)}) is presented as {inspect.signature(fn)}',
                    {'signature': S.render_params(t.sig), 'entry': t.entry})


def merge_call(t, state, a2, k2, override):
  """Reference for binding (a2, k2) on top of `state` at call time."""
  named, varargs, extra = state
  r = t.bind(a2, k2)
  if r[0] != 'ok':
    return r, None
  _, n2, v2, e2 = r
  if not override and any(n in named or n in extra for n in list(n2) + list(e2)):
    return ('TypeError', 'rebound'), None
  named = dict(named, **n2)
  extra = dict(extra, **e2)
  return None, (named, v2 or varargs, extra)


def functor_call(ctx, t, j, rng):
  c = ctx.counters
  sig = t.sig
  pattern = rng.choice(['ctor-only', 'call-only', 'split', 'split', 'rebound', 'override',
                        'override', 'rebind', 'rebind'])
  a, k = S.make_call(rng, sig)
  a1, k1, a2, k2 = [], {}, [], {}
  override_at = None
  rebinds = []
  if pattern == 'ctor-only':
    a1, k1 = a, k
  elif pattern == 'call-only':
    a2, k2 = a, k
  elif pattern == 'split':
    (a1, k1), (a2, k2) = S.split_call(rng, a, k)
  elif pattern in ('rebound', 'override'):
    a1, k1 = a, k
    a2, k2 = S.make_call(rng, sig, rng.choice(['valid', 'random']))
    if pattern == 'override':
      override_at = rng.choice(['ctor', 'call'])
  else:
    (a1, k1), (a2, k2) = S.split_call(rng, a, k)
    cand = t.pos + t.kwo + (['zz'] if sig['varkw'] else [])
    for n in rng.sample(cand, min(len(cand), rng.randint(1, 2))):
      # (a value equal to the current one is "no change" for rebind: left open)
      how = rng.choice(['rebind', 'setattr'])
      dflt = t.defaults.get(n)
      r = rng.random()
      if n in t.defaults and r < 0.25:
        # away and back: the argument ends up explicitly bound to a value equal
        # to its default (both rebinds change the stored value).
        rebinds.append((n, rng.randint(11, 19), how))
        rebinds.append((n, dflt, rng.choice(['rebind', 'setattr'])))
      elif (n in t.defaults and r < 0.4 and not sig['typed'] and type(dflt) is int
            and not any(p[0] == n and p[3] for p in sig['pos'] + sig['kwonly'])):
        # equal to the default but of another type (10.0 for 10): a change of
        # the stored value that `==` does not see.
        rebinds.append((n, float(dflt), how))
      else:
        rebinds.append((n, ('fresh', rng.randint(11, 19))[sig['typed']] if rng.random() < 0.3
                        else rng.randint(11, 19), how))
  # *args given at both times is left open by the documentation.
  if sig['varargs'] and len(a1) > len(t.pos) and len(a2) > len(t.pos):
    a2 = a2[:len(t.pos)]
  witness = {'def': t.fsrc.split('\n')[0], 'entry': t.entry, 'pattern': pattern,
             'construct': [a1, k1], 'rebinds': rebinds, 'call': [a2, k2],
             'override_args': override_at}
  c['pattern:' + pattern] += 1
  c['functor_calls_compared'] += 1

  # construction
  r1 = t.bind(a1, k1)
  ck = dict(k1)
  if override_at == 'ctor':
    ck['override_args'] = True
  got1 = outcome(lambda: t.F(*a1, **ck))
  if r1[0] != 'ok':
    if got1[0] == 'ok':
      # The error may still be reported at call time.
      got = outcome(lambda: got1[1]())
      compare(ctx, t, 'functor', 'ctor', r1, got, witness, pattern)
    else:
      compare(ctx, t, 'functor', 'ctor', r1, got1, witness, pattern)
    return 'rejected'
  if got1[0] != 'ok':
    # Was the construction valid? Then the whole invocation is.
    compare(ctx, t, 'functor', 'ctor', ('ok', '<a functor>'), got1, witness, pattern)
    return 'rejected'
  fo = got1[1]
  state = (r1[1], r1[2], r1[3])
  check_report(ctx, t, 'functor', fo, state, witness)
  check_functor_props(ctx, t, fo, state, witness)

  # late binding
  for n, v, how in rebinds:
    named, varargs, extra = state
    if n in t.pos + t.kwo:
      named = dict(named, **{n: v})
    else:
      extra = dict(extra, **{n: v})
    state = (named, varargs, extra)
    ctx.label = 'functor.' + how
    if how == 'rebind':
      fo.rebind({n: v}, raise_on_no_change=False)
    else:
      setattr(fo, n, v)
    ctx.label = None
    c['late_bindings'] += 1
  if rebinds:
    check_report(ctx, t, 'functor', fo, state, witness, where='sym_init_args-after-rebind')
    check_functor_props(ctx, t, fo, state, witness)

  # call
  override = override_at is not None
  def expected(st, a_, k_):
    err, merged = merge_call(t, st, a_, k_, override)
    if err is not None:
      return err
    return t.final(*merged, t.f)
  def invoke(obj, a_, k_, force_override=False):
    kk = dict(k_)
    if override_at == 'call' or force_override:
      kk['override_args'] = True
    return outcome(lambda: obj(*a_, **kk))
  exp = expected(state, a2, k2)
  got = invoke(fo, a2, k2)
  phase = 'call'
  agreed = compare(ctx, t, 'functor', phase, exp, got, witness, pattern)
  # The call must not have changed what is bound.
  check_report(ctx, t, 'functor', fo, state, witness, where='sym_init_args-after-call')

  # clone: same bound arguments, same behaviour
  if agreed:
    c['clone_checks'] += 1
    cl = fo.clone(deep=rng.random() < 0.5)
    okr = check_report(ctx, t, 'functor', cl, state, witness, what='clone-differs', where='sym_init_args')
    gotc = invoke(cl, a2, k2)
    if okr and (gotc[0] != got[0] or (got[0] == 'ok' and not same(got[1], gotc[1]))):
      ctx.violation('clone-differs', 'functor:call-outcome',
                    f'original: {got[0]} {plain(got[1]) if got[0] == "ok" else ""!r:.200}; '
                    f'clone: {gotc[0]} {gotc[1]!r:.200}', witness)
    # JSON round trip: defaults are written as values, so only parameters
    # that have no value at all are bound at call time.
    c['json_checks'] += 1
    ctx.label = 'functor.json-round-trip'
    js = pg.to_json(fo)
    back = pg.from_json(js)
    ctx.label = None
    okr = check_report(ctx, t, 'functor', back, state, witness, what='json-differs', where='sym_init_args')
    r2 = t.bind(a2, k2)
    kj = {}
    if r2[0] == 'ok':
      for n, v in list(r2[1].items()) + list(r2[3].items()):
        if n not in state[0] and n not in state[2] and n not in t.defaults:
          kj[n] = v
    expj = expected(state, [], kj)
    gotj = invoke(back, [], kj, force_override=False)
    if okr and (gotj[0] != expj[0] or (expj[0] == 'ok' and not same(expj[1], gotj[1]))):
      ctx.violation('json-differs', 'functor:call-outcome',
                    f'call(**{kj!r}) on the round-tripped functor: expected {expj!r:.200}, got {gotj!r:.200}',
                    witness)
  return 'returned' if got[0] == 'ok' else 'rejected'


def class_call(ctx, t, j, rng):
  c = ctx.counters
  sig = t.sig
  pattern = rng.choice(['ctor-only', 'ctor-only', 'rebind', 'partial'])
  if pattern == 'partial':
    return class_partial(ctx, t, rng)
  a, k = S.make_call(rng, sig)
  witness = {'class': t.csrc.split('\n')[1].strip(), 'entry': 'class-' + t.class_entry,
             'pattern': pattern, 'construct': [a, k]}
  c['class_constructions_compared'] += 1
  try:
    exp = ('ok', t.K(*a, **k).got)
  except TypeError:
    r = t.reason(a, k)
    exp = ('TypeError', 'missing-required' if r == 'other' else r)
  got = outcome(lambda: t.C(*a, **k))
  obj = got[1] if got[0] == 'ok' else None
  gotv = got
  if got[0] == 'ok':
    gotv = outcome(lambda: obj.got)
    if gotv[0] != 'ok':
      gotv = ('ok', '<__init__ did not run>')
  if not compare(ctx, t, 'class', 'ctor', exp, gotv, witness, 'ctor-only'):
    return 'rejected'
  if exp[0] != 'ok':
    return 'rejected'
  r1 = t.bind(a, k)
  state = (r1[1], r1[2], r1[3])
  check_report(ctx, t, 'class', obj, state, witness)
  if pattern == 'rebind':
    cand = t.pos + t.kwo + (['zz'] if sig['varkw'] else [])
    if cand:
      n, v = rng.choice(cand), rng.randint(11, 19)    # differs from the current value
      named, varargs, extra = state
      if n in t.pos + t.kwo:
        named = dict(named, **{n: v})
      else:
        extra = dict(extra, **{n: v})
      state = (named, varargs, extra)
      witness = dict(witness, rebind=[n, v])
      ctx.label = 'class.rebind'
      obj.rebind({n: v}, raise_on_no_change=False)
      ctx.label = None
      c['late_bindings'] += 1
      expr = t.final(*state, lambda *aa, **kk: t.K(*aa, **kk).got)
      compare(ctx, t, 'class', 'rebind', expr, ('ok', obj.got), witness, 'rebind')
      check_report(ctx, t, 'class', obj, state, witness, where='sym_init_args-after-rebind')
  want = t.final(*state, lambda *aa, **kk: t.K(*aa, **kk).got)
  c['clone_checks'] += 1
  cl = obj.clone(deep=rng.random() < 0.5)
  check_report(ctx, t, 'class', cl, state, witness, what='clone-differs', where='sym_init_args')
  if not same(want[1], cl.got):
    ctx.violation('clone-differs', 'class:init-arguments',
                  f'expected {want[1]!r:.200}; clone was initialised with {plain(cl.got)!r:.200}', witness)
  c['json_checks'] += 1
  ctx.label = 'class.json-round-trip'
  back = pg.from_json(pg.to_json(obj))
  ctx.label = None
  check_report(ctx, t, 'class', back, state, witness, what='json-differs', where='sym_init_args')
  if not same(want[1], back.got):
    ctx.violation('json-differs', 'class:init-arguments',
                  f'expected {want[1]!r:.200}; round trip was initialised with {plain(back.got)!r:.200}',
                  witness)
  return 'returned'


def class_partial(ctx, t, rng):
  """Arguments bound partially at construction, completed later by rebind."""
  c = ctx.counters
  a, k = S.make_call(rng, t.sig, 'valid')
  keys = list(k)
  rng.shuffle(keys)
  cut = rng.randint(0, len(keys))
  k1 = {n: k[n] for n in keys[:cut]}
  k2 = {n: k[n] for n in keys[cut:]}
  witness = {'class': t.csrc.split('\n')[1].strip(), 'entry': 'class-' + t.class_entry,
             'pattern': 'partial', 'construct': [a, k1], 'rebind': k2}
  r1 = t.bind(a, k1)
  if r1[0] != 'ok':
    return 'rejected'
  c['class_constructions_compared'] += 1
  c['pattern:class-partial'] += 1
  ctx.label = 'class.partial'
  obj = t.C.partial(*a, **k1)
  if k2:
    obj.rebind(k2, raise_on_no_change=False)
  ctx.label = None
  named, varargs, extra = r1[1], r1[2], r1[3]
  for n, v in k2.items():
    if n in t.pos + t.kwo:
      named = dict(named, **{n: v})
    else:
      extra = dict(extra, **{n: v})
  state = (named, varargs, extra)
  want = t.final(*state, lambda *aa, **kk: t.K(*aa, **kk).got)
  got = outcome(lambda: obj.got)
  if got[0] != 'ok':
    got = ('ok', '<__init__ did not run>')
  compare(ctx, t, 'class', 'rebind', want, got, witness, 'partial')
  check_report(ctx, t, 'class', obj, state, witness, where='sym_init_args-after-rebind')
  return 'returned'


def run_case(ctx, i):
  rng, c = ctx.rng, ctx.counters
  sig = S.make_signature(rng)
  t = Target(sig, f'{ctx.shard}_{i}', rng)
  ctx.label = 'symbolize'
  t.build()
  ctx.label = None
  c['entry:' + t.entry] += 1
  c['signatures'] += 1
  ctx.seen('signature_shapes', (len(sig['pos']), len(t.defaults), bool(sig['varargs']),
                                len(sig['kwonly']), bool(sig['varkw']), sig['typed']))
  check_signature(ctx, t)
  results = set()
  shapes = []
  for j in range(ctx.params['calls']):
    if j % 3 == 2:
      results.add(class_call(ctx, t, j, rng))
    else:
      results.add(functor_call(ctx, t, j, rng))
  kinds = (bool(sig['pos']) + bool(sig['varargs']) + bool(sig['kwonly']) + bool(sig['varkw']))
  if kinds >= 2 and {'returned', 'rejected'} <= results:
    ctx.mark_nontrivial((S.render_params(sig), t.entry, t.class_entry))
  if i < 2:
    ctx.sample({'def': t.fsrc, 'entry': t.entry, 'class_entry': t.class_entry,
                'calls': ctx.params['calls']})
